#!/bin/bash
# usage: check.sh <property id> [quick|thorough]
# Rebuilds the harness against /repo's current working tree (replace => /repo) with the
# verif build tag, then runs the check. Exit 0 held / 1 violation / 2 inconclusive.
set -u
ID=${1:?property id}
TIER=${2:-${VERIF_TIER:-quick}}
HERE=$(cd "$(dirname "$0")" && pwd)
export GOFLAGS=-mod=mod GOPROXY=off GOSUMDB=off GOTOOLCHAIN=local
export VERIF_ROOT=$HERE
mkdir -p "$HERE/bin" "$HERE/evidence"
cd "$HERE/harness" || exit 2
build() { # $1 = output, rest = extra flags
  local out=$1; shift
  if ! go build -tags verif -ldflags=-checklinkname=0 "$@" -o "$out" ./cmd/vcheck > "$HERE/bin/build.log" 2>&1; then
    echo "BUILD FAILED (harness against /repo working tree):"; tail -40 "$HERE/bin/build.log"; exit 2
  fi
}
build "$HERE/bin/vcheck"
case "$ID" in
  C12|C14|C17|C20) build "$HERE/bin/vcheck-race" -race ;;
esac
case "$ID" in
  C01|C02|C03|C04|C06|C09|C11|C12|C14|C16|C20) if ! (cd /repo && go build -ldflags=-checklinkname=0 -o "$HERE/bin/kvass" ./cmd/kvass) > "$HERE/bin/build-kvass.log" 2>&1; then
         echo "BUILD FAILED (kvass binary):"; tail -40 "$HERE/bin/build-kvass.log"; exit 2; fi ;;
esac
cd "$HERE" || exit 2
exec "$HERE/bin/vcheck" run "$ID" --tier "$TIER" --seed "${VERIF_SEED:-1}"
