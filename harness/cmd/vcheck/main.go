// vcheck: one binary for all property checks.
//
//	vcheck run <Cxx> [--tier quick|thorough] [--seed N]
//	vcheck worker ...   (child process, started by run)
//	vcheck replay <path>
package main

import (
	"flag"
	"fmt"
	"io"
	"os"
	"path/filepath"
	"strconv"
	"strings"

	"github.com/gin-gonic/gin"

	"kvassverif/internal/core"
	_ "kvassverif/internal/e1"
	_ "kvassverif/internal/e2"
	_ "kvassverif/internal/e3"
	_ "kvassverif/internal/e4"
	_ "kvassverif/internal/e5"
	_ "kvassverif/internal/e6"

	_ "github.com/prometheus/prometheus/discovery/install"
)

func main() {
	gin.SetMode(gin.ReleaseMode)
	gin.DefaultWriter = io.Discard
	gin.DefaultErrorWriter = io.Discard
	if len(os.Args) < 2 {
		fmt.Println("usage: vcheck run|worker|replay|list ...")
		os.Exit(2)
	}
	self, _ := os.Executable()
	switch os.Args[1] {
	case "list":
		for _, id := range core.IDs() {
			fmt.Println(id)
		}
	case "run":
		fs := flag.NewFlagSet("run", flag.ExitOnError)
		tier := fs.String("tier", envOr("VERIF_TIER", "quick"), "quick|thorough")
		seed := fs.Uint64("seed", envSeed(), "seed")
		if len(os.Args) < 3 {
			fmt.Println("usage: vcheck run <id>")
			os.Exit(2)
		}
		id := os.Args[2]
		_ = fs.Parse(os.Args[3:])
		p := core.Lookup(id)
		if p == nil {
			fmt.Println("unknown property", id)
			os.Exit(2)
		}
		race := filepath.Join(filepath.Dir(self), "vcheck-race")
		os.Exit(core.ParentMain(p, *tier, *seed, self, race))
	case "worker":
		fs := flag.NewFlagSet("worker", flag.ExitOnError)
		prop := fs.String("prop", "", "")
		tier := fs.String("tier", "quick", "")
		seed := fs.Uint64("seed", 1, "")
		from := fs.Int("from", 0, "")
		step := fs.Int("step", 1, "")
		total := fs.Int("total", 0, "")
		out := fs.String("out", "", "")
		scratch := fs.String("scratch", "", "")
		list := fs.String("list", "", "")
		race := fs.Bool("race", false, "")
		_ = fs.Parse(os.Args[2:])
		p := core.Lookup(*prop)
		if p == nil {
			os.Exit(4)
		}
		w := &core.WorkerCtx{Tier: *tier, Seed: *seed, Scratch: *scratch, Self: self, Race: *race || p.Race}
		var idxs []int
		for _, f := range strings.Split(*list, ",") {
			if n, err := strconv.Atoi(f); err == nil {
				idxs = append(idxs, n)
			}
		}
		os.Exit(core.WorkerMain(p, w, *from, *step, *total, *out, idxs))
	case "replay":
		if len(os.Args) < 3 {
			os.Exit(2)
		}
		os.Exit(core.ReplayMain(os.Args[2], self))
	default:
		if h := core.LookupSub(os.Args[1]); h != nil {
			os.Exit(h(os.Args[2:]))
		}
		fmt.Println("unknown command")
		os.Exit(2)
	}
}

func envOr(k, d string) string {
	if v := os.Getenv(k); v != "" {
		return v
	}
	return d
}

func envSeed() uint64 {
	if v := os.Getenv("VERIF_SEED"); v != "" {
		if n, err := strconv.ParseUint(v, 10, 64); err == nil {
			return n
		}
		if n, err := strconv.ParseInt(v, 10, 64); err == nil {
			return uint64(n)
		}
	}
	return 1
}
