// Package cfggen is a structured random generator of Prometheus configurations. A Spec is a
// plain data structure; Render turns it into YAML text in one of several equivalent styles.
package cfggen

import (
	"fmt"
	"sort"
	"strings"

	"kvassverif/internal/core"
)

// Relabel is one relabel rule.
type Relabel struct {
	Source      []string
	Separator   string // "" = default
	Regex       string // "" = default
	Modulus     int
	Target      string
	Replacement string // "" = default; use "$1" etc
	Action      string // "" = replace
	HasRepl     bool   // render replacement even if empty string
}

// Auth describes HTTP client credentials.
type Auth struct {
	Kind     string // none | basic | bearer | authorization | tls | oauth2 | basic+tls
	User     string
	Secret   string // password / token / client secret
	Scheme   string // authorization type
	TLSFiles bool   // ca_file/cert_file/key_file (else server_name + insecure_skip_verify)
}

// SD is a service discovery section.
type SD struct {
	Kind    string // static | file | kubernetes | dns | http
	Targets []string
	Labels  map[string]string
	Option  string // kind specific: role / file glob / dns name / url
	Refresh string
	Auth    Auth // credentials of the discovery client itself (kubernetes, http)
}

// Job is a scrape config.
type Job struct {
	Name            string
	Scheme          string
	MetricsPath     string
	Params          map[string][]string
	Interval        string
	Timeout         string
	HonorLabels     *bool
	HonorTimestamps *bool
	SampleLimit     int
	TargetLimit     int
	LabelLimit      int
	LabelNameLen    int
	LabelValueLen   int
	BodySizeLimit   string
	Relabel         []Relabel
	MetricRelabel   []Relabel
	Auth            Auth
	SDs             []SD
	ProxyURL        string
	FollowRedirects *bool
}

// Remote is a remote write or read entry.
type Remote struct {
	URL           string
	Name          string
	Auth          Auth
	Timeout       string
	WriteRelabel  []Relabel // remote_write only
	ReadRecent    *bool     // remote_read only
	RequiredMatch map[string]string
}

// Alerting section.
type Alerting struct {
	Relabel  []Relabel
	Managers []AlertManager
}

// AlertManager entry.
type AlertManager struct {
	Scheme     string
	PathPrefix string
	Timeout    string
	Auth       Auth
	Targets    []string
}

// Spec is a whole configuration.
type Spec struct {
	// GlobalForm: "" (a global section with the settings below), "omitted" (no global section), "empty" (global: {})
	GlobalForm     string
	Interval       string
	Timeout        string
	EvalInterval   string
	ExternalLabels map[string]string
	RuleFiles      []string
	Alerting       *Alerting
	RemoteWrite    []Remote
	RemoteRead     []Remote
	Jobs           []Job
}

// Style selects one of several textually different, semantically equal renderings.
type Style struct {
	Indent     int  // 2 or 4
	Quote      int  // 0 plain where possible, 1 double, 2 single
	Comments   bool // sprinkle comments and blank lines
	ReverseKey bool // job-level map keys in another order
	FlowLists  bool // short string lists as [a, b]
}

type wr struct {
	sb    strings.Builder
	st    Style
	lines int
}

func (w *wr) line(depth int, format string, a ...interface{}) {
	ind := w.st.Indent
	if ind == 0 {
		ind = 2
	}
	w.sb.WriteString(strings.Repeat(" ", depth*ind))
	fmt.Fprintf(&w.sb, format, a...)
	w.sb.WriteByte('\n')
	w.lines++
	if w.st.Comments && w.lines%5 == 0 {
		w.sb.WriteString(strings.Repeat(" ", depth*ind))
		fmt.Fprintf(&w.sb, "# comment %d: nothing to see here\n\n", w.lines)
	}
}

// item renders "- key: value" list item starts: the dash replaces part of the indent.
func (w *wr) item(depth int, format string, a ...interface{}) {
	ind := w.st.Indent
	if ind == 0 {
		ind = 2
	}
	w.sb.WriteString(strings.Repeat(" ", depth*ind))
	w.sb.WriteString("- ")
	fmt.Fprintf(&w.sb, format, a...)
	w.sb.WriteByte('\n')
	w.lines++
}

// q quotes a scalar according to the style. Values that YAML would mis-type are always quoted.
func (w *wr) q(s string) string {
	needs := s == "" || strings.ContainsAny(s, ":#{}[],&*!|>'\"%@`\\$ ") || strings.HasPrefix(s, "-") ||
		s == "true" || s == "false" || s == "yes" || s == "no" || s == "null" || s == "~" || isNumber(s)
	switch {
	case w.st.Quote == 2 && !strings.Contains(s, "'") && !strings.Contains(s, "\\"):
		return "'" + s + "'"
	case w.st.Quote == 1 || needs:
		r := strings.NewReplacer(`\`, `\\`, `"`, `\"`, "\n", `\n`, "\t", `\t`)
		return `"` + r.Replace(s) + `"`
	}
	return s
}

func isNumber(s string) bool {
	if s == "" {
		return false
	}
	for _, c := range s {
		if !(c >= '0' && c <= '9') && c != '.' && c != '-' && c != '+' && c != 'e' && c != 'x' && c != '_' {
			return false
		}
	}
	return true
}

func (w *wr) strList(depth int, key string, vals []string) {
	if w.st.FlowLists && len(vals) <= 4 {
		var qs []string
		for _, v := range vals {
			qs = append(qs, (&wr{st: Style{Quote: 1}}).q(v))
		}
		w.line(depth, "%s: [%s]", key, strings.Join(qs, ", "))
		return
	}
	w.line(depth, "%s:", key)
	for _, v := range vals {
		w.item(depth, "%s", w.q(v))
	}
}

func sortedKeys(m map[string]string) []string {
	var ks []string
	for k := range m {
		ks = append(ks, k)
	}
	sort.Strings(ks)
	return ks
}

func (w *wr) relabels(depth int, key string, rs []Relabel) {
	if len(rs) == 0 {
		return
	}
	w.line(depth, "%s:", key)
	for _, r := range rs {
		first := true
		emit := func(format string, a ...interface{}) {
			if first {
				w.item(depth, format, a...)
				first = false
			} else {
				ind := w.st.Indent
				if ind == 0 {
					ind = 2
				}
				w.sb.WriteString(strings.Repeat(" ", depth*ind+2))
				fmt.Fprintf(&w.sb, format, a...)
				w.sb.WriteByte('\n')
			}
		}
		if len(r.Source) > 0 {
			var qs []string
			for _, v := range r.Source {
				qs = append(qs, (&wr{st: Style{Quote: 1}}).q(v))
			}
			emit("source_labels: [%s]", strings.Join(qs, ", "))
		}
		if r.Separator != "" {
			emit("separator: %s", w.q(r.Separator))
		}
		if r.Regex != "" {
			emit("regex: %s", w.q(r.Regex))
		}
		if r.Modulus != 0 {
			emit("modulus: %d", r.Modulus)
		}
		if r.Target != "" {
			emit("target_label: %s", w.q(r.Target))
		}
		if r.Replacement != "" || r.HasRepl {
			emit("replacement: %s", w.q(r.Replacement))
		}
		act := r.Action
		if act == "" {
			act = "replace"
		}
		emit("action: %s", act)
	}
}

func (w *wr) auth(depth int, a Auth) {
	switch a.Kind {
	case "basic", "basic+tls":
		w.line(depth, "basic_auth:")
		w.line(depth+1, "username: %s", w.q(a.User))
		w.line(depth+1, "password: %s", w.q(a.Secret))
	case "bearer":
		w.line(depth, "bearer_token: %s", w.q(a.Secret))
	case "authorization":
		w.line(depth, "authorization:")
		if a.Scheme != "" {
			w.line(depth+1, "type: %s", w.q(a.Scheme))
		}
		w.line(depth+1, "credentials: %s", w.q(a.Secret))
	case "satoken": // the in-cluster service-account token, as kubernetes jobs use it
		w.line(depth, "bearer_token_file: /var/run/secrets/kubernetes.io/serviceaccount/token")
	case "sacreds":
		w.line(depth, "authorization:")
		w.line(depth+1, "credentials_file: /var/run/secrets/kubernetes.io/serviceaccount/token")
	case "oauth2":
		w.line(depth, "oauth2:")
		w.line(depth+1, "client_id: %s", w.q(a.User))
		w.line(depth+1, "client_secret: %s", w.q(a.Secret))
		w.line(depth+1, "token_url: %s", w.q("https://auth.example/token"))
	}
	if a.Kind == "tls" || a.Kind == "basic+tls" {
		w.line(depth, "tls_config:")
		if a.TLSFiles {
			w.line(depth+1, "ca_file: /etc/ssl/ca-%s.pem", a.User)
			w.line(depth+1, "cert_file: /etc/ssl/cert-%s.pem", a.User)
			w.line(depth+1, "key_file: /etc/ssl/key-%s.pem", a.User)
		} else {
			w.line(depth+1, "server_name: %s", w.q("tls."+a.User+".example"))
			w.line(depth+1, "insecure_skip_verify: true")
		}
	}
}

func (w *wr) sd(depth int, s SD) {
	switch s.Kind {
	case "static":
		w.line(depth, "static_configs:")
		w.item(depth, "targets:")
		for _, t := range s.Targets {
			w.item(depth+1, "%s", w.q(t))
		}
		if len(s.Labels) > 0 {
			ind := w.st.Indent
			if ind == 0 {
				ind = 2
			}
			w.sb.WriteString(strings.Repeat(" ", depth*ind+2) + "labels:\n")
			for _, k := range sortedKeys(s.Labels) {
				w.sb.WriteString(strings.Repeat(" ", depth*ind+2+ind))
				fmt.Fprintf(&w.sb, "%s: %s\n", k, w.q(s.Labels[k]))
			}
		}
	case "file":
		w.line(depth, "file_sd_configs:")
		w.item(depth, "files:")
		w.item(depth+1, "%s", w.q(s.Option))
		if s.Refresh != "" {
			w.sb.WriteString(strings.Repeat(" ", depth*max(w.st.Indent, 2)+2) + "refresh_interval: " + s.Refresh + "\n")
		}
	case "kubernetes":
		w.line(depth, "kubernetes_sd_configs:")
		w.item(depth, "role: %s", s.Option)
		w.sb.WriteString(strings.Repeat(" ", depth*max(w.st.Indent, 2)+2) + "api_server: https://k8s.example:6443\n")
		if s.Refresh != "" {
			w.sb.WriteString(strings.Repeat(" ", depth*max(w.st.Indent, 2)+2) + "namespaces:\n")
			w.sb.WriteString(strings.Repeat(" ", depth*max(w.st.Indent, 2)+2+max(w.st.Indent, 2)) + "names: [" + s.Refresh + "]\n")
		}
		w.sdAuth(depth, s.Auth)
	case "dns":
		w.line(depth, "dns_sd_configs:")
		w.item(depth, "names:")
		w.item(depth+1, "%s", w.q(s.Option))
		w.sb.WriteString(strings.Repeat(" ", depth*max(w.st.Indent, 2)+2) + "type: A\n")
		w.sb.WriteString(strings.Repeat(" ", depth*max(w.st.Indent, 2)+2) + "port: 9100\n")
	case "http":
		w.line(depth, "http_sd_configs:")
		w.item(depth, "url: %s", w.q(s.Option))
		w.sdAuth(depth, s.Auth)
	}
}

// sdAuth renders the credentials of a discovery client as continuation lines of the list item.
func (w *wr) sdAuth(depth int, a Auth) {
	if a.Kind == "" || a.Kind == "none" {
		return
	}
	tmp := &wr{st: w.st}
	tmp.auth(0, a)
	pad := strings.Repeat(" ", depth*max(w.st.Indent, 2)+2)
	for _, ln := range strings.Split(strings.TrimRight(tmp.sb.String(), "\n"), "\n") {
		if ln != "" {
			w.sb.WriteString(pad + ln + "\n")
		}
	}
}

func max(a, b int) int {
	if a > b {
		return a
	}
	return b
}

func (w *wr) job(depth int, j Job) {
	w.item(depth, "job_name: %s", w.q(j.Name))
	d := depth + 1
	// With an indent of N, the continuation of a list item must align with the key after "- ":
	// we emit the remaining keys at column depth*indent + 2.
	base := &wr{st: w.st}
	emitters := []func(){
		func() {
			if j.Scheme != "" {
				base.line(0, "scheme: %s", j.Scheme)
			}
		},
		func() {
			if j.MetricsPath != "" {
				base.line(0, "metrics_path: %s", base.q(j.MetricsPath))
			}
		},
		func() {
			if len(j.Params) > 0 {
				base.line(0, "params:")
				var ks []string
				for k := range j.Params {
					ks = append(ks, k)
				}
				sort.Strings(ks)
				for _, k := range ks {
					base.strList(1, base.q(k), j.Params[k])
				}
			}
		},
		func() {
			if j.Interval != "" {
				base.line(0, "scrape_interval: %s", j.Interval)
			}
			if j.Timeout != "" {
				base.line(0, "scrape_timeout: %s", j.Timeout)
			}
		},
		func() {
			if j.HonorLabels != nil {
				base.line(0, "honor_labels: %v", *j.HonorLabels)
			}
			if j.HonorTimestamps != nil {
				base.line(0, "honor_timestamps: %v", *j.HonorTimestamps)
			}
		},
		func() {
			if j.SampleLimit != 0 {
				base.line(0, "sample_limit: %d", j.SampleLimit)
			}
			if j.TargetLimit != 0 {
				base.line(0, "target_limit: %d", j.TargetLimit)
			}
			if j.LabelLimit != 0 {
				base.line(0, "label_limit: %d", j.LabelLimit)
			}
			if j.LabelNameLen != 0 {
				base.line(0, "label_name_length_limit: %d", j.LabelNameLen)
			}
			if j.LabelValueLen != 0 {
				base.line(0, "label_value_length_limit: %d", j.LabelValueLen)
			}
			if j.BodySizeLimit != "" {
				base.line(0, "body_size_limit: %s", j.BodySizeLimit)
			}
		},
		func() {
			if j.ProxyURL != "" {
				base.line(0, "proxy_url: %s", base.q(j.ProxyURL))
			}
			if j.FollowRedirects != nil {
				base.line(0, "follow_redirects: %v", *j.FollowRedirects)
			}
		},
		func() { base.auth(0, j.Auth) },
		func() {
			// entries of the same kind share one key
			done := map[string]bool{}
			for _, s := range j.SDs {
				if done[s.Kind] {
					continue
				}
				done[s.Kind] = true
				first := true
				for _, s2 := range j.SDs {
					if s2.Kind != s.Kind {
						continue
					}
					if first {
						base.sd(0, s2)
						first = false
					} else {
						tmp := &wr{st: base.st}
						tmp.sd(0, s2)
						lines := strings.SplitN(tmp.sb.String(), "\n", 2)
						if len(lines) == 2 {
							base.sb.WriteString(lines[1])
						}
					}
				}
			}
		},
		func() { base.relabels(0, "relabel_configs", j.Relabel) },
		func() { base.relabels(0, "metric_relabel_configs", j.MetricRelabel) },
	}
	if w.st.ReverseKey {
		for i, k := 0, len(emitters)-1; i < k; i, k = i+1, k-1 {
			emitters[i], emitters[k] = emitters[k], emitters[i]
		}
	}
	for _, e := range emitters {
		e()
	}
	ind := max(w.st.Indent, 2)
	pad := strings.Repeat(" ", depth*ind+2)
	for _, ln := range strings.Split(strings.TrimRight(base.sb.String(), "\n"), "\n") {
		if ln == "" {
			w.sb.WriteByte('\n')
			continue
		}
		w.sb.WriteString(pad + ln + "\n")
	}
	_ = d
}

func (w *wr) remote(depth int, r Remote, write bool) {
	w.item(depth, "url: %s", w.q(r.URL))
	base := &wr{st: w.st}
	if r.Name != "" {
		base.line(0, "name: %s", base.q(r.Name))
	}
	if r.Timeout != "" {
		base.line(0, "remote_timeout: %s", r.Timeout)
	}
	base.auth(0, r.Auth)
	if write {
		base.relabels(0, "write_relabel_configs", r.WriteRelabel)
	} else {
		if r.ReadRecent != nil {
			base.line(0, "read_recent: %v", *r.ReadRecent)
		}
		if len(r.RequiredMatch) > 0 {
			base.line(0, "required_matchers:")
			for _, k := range sortedKeys(r.RequiredMatch) {
				base.line(1, "%s: %s", k, base.q(r.RequiredMatch[k]))
			}
		}
	}
	ind := max(w.st.Indent, 2)
	pad := strings.Repeat(" ", depth*ind+2)
	for _, ln := range strings.Split(strings.TrimRight(base.sb.String(), "\n"), "\n") {
		if ln == "" {
			continue
		}
		w.sb.WriteString(pad + ln + "\n")
	}
}

// Render produces the YAML text.
func Render(s *Spec, st Style) string {
	w := &wr{st: st}
	if st.Comments {
		w.sb.WriteString("# generated configuration\n---\n")
	}
	if s.GlobalForm == "omitted" {
		goto afterGlobal
	}
	if s.GlobalForm == "empty" {
		w.line(0, "global: {}")
		goto afterGlobal
	}
	w.line(0, "global:")
	if s.Interval != "" {
		w.line(1, "scrape_interval: %s", s.Interval)
	}
	if s.Timeout != "" {
		w.line(1, "scrape_timeout: %s", s.Timeout)
	}
	if s.EvalInterval != "" {
		w.line(1, "evaluation_interval: %s", s.EvalInterval)
	}
	if len(s.ExternalLabels) > 0 {
		w.line(1, "external_labels:")
		for _, k := range sortedKeys(s.ExternalLabels) {
			w.line(2, "%s: %s", k, w.q(s.ExternalLabels[k]))
		}
	}
	if s.Interval == "" && s.Timeout == "" && s.EvalInterval == "" && len(s.ExternalLabels) == 0 {
		w.line(1, "scrape_interval: 1m")
	}
afterGlobal:
	if len(s.RuleFiles) > 0 {
		w.strList(0, "rule_files", s.RuleFiles)
	}
	if s.Alerting != nil {
		w.line(0, "alerting:")
		w.relabels(1, "alert_relabel_configs", s.Alerting.Relabel)
		if len(s.Alerting.Managers) > 0 {
			w.line(1, "alertmanagers:")
			for _, am := range s.Alerting.Managers {
				sch := am.Scheme
				if sch == "" {
					sch = "http"
				}
				w.item(1, "scheme: %s", sch)
				base := &wr{st: w.st}
				if am.PathPrefix != "" {
					base.line(0, "path_prefix: %s", base.q(am.PathPrefix))
				}
				if am.Timeout != "" {
					base.line(0, "timeout: %s", am.Timeout)
				}
				base.auth(0, am.Auth)
				base.sd(0, SD{Kind: "static", Targets: am.Targets})
				pad := strings.Repeat(" ", 1*max(w.st.Indent, 2)+2)
				for _, ln := range strings.Split(strings.TrimRight(base.sb.String(), "\n"), "\n") {
					if ln != "" {
						w.sb.WriteString(pad + ln + "\n")
					}
				}
			}
		}
	}
	if len(s.RemoteWrite) > 0 {
		w.line(0, "remote_write:")
		for _, r := range s.RemoteWrite {
			w.remote(0, r, true)
		}
	}
	if len(s.RemoteRead) > 0 {
		w.line(0, "remote_read:")
		for _, r := range s.RemoteRead {
			w.remote(0, r, false)
		}
	}
	w.line(0, "scrape_configs:")
	for _, j := range s.Jobs {
		w.job(0, j)
	}
	return w.sb.String()
}

// ---------------------------------------------------------------------------
// random generation

var secretCounter = 0

// Secret returns a unique recognisable secret string (YAML-plain alphabet).
func Secret(r *core.Rng, tag string) string {
	return fmt.Sprintf("S3CR3T-%s-%08x", tag, r.Uint64()&0xffffffff)
}

func boolp(b bool) *bool { return &b }

// GenAuth draws credentials.
func GenAuth(r *core.Rng, tag string, kinds ...string) Auth {
	if len(kinds) == 0 {
		kinds = []string{"none", "none", "basic", "bearer", "authorization", "tls", "oauth2", "basic+tls"}
	}
	a := Auth{Kind: kinds[r.Intn(len(kinds))], User: "user" + tag}
	if a.Kind != "none" && a.Kind != "tls" {
		a.Secret = Secret(r, tag)
	}
	if a.Kind == "authorization" && r.Intn(2) == 0 {
		a.Scheme = r.PickS("Bearer", "Token")
	}
	return a
}

// GenRelabels draws a target relabel program that keeps targets scrapeable.
func GenRelabels(r *core.Rng, params map[string][]string) []Relabel {
	var out []Relabel
	n := r.Intn(5)
	for i := 0; i < n; i++ {
		switch r.Intn(12) {
		case 0:
			out = append(out, Relabel{Source: []string{"__address__"}, Target: "node", Regex: "([^:]+)(:\\d+)?", Replacement: "$1"})
		case 1:
			out = append(out, Relabel{Source: []string{"__meta_kubernetes_pod_name", "__meta_kubernetes_namespace"}, Separator: "/", Target: "pod"})
		case 2:
			out = append(out, Relabel{Regex: "__meta_kubernetes_pod_label_(.+)", Action: "labelmap"})
		case 3:
			out = append(out, Relabel{Source: []string{"__meta_kubernetes_pod_annotation_prometheus_io_scrape"}, Regex: "true|", Action: "keep"})
		case 4:
			out = append(out, Relabel{Source: []string{"env"}, Regex: "dev", Action: "drop"})
		case 5:
			out = append(out, Relabel{Source: []string{"__meta_kubernetes_pod_annotation_prometheus_io_path"}, Regex: "(.+)", Target: "__metrics_path__"})
		case 6:
			out = append(out, Relabel{Source: []string{"__meta_kubernetes_pod_annotation_prometheus_io_scheme"}, Regex: "(https?)", Target: "__scheme__"})
		case 7:
			out = append(out, Relabel{Source: []string{"__address__", "__meta_kubernetes_pod_annotation_prometheus_io_port"}, Regex: "([^:]+)(?::\\d+)?;(\\d+)", Replacement: "$1:$2", Target: "__address__"})
		case 8:
			k := "target"
			if len(params) > 0 && r.Intn(2) == 0 {
				var ks []string
				for p := range params {
					if !strings.ContainsAny(p, "[]") {
						ks = append(ks, p)
					}
				}
				sort.Strings(ks)
				if len(ks) > 0 {
					k = ks[r.Intn(len(ks))]
				}
			}
			out = append(out, Relabel{Source: []string{"__address__"}, Target: "__param_" + k})
		case 9:
			out = append(out, Relabel{Source: []string{"__address__"}, Modulus: 4, Target: "__tmp_hash", Action: "hashmod"})
		case 10:
			out = append(out, Relabel{Regex: "tmp_.*|secret_.*", Action: "labeldrop"})
		case 11:
			out = append(out, Relabel{Target: "cluster", Replacement: r.PickS("c1", "c2", "prod-eu")})
		}
	}
	return out
}

// GenMetricRelabels draws a metric relabel program.
func GenMetricRelabels(r *core.Rng) []Relabel {
	var out []Relabel
	n := r.Intn(3)
	for i := 0; i < n; i++ {
		switch r.Intn(4) {
		case 0:
			out = append(out, Relabel{Source: []string{"__name__"}, Regex: r.PickS("go_.*", "drop_.*", "(process|go)_.+"), Action: "drop"})
		case 1:
			out = append(out, Relabel{Regex: "tmp_.*", Action: "labeldrop"})
		case 2:
			out = append(out, Relabel{Source: []string{"code"}, Regex: "(.).*", Target: "code_class", Replacement: "${1}xx"})
		case 3:
			out = append(out, Relabel{Source: []string{"__name__", "le"}, Regex: ".+_bucket;.*", Action: "keep"})
		}
	}
	return out
}

// GenJob draws a job.
func GenJob(r *core.Rng, name string, scrapeable bool) Job {
	j := Job{Name: name}
	j.Scheme = r.PickS("", "", "http", "https")
	// paths are sent verbatim by Prometheus: empty, dot and trailing segments are part of the URL
	j.MetricsPath = r.PickS("", "", "/metrics", "/probe", "/federate", "/custom/path", "/actuator//prometheus", "/app/./metrics", "/a/../metrics", "/metrics/")
	if r.Intn(3) == 0 {
		j.Params = map[string][]string{}
		switch r.Intn(3) {
		case 0:
			j.Params["module"] = []string{r.PickS("http_2xx", "tcp_connect")}
		case 1:
			j.Params["match[]"] = []string{`{job="prometheus"}`, `{__name__=~"job:.*"}`}
		case 2:
			j.Params["module"] = []string{"icmp"}
			j.Params["debug"] = []string{"true", "1"}
		}
	}
	if r.Intn(3) == 0 {
		j.Interval, j.Timeout = r.PickS("15s", "30s", "1m"), r.PickS("5s", "10s", "15s")
	}
	if r.Intn(4) == 0 {
		j.HonorLabels = boolp(r.Intn(2) == 0)
	}
	if r.Intn(4) == 0 {
		j.HonorTimestamps = boolp(r.Intn(2) == 0)
	}
	if r.Intn(4) == 0 {
		j.SampleLimit = 1000 + r.Intn(5000)
	}
	if r.Intn(6) == 0 {
		j.TargetLimit = 10 + r.Intn(100)
	}
	if r.Intn(6) == 0 {
		j.LabelLimit, j.LabelNameLen, j.LabelValueLen = 30+r.Intn(30), 100+r.Intn(100), 200+r.Intn(200)
	}
	if r.Intn(6) == 0 {
		j.BodySizeLimit = r.PickS("10MB", "1GB", "512KB")
	}
	if r.Intn(8) == 0 {
		j.FollowRedirects = boolp(false)
	}
	if r.Intn(7) == 0 {
		j.ProxyURL = r.PickS("http://corp-proxy.example:3128", "http://10.1.2.3:8888")
	}
	j.Relabel = GenRelabels(r, j.Params)
	j.MetricRelabel = GenMetricRelabels(r)
	if scrapeable {
		j.Auth = GenAuth(r, name, "none", "none", "basic", "bearer", "authorization")
	} else {
		j.Auth = GenAuth(r, name)
		j.Auth.TLSFiles = r.Intn(2) == 0
	}
	switch r.Intn(6) {
	case 0:
		j.SDs = []SD{{Kind: "file", Option: r.PickS("/etc/prometheus/sd/", "sd/") + name + "/*.json", Refresh: r.PickS("", "1m")}}
	case 1:
		j.SDs = []SD{{Kind: "kubernetes", Option: r.PickS("pod", "endpoints", "node", "service"), Refresh: r.PickS("", "default", "kube-system, monitoring"),
			Auth: GenAuth(r, name+"sd", "none", "none", "basic", "bearer", "authorization")}}
	case 2:
		j.SDs = []SD{{Kind: "dns", Option: "_prom._tcp." + name + ".example"}}
	case 3:
		j.SDs = []SD{{Kind: "http", Option: "http://sd.example/" + name, Auth: GenAuth(r, name+"sd", "none", "basic", "authorization", "oauth2")}}
	default:
		j.SDs = []SD{{Kind: "static", Targets: []string{"a." + name + ".example:9100", "b." + name + ".example"}, Labels: map[string]string{"env": r.PickS("prod", "dev", "stage")}}}
		if r.Intn(3) == 0 {
			j.SDs = append(j.SDs, SD{Kind: "static", Targets: []string{"c." + name + ".example:9101"}})
		}
	}
	return j
}

// GenRemote draws a remote write/read entry.
func GenRemote(r *core.Rng, tag string, write bool) Remote {
	rm := Remote{URL: "https://remote-" + tag + ".example/api/v1/" + map[bool]string{true: "write", false: "read"}[write]}
	if r.Intn(2) == 0 {
		rm.Name = "remote-" + tag
	}
	if r.Intn(3) == 0 {
		rm.Timeout = r.PickS("30s", "1m")
	}
	rm.Auth = GenAuth(r, tag, "none", "basic", "bearer", "authorization", "basic", "bearer")
	if write && r.Intn(2) == 0 {
		rm.WriteRelabel = []Relabel{{Source: []string{"__name__"}, Regex: r.PickS("expensive_.*", "debug_.+"), Action: "drop"}}
	}
	if !write {
		if r.Intn(2) == 0 {
			rm.ReadRecent = boolp(true)
		}
		if r.Intn(3) == 0 {
			rm.RequiredMatch = map[string]string{"cluster": "c1"}
		}
	}
	return rm
}

// Gen draws a whole configuration.
func Gen(r *core.Rng, scrapeable bool) *Spec {
	s := &Spec{Interval: r.PickS("15s", "30s", "1m"), Timeout: r.PickS("", "10s"), EvalInterval: r.PickS("", "30s")}
	if r.Intn(2) == 0 {
		s.ExternalLabels = map[string]string{"cluster": r.PickS("c1", "c2"), "replica": fmt.Sprintf("r%d", r.Intn(3))}
	}
	if r.Intn(3) == 0 {
		s.RuleFiles = []string{"/etc/prometheus/rules/*.yml", "/etc/prometheus/alerts.yml"}[:1+r.Intn(2)]
		if r.Intn(2) == 0 {
			s.RuleFiles = append(s.RuleFiles, "rules/relative-*.yml") // relative to the configuration file, if there is one
		}
	}
	if r.Intn(2) == 0 {
		a := &Alerting{}
		if r.Intn(2) == 0 {
			a.Relabel = []Relabel{{Regex: "replica", Action: "labeldrop"}}
		}
		n := 1 + r.Intn(2)
		for i := 0; i < n; i++ {
			a.Managers = append(a.Managers, AlertManager{Scheme: r.PickS("", "https"), PathPrefix: r.PickS("", "/am"), Timeout: r.PickS("", "10s"),
				Auth: GenAuth(r, fmt.Sprintf("am%d", i), "none", "basic", "basic", "bearer", "authorization"), Targets: []string{fmt.Sprintf("am%d.example:9093", i)}})
		}
		s.Alerting = a
	}
	for i, n := 0, r.Intn(3); i < n; i++ {
		s.RemoteWrite = append(s.RemoteWrite, GenRemote(r, fmt.Sprintf("w%d", i), true))
	}
	for i, n := 0, r.Intn(3); i < n; i++ {
		s.RemoteRead = append(s.RemoteRead, GenRemote(r, fmt.Sprintf("r%d", i), false))
	}
	nj := 1 + r.Intn(4)
	for i := 0; i < nj; i++ {
		s.Jobs = append(s.Jobs, GenJob(r, fmt.Sprintf("job%d", i), scrapeable))
	}
	return s
}
