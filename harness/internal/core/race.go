package core

import (
	"os"
	"path/filepath"
	"sort"
	"strings"
)

// RaceReport is one de-duplicated race-detector report.
type RaceReport struct {
	Key    string   `json:"key"`
	StackA []string `json:"stack_a"` // function names, innermost first
	StackB []string `json:"stack_b"`
	Count  int      `json:"count"`
	Raw    string   `json:"raw"`
}

// Has reports whether any frame of either stack contains sub.
func (r RaceReport) Has(sub string) bool { return has(r.StackA, sub) || has(r.StackB, sub) }

// Sides reports whether one stack contains a and the other contains b.
func (r RaceReport) Sides(a, b string) bool {
	return (has(r.StackA, a) && has(r.StackB, b)) || (has(r.StackA, b) && has(r.StackB, a))
}

func has(st []string, sub string) bool {
	for _, f := range st {
		if strings.Contains(f, sub) {
			return true
		}
	}
	return false
}

// CollectRaceReports parses every race-* log under dir and de-duplicates by the pair of
// function-name stacks (line numbers stripped).
func CollectRaceReports(dir string) []RaceReport {
	files, _ := filepath.Glob(filepath.Join(dir, "race-*"))
	by := map[string]*RaceReport{}
	for _, f := range files {
		b, err := os.ReadFile(f)
		if err != nil {
			continue
		}
		for _, blk := range strings.Split(string(b), "==================") {
			if !strings.Contains(blk, "WARNING: DATA RACE") {
				continue
			}
			var stacks [][]string
			var cur []string
			in := false
			for _, ln := range strings.Split(blk, "\n") {
				t := strings.TrimSpace(ln)
				switch {
				case strings.HasPrefix(t, "Read at") || strings.HasPrefix(t, "Write at") ||
					strings.HasPrefix(t, "Previous read at") || strings.HasPrefix(t, "Previous write at") ||
					strings.HasPrefix(t, "Atomic") || strings.HasPrefix(t, "Previous atomic"):
					if in {
						stacks = append(stacks, cur)
					}
					cur, in = nil, true
				case strings.HasPrefix(t, "Goroutine "):
					if in {
						stacks = append(stacks, cur)
					}
					in = false
				case in && t != "" && !strings.HasPrefix(t, "/") && !strings.Contains(t, ".go:"):
					if i := strings.LastIndex(t, "("); i > 0 {
						t = t[:i]
					}
					cur = append(cur, t)
				}
			}
			if in {
				stacks = append(stacks, cur)
			}
			if len(stacks) < 2 {
				continue
			}
			a, bb := trimStack(stacks[0]), trimStack(stacks[1])
			ka, kb := strings.Join(top(a, 8), "<"), strings.Join(top(bb, 8), "<")
			if ka > kb {
				ka, kb = kb, ka
				a, bb = bb, a
			}
			key := ka + " || " + kb
			if r := by[key]; r != nil {
				r.Count++
				continue
			}
			by[key] = &RaceReport{Key: key, StackA: a, StackB: bb, Count: 1, Raw: clip(strings.TrimSpace(blk), 6000)}
		}
	}
	var out []RaceReport
	for _, r := range by {
		out = append(out, *r)
	}
	sort.Slice(out, func(i, j int) bool { return out[i].Key < out[j].Key })
	return out
}

func top(s []string, n int) []string {
	if len(s) > n {
		return s[:n]
	}
	return s
}

// trimStack cuts a stack at the harness' worker loop (the detector's restored stacks of the
// main goroutine repeat stale frames below it) and collapses immediate repetitions.
func trimStack(st []string) []string {
	var out []string
	for _, f := range st {
		if strings.Contains(f, "core.WorkerMain") || f == "main.main" {
			break
		}
		if len(out) > 0 && out[len(out)-1] == f {
			continue
		}
		out = append(out, f)
	}
	return out
}
