// Package core holds what every engine shares: the deterministic PRNG, the
// worker/parent protocol, evidence writing and the known-findings matcher.
package core

// Rng is a splitmix64 stream. Case lists are pure functions of
// (property, tier, seed, index); nothing here reads a clock.
type Rng struct{ s uint64 }

// NewRng derives a stream from several words.
func NewRng(words ...uint64) *Rng {
	r := &Rng{s: 0x9E3779B97F4A7C15}
	for _, w := range words {
		r.s ^= w + 0x9E3779B97F4A7C15 + (r.s << 6) + (r.s >> 2)
		r.Uint64()
	}
	return r
}

// HashString folds a string into a word (FNV-1a).
func HashString(s string) uint64 {
	h := uint64(14695981039346656037)
	for i := 0; i < len(s); i++ {
		h ^= uint64(s[i])
		h *= 1099511628211
	}
	return h
}

func (r *Rng) Uint64() uint64 {
	r.s += 0x9E3779B97F4A7C15
	z := r.s
	z = (z ^ (z >> 30)) * 0xBF58476D1CE4E5B9
	z = (z ^ (z >> 27)) * 0x94D049BB133111EB
	return z ^ (z >> 31)
}

// Intn returns a value in [0,n).
func (r *Rng) Intn(n int) int {
	if n <= 0 {
		return 0
	}
	return int(r.Uint64() % uint64(n))
}

// Int63 returns a non-negative int64.
func (r *Rng) Int63() int64 { return int64(r.Uint64() >> 1) }

// Bool returns true with probability num/den.
func (r *Rng) Chance(num, den int) bool { return r.Intn(den) < num }

// Pick64 picks one of the values.
func (r *Rng) Pick64(v ...int64) int64 { return v[r.Intn(len(v))] }

// PickS picks one of the strings.
func (r *Rng) PickS(v ...string) string { return v[r.Intn(len(v))] }

// PickI picks one of the ints.
func (r *Rng) PickI(v ...int) int { return v[r.Intn(len(v))] }

// Perm returns a permutation of 0..n-1.
func (r *Rng) Perm(n int) []int {
	p := make([]int, n)
	for i := range p {
		p[i] = i
	}
	for i := n - 1; i > 0; i-- {
		j := r.Intn(i + 1)
		p[i], p[j] = p[j], p[i]
	}
	return p
}

// sub-commands engines may register (grandchildren such as the RLIMIT crash child)
var subs = map[string]func(args []string) int{}

// RegisterSub registers an extra sub-command of the binary.
func RegisterSub(name string, f func(args []string) int) { subs[name] = f }

// LookupSub finds one.
func LookupSub(name string) func(args []string) int { return subs[name] }
