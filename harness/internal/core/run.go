package core

import (
	"bufio"
	"bytes"
	"encoding/json"
	"fmt"
	"os"
	"os/exec"
	"path/filepath"
	"runtime"
	"runtime/pprof"
	"sort"
	"strconv"
	"strings"
	"sync"
	"time"
)

// Violation is one oracle verdict "the property was broken in this execution".
// Sig names the failing class / call site; it is what known_findings.json matches on.
type Violation struct {
	Sig string `json:"sig"`
	Msg string `json:"msg"`
}

// CaseResult is what a worker reports for one case.
type CaseResult struct {
	Idx        int                 `json:"idx"`
	Sig        string              `json:"sig,omitempty"` // abstract signature of the case (distinctness)
	Nontrivial bool                `json:"nt,omitempty"`
	Execs      int                 `json:"execs,omitempty"` // executions judged in this case (default 1)
	Viol       []Violation         `json:"viol,omitempty"`
	Stats      map[string]int64    `json:"stats,omitempty"`
	Sample     interface{}         `json:"sample,omitempty"`
	Witness    interface{}         `json:"witness,omitempty"`
	Inconcl    string              `json:"inconcl,omitempty"`
	Sets       map[string][]string `json:"sets,omitempty"` // named sets of observed abstract states (unioned by the parent)
}

// AddStat bumps a counter.
func (c *CaseResult) AddStat(k string, n int64) {
	if c.Stats == nil {
		c.Stats = map[string]int64{}
	}
	c.Stats[k] += n
}

// AddSet records an element of a named set of observed things.
func (c *CaseResult) AddSet(k, v string) {
	if c.Sets == nil {
		c.Sets = map[string][]string{}
	}
	for _, x := range c.Sets[k] {
		if x == v {
			return
		}
	}
	c.Sets[k] = append(c.Sets[k], v)
}

// Violate appends a violation.
func (c *CaseResult) Violate(sig, format string, a ...interface{}) {
	c.Viol = append(c.Viol, Violation{Sig: sig, Msg: fmt.Sprintf(format, a...)})
}

// WorkerCtx is handed to Prop.Run.
type WorkerCtx struct {
	Tier    string
	Seed    uint64
	Scratch string // private directory of this worker, removed by the parent
	Self    string // path of the running binary (for grandchildren)
	Replay  bool
	Race    bool // running from the -race binary: the harness must not read unsynchronised kvass state itself
}

// Thorough is a shorthand.
func (w *WorkerCtx) Thorough() bool { return w.Tier == "thorough" }

// Prop is one registered property check.
type Prop struct {
	ID          string
	Level       string // exploration | fault_enumeration
	Rule        string
	Assumptions []string
	// NumCases is the length of the case list for a tier (pure function).
	NumCases func(tier string) int
	// Run executes case idx and judges it. Must be deterministic in (tier, seed, idx)
	// up to what the code under test does with map order and schedules.
	Run func(w *WorkerCtx, idx int) *CaseResult
	// Workers is the number of child processes (default 16).
	Workers int
	// CaseTimeout is the per-case watchdog (default 120 s).
	CaseTimeout time.Duration
	// CrashIsViolation: a case whose worker died or hung refutes the property
	// (used where the property itself says the operation completes without crashing).
	CrashIsViolation bool
	CrashSig         string
	// MinNontrivial: fewer distinct non-trivial cases than this is inconclusive.
	MinNontrivial int
	// Exhaustive reports whether the tier enumerates a finite space completely.
	Exhaustive func(tier string) bool
	// Race: run workers from the -race binary and collect reports.
	Race bool
	// RaceAttribute decides which de-duplicated reports count as violations of this property.
	RaceAttribute func(rep RaceReport) (sig string, counts bool)
	// RacePass lists case indexes that are executed once more from the -race binary (WorkerCtx.Race = true)
	// after the normal run; their race reports are collected and attributed like those of a Race prop.
	RacePass func(tier string) []int
	// Finalize may add evidence keys / inconclusive reasons once everything is aggregated.
	Finalize func(a *Agg)
	// Env adds environment variables for workers.
	Env []string
}

var registry = map[string]*Prop{}

// Register adds a property check.
func Register(p *Prop) { registry[p.ID] = p }

// Lookup finds one.
func Lookup(id string) *Prop { return registry[id] }

// IDs lists registered ids.
func IDs() []string {
	var r []string
	for k := range registry {
		r = append(r, k)
	}
	sort.Strings(r)
	return r
}

// ---------------------------------------------------------------------------
// worker side

type rec struct {
	B    *int        `json:"b,omitempty"`
	E    *CaseResult `json:"e,omitempty"`
	Hang *int        `json:"hang,omitempty"`
}

// WorkerMain runs cases from, from+step, ... < total and appends records to out.
func WorkerMain(p *Prop, w *WorkerCtx, from, step, total int, out string, list []int) int {
	f, err := os.OpenFile(out, os.O_CREATE|os.O_WRONLY|os.O_APPEND, 0644)
	if err != nil {
		fmt.Fprintln(os.Stderr, "worker: open out:", err)
		return 4
	}
	defer f.Close()
	bw := bufio.NewWriter(f)
	emit := func(r rec) {
		b, _ := json.Marshal(r)
		bw.Write(b)
		bw.WriteByte('\n')
		bw.Flush()
	}
	to := p.CaseTimeout
	if to == 0 {
		to = 120 * time.Second
	}
	var mu sync.Mutex
	cur := -1
	var started time.Time
	go func() {
		for {
			time.Sleep(500 * time.Millisecond)
			mu.Lock()
			c, st := cur, started
			mu.Unlock()
			if c >= 0 && time.Since(st) > to {
				mu.Lock()
				emit(rec{Hang: &c})
				mu.Unlock()
				fmt.Fprintf(os.Stderr, "WATCHDOG: case %d exceeded %v\n", c, to)
				pprof.Lookup("goroutine").WriteTo(os.Stderr, 1)
				os.Exit(3)
			}
		}
	}()
	var todo []int
	if len(list) > 0 {
		todo = list
	} else {
		for idx := from; idx < total; idx += step {
			todo = append(todo, idx)
		}
	}
	for _, idx := range todo {
		i := idx
		mu.Lock()
		emit(rec{B: &i})
		cur, started = i, time.Now()
		mu.Unlock()
		r := p.Run(w, i)
		mu.Lock()
		cur = -1
		r.Idx = i
		if len(r.Viol) == 0 {
			r.Witness = nil
		}
		emit(rec{E: r})
		mu.Unlock()
	}
	return 0
}

// ---------------------------------------------------------------------------
// parent side

// Agg is the aggregated outcome of a run.
type Agg struct {
	Prop        *Prop
	Tier        string
	Seed        uint64
	Evaluations int64
	Cases       int
	Sigs        map[string]bool
	Stats       map[string]int64
	Sets        map[string]map[string]bool
	Samples     []interface{}
	Viol        []foundViolation
	Inconcl     []string
	Crashes     []crash
	Extra       map[string]interface{}
	Race        []RaceReport
}

type foundViolation struct {
	Violation
	Idx     int
	Witness interface{}
}

type crash struct {
	Idx    int
	Kind   string // died | hang
	Stderr string
}

// KnownFinding is one entry of known_findings.json.
type KnownFinding struct {
	Property string `json:"property"`
	Sig      string `json:"sig"`
	Status   string `json:"status"` // open | fixed
	Commit   string `json:"commit,omitempty"`
	What     string `json:"what"`
}

func verifRoot() string {
	if v := os.Getenv("VERIF_ROOT"); v != "" {
		return v
	}
	return "/verif"
}

func loadKnown() []KnownFinding {
	b, err := os.ReadFile(filepath.Join(verifRoot(), "known_findings.json"))
	if err != nil {
		return nil
	}
	var k struct {
		Findings []KnownFinding `json:"findings"`
	}
	_ = json.Unmarshal(b, &k)
	return k.Findings
}

// ParentMain runs the whole check and returns the exit code.
func ParentMain(p *Prop, tier string, seed uint64, self, raceSelf string) int {
	t0 := time.Now()
	total := p.NumCases(tier)
	nw := p.Workers
	if nw == 0 {
		nw = runtime.NumCPU()
		if nw > 16 {
			nw = 16
		}
	}
	if nw > total {
		nw = total
	}
	if nw < 1 {
		nw = 1
	}
	scratch, err := os.MkdirTemp(scratchBase(), "vcheck-"+p.ID+"-")
	if err != nil {
		fmt.Println("INCONCLUSIVE property=" + p.ID + " reason=no-scratch-dir")
		return 2
	}
	defer os.RemoveAll(scratch)
	bin := self
	if p.Race {
		bin = raceSelf
	}
	agg := &Agg{Prop: p, Tier: tier, Seed: seed, Sigs: map[string]bool{}, Stats: map[string]int64{},
		Sets: map[string]map[string]bool{}, Extra: map[string]interface{}{}}
	var mu sync.Mutex
	var wg sync.WaitGroup
	for k := 0; k < nw; k++ {
		wg.Add(1)
		go func(k int) {
			defer wg.Done()
			from := k
			attempt := 0
			for from < total {
				attempt++
				out := filepath.Join(scratch, fmt.Sprintf("w%d-%d.jsonl", k, attempt))
				wdir := filepath.Join(scratch, fmt.Sprintf("w%d-%d.d", k, attempt))
				_ = os.MkdirAll(wdir, 0755)
				cmd := exec.Command(bin, "worker", "--prop", p.ID, "--tier", tier, "--seed", strconv.FormatUint(seed, 10),
					"--from", strconv.Itoa(from), "--step", strconv.Itoa(nw), "--total", strconv.Itoa(total),
					"--out", out, "--scratch", wdir)
				var stderr tailBuffer
				cmd.Stderr = &stderr
				cmd.Stdout = &stderr
				cmd.Env = append(os.Environ(), p.Env...)
				if p.Race {
					cmd.Env = append(cmd.Env, "GORACE=halt_on_error=0 exitcode=0 log_path="+filepath.Join(scratch, fmt.Sprintf("race-%d-%d", k, attempt)))
				}
				runErr := cmd.Run()
				last, open, hang := readRecords(out, agg, &mu)
				_ = os.RemoveAll(wdir)
				_ = os.Remove(out)
				if runErr == nil && !open {
					return
				}
				// the worker died inside case `last` (or before its first case)
				mu.Lock()
				kind := "died"
				if hang {
					kind = "hang"
				}
				if !open {
					// died outside a case: harness problem, not an observation
					agg.Inconcl = append(agg.Inconcl, fmt.Sprintf("worker %d exited abnormally outside a case: %v: %s", k, runErr, stderr.String()))
					mu.Unlock()
					return
				}
				agg.Crashes = append(agg.Crashes, crash{Idx: last, Kind: kind, Stderr: stderr.String()})
				mu.Unlock()
				from = last + nw
				if attempt > 200 {
					mu.Lock()
					agg.Inconcl = append(agg.Inconcl, "too many worker crashes")
					mu.Unlock()
					return
				}
			}
		}(k)
	}
	wg.Wait()
	if p.RacePass != nil {
		idxs := p.RacePass(tier)
		nrw := nw
		if nrw > len(idxs) {
			nrw = len(idxs)
		}
		var wg2 sync.WaitGroup
		for k := 0; k < nrw; k++ {
			var mine []string
			for i := k; i < len(idxs); i += nrw {
				mine = append(mine, strconv.Itoa(idxs[i]))
			}
			wg2.Add(1)
			go func(k int, mine []string) {
				defer wg2.Done()
				out := filepath.Join(scratch, fmt.Sprintf("r%d.jsonl", k))
				wdir := filepath.Join(scratch, fmt.Sprintf("r%d.d", k))
				_ = os.MkdirAll(wdir, 0755)
				cmd := exec.Command(raceSelf, "worker", "--prop", p.ID, "--tier", tier, "--seed", strconv.FormatUint(seed, 10),
					"--list", strings.Join(mine, ","), "--race", "--out", out, "--scratch", wdir)
				var stderr tailBuffer
				cmd.Stderr, cmd.Stdout = &stderr, &stderr
				cmd.Env = append(append(os.Environ(), p.Env...), "GORACE=halt_on_error=0 exitcode=0 log_path="+filepath.Join(scratch, fmt.Sprintf("race-p%d", k)))
				runErr := cmd.Run()
				last, open, hang := readRecords(out, agg, &mu)
				_ = os.RemoveAll(wdir)
				if runErr != nil || open {
					mu.Lock()
					kind := "died"
					if hang {
						kind = "hang"
					}
					if open {
						agg.Crashes = append(agg.Crashes, crash{Idx: last, Kind: kind + " (race pass)", Stderr: stderr.String()})
					} else {
						agg.Inconcl = append(agg.Inconcl, fmt.Sprintf("race-pass worker %d failed outside a case: %v: %s", k, runErr, firstLines(stderr.String(), 5)))
					}
					mu.Unlock()
				}
			}(k, mine)
		}
		wg2.Wait()
		agg.Stats["race_pass_cases"] += int64(len(idxs))
	}
	if p.Race || p.RacePass != nil {
		agg.Race = CollectRaceReports(scratch)
	}
	return finish(agg, t0)
}

type tailBuffer struct {
	mu  sync.Mutex
	buf []byte
}

func (t *tailBuffer) Write(b []byte) (int, error) {
	t.mu.Lock()
	defer t.mu.Unlock()
	t.buf = append(t.buf, b...)
	if len(t.buf) > 64<<10 {
		// keep head (panic message) and tail
		head := t.buf[:16<<10]
		tail := t.buf[len(t.buf)-(32<<10):]
		nb := append([]byte{}, head...)
		nb = append(nb, []byte("\n...[snip]...\n")...)
		nb = append(nb, tail...)
		t.buf = nb
	}
	return len(b), nil
}
func (t *tailBuffer) String() string {
	t.mu.Lock()
	defer t.mu.Unlock()
	return string(t.buf)
}

func readRecords(path string, agg *Agg, mu *sync.Mutex) (last int, open bool, hang bool) {
	f, err := os.Open(path)
	if err != nil {
		return -1, false, false
	}
	defer f.Close()
	sc := bufio.NewScanner(f)
	sc.Buffer(make([]byte, 1<<20), 256<<20)
	last = -1
	for sc.Scan() {
		var r rec
		if err := json.Unmarshal(sc.Bytes(), &r); err != nil {
			continue // torn last line of a killed worker
		}
		switch {
		case r.B != nil:
			last, open = *r.B, true
		case r.Hang != nil:
			hang = true
		case r.E != nil:
			open = false
			mu.Lock()
			agg.add(r.E)
			mu.Unlock()
		}
	}
	return
}

func (a *Agg) add(c *CaseResult) {
	a.Cases++
	if c.Execs > 0 {
		a.Evaluations += int64(c.Execs)
	} else {
		a.Evaluations++
	}
	if c.Nontrivial && c.Sig != "" {
		a.Sigs[c.Sig] = true
	}
	for k, v := range c.Stats {
		a.Stats[k] += v
	}
	for k, vs := range c.Sets {
		if a.Sets[k] == nil {
			a.Sets[k] = map[string]bool{}
		}
		for _, v := range vs {
			if len(a.Sets[k]) < 200000 {
				a.Sets[k][v] = true
			}
		}
	}
	if c.Sample != nil && len(a.Samples) < 64 {
		a.Samples = append(a.Samples, sampleAt{c.Idx, c.Sample})
	}
	for _, v := range c.Viol {
		a.Viol = append(a.Viol, foundViolation{v, c.Idx, c.Witness})
	}
	if c.Inconcl != "" {
		a.Inconcl = append(a.Inconcl, fmt.Sprintf("case %d: %s", c.Idx, c.Inconcl))
	}
}

type sampleAt struct {
	Idx int
	S   interface{}
}

func finish(a *Agg, t0 time.Time) int {
	p := a.Prop
	root := verifRoot()
	known := loadKnown()
	isKnown := func(sig string) *KnownFinding {
		for i := range known {
			if known[i].Property == p.ID && known[i].Status == "open" && known[i].Sig == sig {
				return &known[i]
			}
		}
		return nil
	}
	// crashes
	for _, c := range a.Crashes {
		if p.CrashIsViolation {
			sig := p.CrashSig
			if sig == "" {
				sig = p.ID + "/crash"
			}
			a.Viol = append(a.Viol, foundViolation{Violation{Sig: sig + "/" + c.Kind, Msg: "worker " + c.Kind + " while executing the case: " + firstLines(c.Stderr, 12)}, c.Idx,
				map[string]interface{}{"stderr": c.Stderr}})
		} else {
			a.Inconcl = append(a.Inconcl, fmt.Sprintf("worker %s in case %d: %s", c.Kind, c.Idx, firstLines(c.Stderr, 6)))
		}
	}
	// race reports
	raceAttributed, raceOther := 0, 0
	var unattributed []string
	for _, r := range a.Race {
		if p.RaceAttribute != nil {
			if sig, counts := p.RaceAttribute(r); counts {
				raceAttributed++
				a.Viol = append(a.Viol, foundViolation{Violation{Sig: sig, Msg: "data race: " + r.Key}, -1, r})
				continue
			}
		}
		raceOther++
		if len(unattributed) < 20 {
			unattributed = append(unattributed, r.Key)
		}
	}
	if p.Finalize != nil {
		p.Finalize(a)
	}
	sort.SliceStable(a.Viol, func(i, j int) bool { return a.Viol[i].Idx < a.Viol[j].Idx })
	// classify violations
	knownSeen := map[string]int{}
	newBySig := map[string][]foundViolation{}
	var newOrder []string
	for _, v := range a.Viol {
		if isKnown(v.Sig) != nil {
			knownSeen[v.Sig]++
			continue
		}
		if _, ok := newBySig[v.Sig]; !ok {
			newOrder = append(newOrder, v.Sig)
		}
		newBySig[v.Sig] = append(newBySig[v.Sig], v)
	}
	// every open known finding is announced (the defect is in the tree whether or not this seed hit it)
	for _, k := range known {
		if k.Property == p.ID && k.Status == "open" {
			fmt.Printf("KNOWN-FINDING: property=%s %s [sig=%s observed=%d]\n", p.ID, k.What, k.Sig, knownSeen[k.Sig])
		}
	}
	nNew := 0
	for _, sig := range newOrder {
		vs := newBySig[sig]
		nNew += len(vs)
		dir := filepath.Join(root, "replays", p.ID)
		_ = os.MkdirAll(dir, 0755)
		name := fmt.Sprintf("%s-seed%d-case%d-%s.json", a.Tier, a.Seed, vs[0].Idx, sanitize(sig))
		path := filepath.Join(dir, name)
		b, _ := json.MarshalIndent(map[string]interface{}{
			"property": p.ID, "tier": a.Tier, "seed": a.Seed, "idx": vs[0].Idx, "sig": sig,
			"msg": vs[0].Msg, "occurrences": len(vs), "witness": vs[0].Witness,
		}, "", " ")
		_ = os.WriteFile(path, b, 0644)
		fmt.Printf("VIOLATION property=%s replay=%s\n", p.ID, path)
		fmt.Printf("  sig=%s occurrences=%d first: %s\n", sig, len(vs), clip(vs[0].Msg, 600))
	}
	// vacuity
	if p.MinNontrivial > 0 && len(a.Sigs) < p.MinNontrivial {
		a.Inconcl = append(a.Inconcl, fmt.Sprintf("only %d distinct non-trivial cases (< %d)", len(a.Sigs), p.MinNontrivial))
	}
	// evidence
	sort.Slice(a.Samples, func(i, j int) bool {
		return a.Samples[i].(sampleAt).Idx < a.Samples[j].(sampleAt).Idx
	})
	var samples []interface{}
	for i, s := range a.Samples {
		if i >= 4 {
			break
		}
		samples = append(samples, s.(sampleAt).S)
	}
	if len(samples) == 0 {
		samples = []interface{}{"(no sample recorded)"}
	}
	cov := map[string]interface{}{
		"evaluations":         a.Evaluations,
		"cases":               a.Cases,
		"distinct_nontrivial": len(a.Sigs),
		"rule":                p.Rule,
		"samples":             samples,
		"observed":            a.Stats,
	}
	sets := map[string]int{}
	for k, v := range a.Sets {
		sets[k] = len(v)
	}
	if len(sets) > 0 {
		cov["distinct_observed"] = sets
		// numeric sets also report their largest element (e.g. the slowest convergence seen)
		maxima := map[string]int{}
		for k, v := range a.Sets {
			mx, all := 0, len(v) > 0
			for e := range v {
				n, err := strconv.Atoi(e)
				if err != nil {
					all = false
					break
				}
				if n > mx {
					mx = n
				}
			}
			if all {
				maxima[k] = mx
			}
		}
		if len(maxima) > 0 {
			cov["largest_observed"] = maxima
		}
	}
	if p.Exhaustive != nil && p.Exhaustive(a.Tier) {
		cov["exhaustive"] = true
	}
	if p.Race || p.RacePass != nil {
		if unattributed == nil {
			unattributed = []string{}
		}
		cov["race_reports_attributed"] = raceAttributed
		cov["race_reports_unattributed"] = raceOther
		cov["unattributed_race_reports"] = unattributed
	}
	if len(knownSeen) > 0 {
		cov["known_findings_observed"] = knownSeen
	}
	if len(a.Crashes) > 0 {
		cov["worker_crashes"] = len(a.Crashes)
	}
	if len(a.Inconcl) > 0 {
		cov["inconclusive_reasons"] = a.Inconcl
	}
	for k, v := range a.Extra {
		cov[k] = v
	}
	ev := map[string]interface{}{
		"property_id": p.ID, "tier": a.Tier, "seed": a.Seed, "level": p.Level,
		"coverage": cov, "assumptions": p.Assumptions,
		"wall_s": time.Since(t0).Seconds(), "violations": nNew,
	}
	_ = os.MkdirAll(filepath.Join(root, "evidence"), 0755)
	b, _ := json.MarshalIndent(ev, "", " ")
	_ = os.WriteFile(filepath.Join(root, "evidence", p.ID+".json"), b, 0644)

	fmt.Printf("%s tier=%s seed=%d cases=%d evaluations=%d distinct_nontrivial=%d violations=%d known=%d wall=%.1fs\n",
		p.ID, a.Tier, a.Seed, a.Cases, a.Evaluations, len(a.Sigs), nNew, len(knownSeen), time.Since(t0).Seconds())
	keys := make([]string, 0, len(a.Stats))
	for k := range a.Stats {
		keys = append(keys, k)
	}
	sort.Strings(keys)
	var sb strings.Builder
	for _, k := range keys {
		fmt.Fprintf(&sb, " %s=%d", k, a.Stats[k])
	}
	fmt.Println("  observed:" + sb.String())
	if nNew > 0 {
		return 1
	}
	if len(a.Inconcl) > 0 {
		for i, r := range a.Inconcl {
			if i >= 5 {
				break
			}
			fmt.Printf("INCONCLUSIVE property=%s reason=%s\n", p.ID, clip(r, 400))
		}
		return 2
	}
	return 0
}

func firstLines(s string, n int) string {
	lines := strings.Split(s, "\n")
	var keep []string
	for _, l := range lines {
		if strings.TrimSpace(l) == "" {
			continue
		}
		keep = append(keep, l)
		if len(keep) >= n {
			break
		}
	}
	return strings.Join(keep, " | ")
}

func clip(s string, n int) string {
	if len(s) > n {
		return s[:n] + "…"
	}
	return s
}

func sanitize(s string) string {
	var b bytes.Buffer
	for _, r := range s {
		if (r >= 'a' && r <= 'z') || (r >= 'A' && r <= 'Z') || (r >= '0' && r <= '9') || r == '-' || r == '_' {
			b.WriteRune(r)
		} else {
			b.WriteByte('_')
		}
	}
	if b.Len() > 60 {
		return b.String()[:60]
	}
	return b.String()
}

// ReplayMain re-executes the case named in a replay file.
func ReplayMain(path, self string) int {
	b, err := os.ReadFile(path)
	if err != nil {
		fmt.Println(err)
		return 2
	}
	var r struct {
		Property string `json:"property"`
		Tier     string `json:"tier"`
		Seed     uint64 `json:"seed"`
		Idx      int    `json:"idx"`
		Sig      string `json:"sig"`
		Msg      string `json:"msg"`
	}
	if err := json.Unmarshal(b, &r); err != nil {
		fmt.Println(err)
		return 2
	}
	p := Lookup(r.Property)
	if p == nil || r.Idx < 0 {
		fmt.Println("not replayable (race report or unknown property); recorded verdict:", r.Sig, r.Msg)
		return 2
	}
	fmt.Printf("recorded: property=%s sig=%s\n  %s\n", r.Property, r.Sig, r.Msg)
	scratch, _ := os.MkdirTemp("", "vreplay-")
	defer os.RemoveAll(scratch)
	w := &WorkerCtx{Tier: r.Tier, Seed: r.Seed, Scratch: scratch, Self: self, Replay: true}
	n, bad := 10, 0
	for i := 0; i < n; i++ {
		c := p.Run(w, r.Idx)
		hit := false
		for _, v := range c.Viol {
			if v.Sig == r.Sig {
				hit = true
			}
			if i == 0 {
				fmt.Printf("re-execution: sig=%s %s\n", v.Sig, clip(v.Msg, 800))
			}
		}
		if hit {
			bad++
			if bad == 1 && c.Witness != nil && os.Getenv("VERIF_REPLAY_WITNESS") != "" {
				b, _ := json.MarshalIndent(c.Witness, "", " ")
				fmt.Println(string(b))
			}
		}
	}
	fmt.Printf("re-executed case %d %d times: %d executions show the recorded violation\n", r.Idx, n, bad)
	if bad > 0 {
		return 1
	}
	return 0
}

// scratchBase prefers a memory file system (fsync-heavy sweeps), falling back to the default temp dir.
func scratchBase() string {
	if st, err := os.Stat("/dev/shm"); err == nil && st.IsDir() {
		if d, err := os.MkdirTemp("/dev/shm", "vprobe-"); err == nil {
			os.RemoveAll(d)
			return "/dev/shm"
		}
	}
	return ""
}
