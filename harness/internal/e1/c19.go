package e1

import (
	"encoding/json"
	"fmt"
	"os"
	"os/exec"
	"sort"
	"strings"

	"kvassverif/internal/core"
	"kvassverif/internal/e2"
	"kvassverif/internal/e6"
	"tkestack.io/kvass/pkg/target"
)

// canonical trace of what one replica's shards and manager received, cycle by cycle
func traceOf(o *Obs, rep, cycles int) []string {
	return traceOfAt(o, func(int) int { return rep }, cycles)
}

// traceOfAt: the replica's position in the listing may differ from cycle to cycle
func traceOfAt(o *Obs, repAt func(cycle int) int, cycles int) []string {
	out := make([]string, cycles)
	per := make([][]string, cycles)
	for _, e := range o.Events {
		if e.Cycle >= cycles || e.Rep != repAt(e.Cycle) {
			continue
		}
		var s string
		switch e.Kind {
		case "SCALE":
			s = fmt.Sprintf("SCALE %d", e.Arg)
		case "SHARDS":
			s = fmt.Sprintf("SHARDS ok=%v", e.OK)
		case "GET":
			s = fmt.Sprintf("GET s%d %s", e.Shard, e.Path)
		case "POST":
			body := string(e.Body)
			if strings.HasSuffix(e.Path, "/shard/targets/") {
				var req struct {
					Targets map[string][]*target.Target
				}
				_ = json.Unmarshal(e.Body, &req)
				var l []string
				for j, ts := range req.Targets {
					for _, t := range ts {
						l = append(l, fmt.Sprintf("%s/%d/%q/series=%d", j, t.Hash, t.TargetState, t.Series))
					}
				}
				sort.Strings(l)
				body = strings.Join(l, ",")
			}
			s = fmt.Sprintf("POST s%d %s {%s}", e.Shard, e.Path, body)
		}
		per[e.Cycle] = append(per[e.Cycle], s)
	}
	for i := range per {
		sort.Strings(per[i])
		out[i] = strings.Join(per[i], " | ")
	}
	return out
}

type c19Scenario struct {
	Name    string            `json:"name"`
	Opt     Opt               `json:"opt"`
	Active  []ActiveT         `json:"active"`
	Explore map[uint64]*TStat `json:"explore"`
	V       []Replica         `json:"victim"`  // per cycle
	H       []Replica         `json:"hostile"` // per cycle
}

func (s *c19Scenario) build(order string) *Case {
	c := &Case{Opt: s.Opt, Active: s.Active, Explore: s.Explore}
	for k := range s.V {
		switch order {
		case "V":
			c.Cycles = append(c.Cycles, []Replica{s.V[k]})
		case "HV":
			if s.H[k].Absent {
				c.Cycles = append(c.Cycles, []Replica{s.V[k]})
			} else {
				c.Cycles = append(c.Cycles, []Replica{s.H[k], s.V[k]})
			}
		case "VH":
			if s.H[k].Absent {
				c.Cycles = append(c.Cycles, []Replica{s.V[k]})
			} else {
				c.Cycles = append(c.Cycles, []Replica{s.V[k], s.H[k]})
			}
		}
	}
	c.fixIdle()
	return c
}

// directed: the victim cannot place target 1 in cycle 0 (its only shard is full) and can in cycle 1;
// the hostile replica holds target 1 in some other shape.
func c19Directed(idx int) *c19Scenario {
	rad := []int{2, 3, 3, 2, 3, 2}
	d := digits(idx, rad...)
	hState := []string{"", "in_transfer"}[d[0]]
	hSeries := []int64{40, 50, 60}[d[1]]
	hHealth := []string{"up", "down", "unknown"}[d[2]]
	s := &c19Scenario{Name: "C19-directed", Opt: Opt{MaxHead: 100, MaxProc: 1000, Min: 0, Max: 99, IdleMin: 30 * d[3]},
		Active:  []ActiveT{{1, "job"}, {3, "job"}},
		Explore: map[uint64]*TStat{1: {Health: "up", Series: 50, Total: 50}, 3: {Health: "up", Series: 5, Total: 5}}}
	// the victim's only shard is full of stale head series in the early cycles, so target 1 cannot be placed
	full := okShard().with(3, up(5, 5, 5))
	full.HeadExtra = 70
	freed := okShard().with(3, up(5, 5, 5))
	hs := okShard().with(1, TStat{State: hState, Health: hHealth, Times: 5, Series: hSeries, Total: hSeries})
	if hHealth == "unknown" {
		t := hs.Report[1]
		t.Times = 0
		hs.Report[1] = t
	}
	nC := 4
	for k := 0; k < nC; k++ {
		v := Replica{Shards: []ShardScript{full}}
		if k >= 1+d[5] {
			v = Replica{Shards: []ShardScript{freed}}
		}
		h := Replica{Shards: []ShardScript{hs}}
		switch d[4] {
		case 1:
			if k == 2 {
				h.ShardsErr = true
			}
		case 2:
			if k == 0 {
				h.ScaleErrAt = []int{0, 1}
			}
		}
		s.V = append(s.V, v)
		s.H = append(s.H, h)
	}
	return s
}

// orderIndependent is a conservative structural test: with these scripts the victim's decisions cannot
// depend on map-iteration order (sampling repetitions alone is not enough: an alternative outcome can
// have a probability of ~1 %). Conditions per cycle: first-fit mode; at most one unscraped target that the
// explorer calls healthy; a shard over a relief threshold reports at most one target; every shard but
// the first reports at most one target (scale-down empties shards one target at a time).
func orderIndependent(s *c19Scenario) bool {
	if s.Opt.IdleMin == 0 {
		return false
	}
	for _, rep := range s.V {
		held := map[uint64]bool{}
		for i, sh := range rep.Shards {
			if sh.Ready && sh.StatusOK {
				for h := range sh.Report {
					held[h] = true
				}
			}
			var head, proc int64
			for _, t := range sh.Report {
				head += t.Series
				proc += t.Total
			}
			head += sh.HeadExtra
			over := proc >= s.Opt.MaxProc || (s.Opt.MaxHead != 0 && float64(head) >= float64(s.Opt.MaxHead)*1.1-1)
			if over && len(sh.Report) > 1 {
				return false
			}
			if i > 0 && len(sh.Report) > 1 {
				return false
			}
		}
		floating := 0
		for _, a := range s.Active {
			e := s.Explore[a.Hash]
			if !held[a.Hash] && e != nil && e.Health == "up" {
				floating++
			}
		}
		if floating > 1 {
			return false
		}
	}
	return true
}

func c19Random(r *core.Rng) *c19Scenario {
	for try := 0; try < 200; try++ {
		if s := c19RandomOnce(r); orderIndependent(s) {
			return s
		}
	}
	return c19Directed(r.Intn(c19NDirected))
}

func c19RandomOnce(r *core.Rng) *c19Scenario {
	base := genRandom(r, genBias{unhealthyPer12: 2, maxShards: 3})
	base.Opt.IdleMin = 30 // first-fit: the weighted random choice would make the victim's own outcome random
	s := &c19Scenario{Name: "C19-random", Opt: base.Opt, Active: base.Active, Explore: base.Explore}
	nC := 4 + r.Intn(2)
	nV := len(base.Cycles[0][0].Shards)
	var univ []uint64
	for h := range base.Explore {
		univ = append(univ, h)
	}
	sort.Slice(univ, func(i, j int) bool { return univ[i] < univ[j] })
	for k := 0; k < nC; k++ {
		// victim: fresh random reports each cycle over the same number of shards
		g := genRandom(r, genBias{unhealthyPer12: 2, maxShards: nV})
		var vs []ShardScript
		for i := 0; i < nV; i++ {
			if i < len(g.Cycles[0][0].Shards) {
				vs = append(vs, g.Cycles[0][0].Shards[i])
			} else {
				vs = append(vs, okShard().idle("fresh"))
			}
		}
		s.V = append(s.V, Replica{Shards: vs})
		// hostile replica
		h := Replica{}
		nH := 1 + r.Intn(3)
		for i := 0; i < nH; i++ {
			sh := okShard()
			for j, n := 0, r.Intn(4); j < n && len(univ) > 0; j++ {
				hh := univ[r.Intn(len(univ))]
				big := sizes[r.Intn(len(sizes))] + 50
				st := TStat{State: r.PickS("", "in_transfer", "in_transfer"), Health: r.PickS("up", "up", "down"), Times: uint64(r.Pick64(0, 3, 10)), Series: big, Total: big + r.Pick64(0, 40)}
				sh.Report[hh] = st
			}
			switch r.Intn(8) {
			case 0:
				sh.Ready = false
			case 1:
				sh.HashMode = "pushdiffer"
			case 2:
				sh.StatusOK = false
			case 3, 4:
				// the sidecar answers its status but not its runtime info (its Prometheus is down)
				sh.RuntimeOK = false
			case 5:
				// in sync, but it refuses the target update (or the extra-config update) of this cycle
				if r.Intn(2) == 0 {
					sh.PostOK = false
				} else {
					sh.ExtraOK = false
				}
			}
			h.Shards = append(h.Shards, sh)
		}
		switch r.Intn(10) {
		case 8, 9:
			if k > 0 {
				h.Absent = true
			}
		case 0:
			h.ShardsErr = true
		case 1:
			h.ScaleErrAt = []int{0}
		case 2:
			h.ScaleErrAt = []int{0, 1}
		case 3:
			for i := range h.Shards {
				h.Shards[i].Ready = false
			}
		}
		s.H = append(s.H, h)
	}
	return s
}

const c19NDirected = 2 * 3 * 3 * 2 * 3 * 2

func c19Base(tier string) int {
	if tier == "thorough" {
		return c19NDirected + 150000
	}
	return c19NDirected + 4000
}

func c19FdCases(tier string) int {
	if tier == "thorough" {
		return 8
	}
	return 2
}

// runC19Fd: replica B in a closed loop (real api.Get/api.Post over loopback) next to a replica whose shard answers
// 503 with an error body, for 150-400 cycles in a child process whose descriptor limit is what was open after a
// warm-up plus 30-60; control run: the same without the broken replica. B must be coordinated to the end.
func runC19Fd(w *core.WorkerCtx, k int) *core.CaseResult {
	res := &core.CaseResult{Sig: fmt.Sprintf("fd-soak/%d", k), Execs: 1}
	cycles, slack := 150+50*(k%6), []int{40, 60, 30}[k%3]
	run := func(broken bool) (*e2.FdSoakResult, string) {
		root := e2.ScratchRoot(w.Scratch, 400000+2*k+map[bool]int{false: 0, true: 1}[broken])
		defer os.RemoveAll(root)
		cmd := exec.Command(w.Self, "c19fd", "--root", root, "--cycles", fmt.Sprint(cycles), "--slack", fmt.Sprint(slack), "--broken="+fmt.Sprint(broken), "--seed", fmt.Sprint(int64(w.Seed)+int64(k)))
		var stderr strings.Builder
		cmd.Stderr = &stderr
		b, err := cmd.Output()
		if err != nil {
			return nil, fmt.Sprintf("child: %v: %s", err, tail(stderr.String(), 300))
		}
		var out e2.FdSoakResult
		lines := strings.Split(strings.TrimSpace(string(b)), "\n")
		if err := json.Unmarshal([]byte(lines[len(lines)-1]), &out); err != nil {
			return nil, "child output: " + err.Error()
		}
		if out.SetupErr != "" {
			return nil, out.SetupErr
		}
		return &out, ""
	}
	bad := func(o *e2.FdSoakResult) string {
		switch {
		case len(o.CycleErrs) > 0 && o.Exhausted != "":
			return "the coordinator's process ran out of descriptors (" + o.Exhausted + ") and then " + strings.Join(o.CycleErrs, "; ")
		case len(o.CycleErrs) > 0:
			return "?" + strings.Join(o.CycleErrs, "; ")
		case !o.LateTargetHeld:
			return "a target discovered 12 cycles before the end was never given to a shard of the healthy replica (" + o.Listed + ")"
		}
		return ""
	}
	ctl, msg := run(false)
	if msg != "" {
		res.Inconcl = "control run: " + msg
		return res
	}
	if why := bad(ctl); why != "" {
		res.Inconcl = "control run (no broken replica) under the same descriptor limit: " + why
		return res
	}
	got, msg := run(true)
	if msg != "" {
		res.Inconcl = "run next to the broken replica: " + msg
		return res
	}
	res.Nontrivial = got.BrokenHits >= cycles
	res.AddStat("fd_soak_runs", 1)
	res.AddStat("fd_soak_cycles", int64(cycles))
	res.AddStat("fd_soak_requests_answered_503_by_the_other_replica", int64(got.BrokenHits))
	res.AddSet("fd_soak_descriptor_growth_next_to_broken_replica", fmt.Sprint(got.FdMax-got.FdAfterWarmup))
	if why := bad(got); strings.HasPrefix(why, "?") {
		// a cycle that does not complete while descriptors are available: the watchdog alone is no verdict
		res.Inconcl = "run next to the broken replica: " + why[1:]
		return res
	} else if why != "" {
		res.Violate("C19/fd-soak/healthy-replica-starved", "%d cycles, descriptor limit = open after warm-up (%d) + %d; next to a replica whose shard answers 503 with an error body (%d such answers): %s; descriptors open at the end %d (highest %d); the control run without that replica was coordinated to the end with at most %d descriptors", cycles, got.FdAfterWarmup, slack, got.BrokenHits, why, got.FdEnd, got.FdMax, ctl.FdMax)
		res.Witness = map[string]interface{}{"next_to_broken_replica": got, "control": ctl}
	}
	if k == 0 {
		res.Sample = map[string]interface{}{"next_to_broken_replica": got, "control": ctl}
	}
	return res
}

func tail(s string, n int) string {
	if len(s) > n {
		return s[len(s)-n:]
	}
	return s
}

func runC19(w *core.WorkerCtx, idx int) *core.CaseResult {
	if base := c19Base(w.Tier); idx >= base {
		if k := idx - base; k >= e6.K8sReplicaCases(w.Tier) {
			return runC19Fd(w, k-e6.K8sReplicaCases(w.Tier))
		}
		return e6.RunC19K8s(w, idx-base)
	}
	var s *c19Scenario
	if idx < c19NDirected {
		s = c19Directed(idx)
	} else {
		s = c19Random(core.NewRng(w.Seed, 0xC19, uint64(idx)))
	}
	res := &core.CaseResult{}
	nC := len(s.V)
	cv := s.build("V")
	res.Sig = cv.signature() + fmt.Sprintf("/%x", core.HashString(fmt.Sprint(s.H))&0xffff)
	seedOf := func(k int) int64 { return int64(core.NewRng(w.Seed, uint64(idx), uint64(k)).Int63()) }
	// reference: the victim alone; it must be order independent by itself, else the case decides nothing
	var ref []string
	aloneDiffers := func(from, n int) (bool, string) {
		for k := from; k < from+n; k++ {
			o := Exec(cv, seedOf(100+k))
			res.Execs++
			if o.Panic != "" {
				return true, "victim-alone run did not complete (judged by C01): " + o.Panic
			}
			t := traceOf(o, 0, nC)
			if ref == nil {
				ref = t
			} else if strings.Join(ref, "\n") != strings.Join(t, "\n") {
				return true, ""
			}
		}
		return false, ""
	}
	// aloneAgain repeats the victim alone and tells how the outcomes relate to the reference taken
	// BEFORE the other replica was ever coordinated in this case: "same" (all equal to it), "shifted"
	// (all equal to each other but not to it: an outcome with a probability of a few percent cannot
	// show up n times out of n, so something the other replica left behind changed the victim's
	// behaviour) or "mixed" (the victim's own outcome is not unique: the case decides nothing).
	var shiftedTrace []string
	aloneAgain := func(from, n int) string {
		same, first, uniform := 0, "", true
		for k := from; k < from+n; k++ {
			o := Exec(cv, seedOf(100+k))
			res.Execs++
			if o.Panic != "" {
				return "mixed"
			}
			tr := traceOf(o, 0, nC)
			t := strings.Join(tr, "\n")
			if t == strings.Join(ref, "\n") {
				same++
			}
			if k == from {
				first, shiftedTrace = t, tr
			} else if t != first {
				uniform = false
			}
		}
		switch {
		case same == n:
			return "same"
		case same == 0 && uniform:
			return "shifted"
		}
		return "mixed"
	}
	leak := func(order string) {
		res.Violate("C19/state-leaks-between-replicas", "after the other replica had been coordinated (%s) the replica ALONE behaves differently than before, identically in 100 of 100 repetitions.\n alone before: %s\n alone after:  %s", order, strings.Join(ref, " || "), strings.Join(shiftedTrace, " || "))
		res.Witness = map[string]interface{}{"scenario": s, "order": order, "alone_before": ref, "alone_after": shiftedTrace}
	}
	// map iteration starts at one of 8 offsets; 30 repetitions miss an alternative outcome with probability < 2 %,
	// and a mismatch is only reported after 100 further repetitions of the victim alone (see below)
	if diff, why := aloneDiffers(0, 30); diff {
		if why != "" {
			res.Inconcl = why
		} else {
			res.AddStat("cases_discarded_order_dependent", 1)
		}
		return res
	}
	res.Nontrivial = true
	res.AddStat("cases_compared", 1)
	hostile := map[string]bool{}
	for _, rep := range s.H {
		if rep.Absent {
			hostile["absent-from-the-listing-in-some-cycles"] = true
		}
		for _, sh := range rep.Shards {
			if sh.Ready && sh.StatusOK && !sh.RuntimeOK {
				hostile["shard-answers-status-but-not-runtimeinfo"] = true
			}
			if !sh.PostOK || !sh.ExtraOK {
				hostile["in-sync-shard-refuses-an-update"] = true
			}
		}
	}
	for _, h := range s.H {
		if h.ShardsErr {
			hostile["shards-listing-fails"] = true
		}
		if len(h.ScaleErrAt) > 0 {
			hostile["scaling-fails"] = true
		}
		un := len(h.Shards) > 0
		for _, sh := range h.Shards {
			if sh.Ready {
				un = false
			}
			for _, t := range sh.Report {
				if t.State == "in_transfer" {
					hostile["other-placement-in-transfer"] = true
				}
			}
		}
		if un {
			hostile["entirely-unready"] = true
		}
	}
	for k := range hostile {
		res.AddSet("hostile_replica_kinds", k)
	}
	for _, order := range []string{"VH", "HV"} {
		c := s.build(order)
		vrep := 0
		if order == "HV" {
			vrep = 1
		}
		for k := 0; k < 3; k++ {
			o := Exec(c, seedOf(10+k))
			res.Execs++
			if o.Panic != "" {
				res.Violate("C19/cycle-did-not-complete", "with the other replica present (%s) the cycle did not complete: %s", order, o.Panic)
				res.Witness = map[string]interface{}{"scenario": s, "order": order}
				return res
			}
			t := traceOfAt(o, func(cyc int) int {
				if cyc < len(s.H) && s.H[cyc].Absent {
					return 0 // the victim is the only replica listed in this cycle
				}
				return vrep
			}, nC)
			for cyc := 0; cyc < nC; cyc++ {
				if t[cyc] != ref[cyc] {
					switch aloneAgain(1000, 100) {
					case "mixed":
						// the victim's own outcome is not unique after all: the case decides nothing
						res.AddStat("cases_discarded_order_dependent_late", 1)
						res.Nontrivial = false
						res.Viol = nil
						return res
					case "shifted":
						leak(order)
						return res
					}
					kind := "requests-differ"
					if strings.Contains(ref[cyc], "POST") && !strings.Contains(t[cyc], "POST") {
						kind = "replica-not-coordinated"
					}
					res.Violate("C19/"+kind+"/"+order, "cycle %d, replica order %s: what the replica's shards receive depends on the other replica.\n alone:   %s\n with it: %s", cyc, order, ref[cyc], t[cyc])
					if res.Witness == nil {
						res.Witness = map[string]interface{}{"scenario": s, "order": order, "cycle": cyc, "alone": ref, "with_other": t}
					}
					break
				}
			}
			res.AddStat("cycles_compared", int64(nC))
		}
	}
	// the victim alone once more, after the other replica has been coordinated next to it
	if len(res.Viol) == 0 && aloneAgain(2000, 3) == "shifted" && aloneAgain(2100, 100) == "shifted" {
		leak("VH,HV")
	}
	res.AddStat("alone_again_after_the_other_replica", 3)
	res.Viol = dedupe(res.Viol)
	if idx < 1 || idx == c19NDirected {
		res.Sample = map[string]interface{}{"scenario": s, "victim_alone_trace": ref}
	}
	return res
}

func init() {
	core.Register(&core.Prop{
		ID:    "C19",
		Level: "exploration",
		Rule: "differential over the stub-cycle engine: scenario = options + discovery + explorer table + a victim replica scripted for 4-5 cycles + a hostile replica (shard listing fails, scaling fails early/late, entirely unready, out of sync, shards that answer their status but not their runtime info, in-sync shards that refuse the target or extra-config update, a replica that is missing from the listing in some cycles (so that the victim changes its position), a different placement of the same targets incl. in-transfer copies with larger series than the explorer's estimate); " +
			"the victim is run alone (4 repetitions; victim scripts are generated under structural conditions that make its decisions independent of map order (first-fit mode, at most one unscraped healthy target per cycle, overloaded or non-first shards report at most one target); cases that still show more than one outcome in 30 repetitions are discarded and counted) and next to the hostile replica in both orders (3 repetitions each) through the real Coordinator.Run; the canonical per-cycle trace of everything the victim's shards and manager receive (GET/POST with target lists as sets, ChangeScale arguments) must be identical; a mismatch is re-examined with 100 repetitions of the victim alone: mixed outcomes discard the case, 100 of 100 equal to each other but different from before are reported as state leaking between replicas, and the victim alone is repeated after every case for the same test; " +
			"plus the Kubernetes replicas manager on a fake clientset: the scripted life of one StatefulSet (ready / not ready / rolling update over 4-11 cycles, 0-130 s passing between cycles through the verif hook that shifts the manager's not-ready timers) is run alone and next to a second scripted StatefulSet listed before or after it; 'handed to the coordinator in this cycle' must be identical; " +
			"plus a soak family (2/8): the healthy replica in an E2 closed loop (real api.Get/api.Post over loopback) next to a replica whose only shard answers 503 with an error body, 150-400 cycles in a child process whose RLIMIT_NOFILE is the number of descriptors open after a warm-up plus 30-60, and a control run without that replica; violation = a cycle does not complete AND the process can open fewer than 4 further descriptors, or a target discovered 12 cycles before the end is never assigned; " +
			"directed family: a target the victim cannot place in an early cycle and can place later while the other replica holds it in every state/series/health combination; non-trivial = case not discarded; distinct = victim script hash + hostile script hash",
		Assumptions: []string{
			"the explorer stub hands out one status object per target for the whole run, as Explore.Get does",
			"per-replica guarantees themselves are judged by C01-C08 on single replicas; C19 judges independence",
		},
		NumCases:      func(tier string) int { return c19Base(tier) + e6.K8sReplicaCases(tier) + c19FdCases(tier) },
		Run:           runC19,
		MinNontrivial: 200,
	})
}
