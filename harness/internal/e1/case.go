// Package e1 is the stub-cycle engine: the real coordinator.Coordinator and real
// shard.Shard objects run coordination cycles against scripted sidecar answers; every
// APIGet / APIPost / ChangeScale call is recorded and judged by oracles that are pure
// functions of (script, recorded events).
package e1

import (
	"fmt"
	"sort"
	"strings"

	"kvassverif/internal/core"
)

// TStat is one entry of a scripted /targets/status/ report or of the explorer table.
type TStat struct {
	State  string `json:"state"`  // "" | in_transfer
	Health string `json:"health"` // unknown | up | down
	Times  uint64 `json:"times"`
	Series int64  `json:"series"`
	Total  int64  `json:"total"`
}

// ShardScript scripts one sidecar for one cycle.
type ShardScript struct {
	Ready     bool             `json:"ready"`
	StatusOK  bool             `json:"statusOK"`
	RuntimeOK bool             `json:"runtimeOK"`
	HashMode  string           `json:"hashMode"` // match | pushmatch | pushdiffer | pushreject | push2fail
	Report    map[uint64]TStat `json:"report"`
	HeadExtra int64            `json:"headExtra"` // stale head series above the sum of the targets
	IdleKind  string           `json:"idleKind"`  // "" | fresh | expired  (only if Report is empty)
	PostOK    bool             `json:"postOK"`
	ExtraOK   bool             `json:"extraOK"`
}

// Replica scripts one StatefulSet for one cycle.
type Replica struct {
	// Absent (hostile replica of C19 only): the replicas manager does not list this replica in this cycle (a rolling
	// update in progress, not ready yet, deleted): the other replica moves to another position in the list
	Absent     bool          `json:"absent,omitempty"`
	ShardsErr  bool          `json:"shardsErr,omitempty"`
	ScaleErrAt []int         `json:"scaleErrAt,omitempty"` // indexes of ChangeScale calls (0,1) that fail
	Shards     []ShardScript `json:"shards"`
}

// Opt mirrors coordinator.Option.
type Opt struct {
	MaxHead          int64 `json:"maxHead"`
	MaxProc          int64 `json:"maxProc"`
	Min              int32 `json:"min"`
	Max              int32 `json:"max"`
	IdleMin          int   `json:"idleMin"` // minutes; 0 = scale-down disabled
	DisableAlleviate bool  `json:"disableAlleviate,omitempty"`
}

// ActiveT is one discovered target.
type ActiveT struct {
	Hash uint64 `json:"hash"`
	Job  string `json:"job"`
}

// Case is a full scripted scenario: options, discovery, explorer table and per-cycle replica scripts.
type Case struct {
	Name    string            `json:"name,omitempty"`
	Opt     Opt               `json:"opt"`
	Active  []ActiveT         `json:"active"`
	Explore map[uint64]*TStat `json:"explore"` // nil entry: explorer does not know the target
	Cycles  [][]Replica       `json:"cycles"`
	Reps    int               `json:"reps,omitempty"` // repetitions wanted by a directed case whose interesting outcome is a rare map order
}

func (c *Case) isActive(h uint64) bool {
	for _, a := range c.Active {
		if a.Hash == h {
			return true
		}
	}
	return false
}

// okShard returns a healthy, in-sync, empty shard script.
func okShard() ShardScript {
	return ShardScript{Ready: true, StatusOK: true, RuntimeOK: true, HashMode: "match", PostOK: true, ExtraOK: true, Report: map[uint64]TStat{}}
}

func up(series, total int64, times uint64) TStat {
	return TStat{State: "", Health: "up", Times: times, Series: series, Total: total}
}

func (s ShardScript) with(h uint64, t TStat) ShardScript {
	n := s
	n.Report = map[uint64]TStat{}
	for k, v := range s.Report {
		n.Report[k] = v
	}
	n.Report[h] = t
	n.IdleKind = ""
	return n
}

func (s ShardScript) idle(kind string) ShardScript { s.IdleKind = kind; return s }

func oneCycle(shards ...ShardScript) [][]Replica { return [][]Replica{{{Shards: shards}}} }

// fixIdle makes IdleKind consistent with the report (IdleStartAt != nil <=> report empty).
func (c *Case) fixIdle() {
	for ci := range c.Cycles {
		for ri := range c.Cycles[ci] {
			for si := range c.Cycles[ci][ri].Shards {
				s := &c.Cycles[ci][ri].Shards[si]
				if len(s.Report) == 0 && s.IdleKind == "" {
					s.IdleKind = "fresh"
				}
				if len(s.Report) != 0 {
					s.IdleKind = ""
				}
			}
		}
	}
}

var sizes = []int64{0, 1, 10, 49, 50, 51, 99, 100, 101, 400}

// genBias steers the random generator towards what a property needs.
type genBias struct {
	unhealthyPer12 int  // chance (of 12) that a shard is unhealthy in one of the ways
	forceHead      bool // always a head limit
	moreTransfers  bool
	maxShards      int
}

// genRandom draws a one-replica, one-cycle case.
func genRandom(r *core.Rng, b genBias) *Case {
	c := &Case{Opt: Opt{MaxProc: r.Pick64(100, 150), Min: 0, Max: 99}, Explore: map[uint64]*TStat{}}
	if b.forceHead || r.Intn(3) > 0 {
		c.Opt.MaxHead = 100
	}
	switch r.Intn(8) {
	case 0:
		c.Opt.Min, c.Opt.Max = 2, 3
	case 1:
		c.Opt.Min, c.Opt.Max = 3, 3
	case 2:
		c.Opt.Min, c.Opt.Max = 0, 1
	case 3:
		c.Opt.Min, c.Opt.Max = 5, 9
	}
	if r.Intn(2) == 0 {
		c.Opt.IdleMin = 30
	}
	if r.Intn(10) == 0 {
		c.Opt.DisableAlleviate = true
	}
	nT := r.Intn(9)
	var univ []uint64
	for i := 0; i < nT+2; i++ {
		univ = append(univ, uint64(i+1))
	}
	for _, h := range univ[:nT] {
		c.Active = append(c.Active, ActiveT{Hash: h, Job: r.PickS("job", "job", "job2")})
	}
	for _, h := range univ {
		if r.Intn(6) == 0 {
			c.Explore[h] = nil
			continue
		}
		s := sizes[r.Intn(len(sizes))]
		t := s + r.Pick64(0, 0, 1, 50, 300)
		hl := r.PickS("up", "up", "up", "down", "unknown")
		c.Explore[h] = &TStat{Health: hl, Series: s, Total: t}
	}
	maxS := b.maxShards
	if maxS == 0 {
		maxS = 5
	}
	nS := 1 + r.Intn(maxS)
	up12 := b.unhealthyPer12
	if up12 == 0 {
		up12 = 4
	}
	var shards []ShardScript
	for i := 0; i < nS; i++ {
		s := okShard()
		if r.Intn(12) < up12 {
			switch r.Intn(4) {
			case 0:
				s.Ready = false
			case 1:
				s.StatusOK = false
			case 2:
				s.RuntimeOK = false
			case 3:
				s.HashMode = r.PickS("pushmatch", "pushdiffer", "pushreject", "push2fail")
			}
		}
		if r.Intn(15) == 0 {
			s.PostOK = false
		}
		if r.Intn(25) == 0 {
			s.ExtraOK = false
		}
		k := r.Intn(4)
		if r.Intn(4) == 0 {
			k = 0
		}
		for j := 0; j < k; j++ {
			h := univ[r.Intn(len(univ))]
			sz := sizes[r.Intn(len(sizes))]
			st := TStat{State: r.PickS("", "", "in_transfer"), Health: r.PickS("up", "up", "up", "down", "unknown"),
				Times: uint64(r.Pick64(0, 1, 2, 3, 4, 10)), Series: sz, Total: sz + r.Pick64(0, 0, 5, 60)}
			if b.moreTransfers && r.Intn(2) == 0 {
				st.State = "in_transfer"
			}
			if st.Health == "unknown" {
				st.Times = 0 // a sidecar sets health with every counted attempt
			}
			s.Report[h] = st
		}
		s.HeadExtra = r.Pick64(0, 0, 0, 1, 9, 30, 60, 90)
		if len(s.Report) == 0 {
			s.IdleKind = r.PickS("fresh", "expired", "expired")
		}
		shards = append(shards, s)
	}
	c.Cycles = [][]Replica{{{Shards: shards}}}
	return c
}

// signature is the abstract shape of a case with sizes bucketed (distinctness in evidence).
func (c *Case) signature() string {
	var sb strings.Builder
	fmt.Fprintf(&sb, "o%d/%d/%d/%d/%d/%v|a%d|", bucket(c.Opt.MaxHead), bucket(c.Opt.MaxProc), c.Opt.Min, c.Opt.Max, c.Opt.IdleMin, c.Opt.DisableAlleviate, len(c.Active))
	var ex []string
	for h, e := range c.Explore {
		if !c.isActive(h) {
			continue
		}
		if e == nil {
			ex = append(ex, "n")
		} else {
			ex = append(ex, fmt.Sprintf("%s%d/%d", e.Health[:1], bucket(e.Series), bucket(e.Total)))
		}
	}
	sort.Strings(ex)
	sb.WriteString(strings.Join(ex, ","))
	for _, cyc := range c.Cycles {
		sb.WriteString("|C")
		for _, rep := range cyc {
			fmt.Fprintf(&sb, "[R%v%v", rep.ShardsErr, rep.ScaleErrAt)
			for _, s := range rep.Shards {
				fmt.Fprintf(&sb, "(%s", shardKind(s))
				var ts []string
				for h, t := range s.Report {
					a := "a"
					if !c.isActive(h) {
						a = "x"
					}
					ts = append(ts, fmt.Sprintf("%d%s%s%s%d/%d/%d", h, a, t.State, t.Health[:1], tb(t.Times), bucket(t.Series), bucket(t.Total)))
				}
				sort.Strings(ts)
				sb.WriteString(strings.Join(ts, ","))
				fmt.Fprintf(&sb, "+%d%s)", bucket(s.HeadExtra), s.IdleKind)
			}
			sb.WriteString("]")
		}
	}
	return fmt.Sprintf("%016x", core.HashString(sb.String()))
}

func shardKind(s ShardScript) string {
	switch {
	case !s.Ready:
		return "unready"
	case !s.StatusOK:
		return "nostatus"
	case !s.RuntimeOK:
		return "noruntime"
	case s.HashMode != "match":
		return s.HashMode
	}
	k := "ok"
	if !s.PostOK {
		k += "-postfail"
	}
	return k
}

func bucket(v int64) int {
	switch {
	case v == 0:
		return 0
	case v < 10:
		return 1
	case v < 50:
		return 2
	case v < 100:
		return 3
	case v == 100:
		return 4
	case v < 200:
		return 5
	}
	return 6
}

func tb(t uint64) int {
	if t >= 3 {
		return 3
	}
	return int(t)
}
