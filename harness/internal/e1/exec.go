package e1

import (
	"context"
	"encoding/json"
	"errors"
	"fmt"
	"io"
	"math/rand"
	"strings"
	"sync"
	"sync/atomic"
	"time"

	"github.com/prometheus/client_golang/prometheus"
	pscrape "github.com/prometheus/prometheus/scrape"
	"github.com/sirupsen/logrus"

	"tkestack.io/kvass/pkg/api"
	"tkestack.io/kvass/pkg/coordinator"
	"tkestack.io/kvass/pkg/discovery"
	"tkestack.io/kvass/pkg/prom"
	"tkestack.io/kvass/pkg/shard"
	"tkestack.io/kvass/pkg/target"
)

// Ev is one call of the coordinator observed at the boundary the harness owns.
type Ev struct {
	Cycle int             `json:"cycle"`
	Rep   int             `json:"rep"`
	Shard int             `json:"shard"`
	Kind  string          `json:"kind"` // GET | POST | SCALE | SHARDS
	Path  string          `json:"path,omitempty"`
	Body  json.RawMessage `json:"body,omitempty"`
	Arg   int32           `json:"arg"`
	OK    bool            `json:"ok"`
}

// Obs is the recorded execution.
type Obs struct {
	mu     sync.Mutex
	Events []Ev   `json:"events"`
	Ended  int    `json:"cyclesEnded"`
	Panic  string `json:"panic,omitempty"`
}

func (o *Obs) add(e Ev) {
	o.mu.Lock()
	o.Events = append(o.Events, e)
	o.mu.Unlock()
}

// The coordinator's configuration comes from a REAL prom.ConfigManager that has been through two reloads:
// an earlier version differing from the current one only in external labels (which the hash ignores),
// then the current one. Shards that report another hash must be sent the CURRENT raw content.
const rawConfigOld = "global:\n  external_labels:\n    replica: before-the-last-reload\nscrape_configs:\n- job_name: job\n- job_name: job2\n"
const rawConfig = "global: {}\nscrape_configs:\n- job_name: job\n- job_name: job2\n"

var (
	cfgOnce sync.Once
	cfgMgr  *prom.ConfigManager
	cfgHash string
)

func configManager() *prom.ConfigManager {
	cfgOnce.Do(func() {
		cfgMgr = prom.NewConfigManager()
		if err := cfgMgr.ReloadFromRaw([]byte(rawConfigOld)); err != nil {
			panic("harness: " + err.Error())
		}
		if err := cfgMgr.ReloadFromRaw([]byte(rawConfig)); err != nil {
			panic("harness: " + err.Error())
		}
		cfgHash = cfgMgr.ConfigInfo().ConfigHash
	})
	return cfgMgr
}

type gateRM struct {
	ms      []shard.Manager
	start   chan struct{}
	done    chan struct{}
	n       int
	cycle   *int
	cycleMu *sync.Mutex
}

func (g *gateRM) Replicas() ([]shard.Manager, error) {
	if g.n > 0 {
		g.done <- struct{}{}
	}
	g.n++
	if _, ok := <-g.start; !ok {
		return nil, errors.New("harness shutdown")
	}
	return g.ms, nil
}

type mgr struct {
	c     *Case
	rep   int
	obs   *Obs
	lg    logrus.FieldLogger
	cycle *int
	mu    *sync.Mutex
	calls map[int]int // ChangeScale calls per cycle
	now   time.Time
}

func (m *mgr) cur() (int, *Replica) {
	m.mu.Lock()
	defer m.mu.Unlock()
	k := *m.cycle
	if k >= len(m.c.Cycles) || m.rep >= len(m.c.Cycles[k]) {
		return k, nil
	}
	return k, &m.c.Cycles[k][m.rep]
}

func (m *mgr) ChangeScale(n int32) error {
	k, r := m.cur()
	m.mu.Lock()
	idx := m.calls[k]
	m.calls[k]++
	m.mu.Unlock()
	ok := true
	if r != nil {
		for _, f := range r.ScaleErrAt {
			if f == idx {
				ok = false
			}
		}
	}
	m.obs.add(Ev{Cycle: k, Rep: m.rep, Shard: -1, Kind: "SCALE", Arg: n, OK: ok})
	if !ok {
		return errors.New("scripted ChangeScale failure")
	}
	return nil
}

func pathOf(url string) string {
	i := strings.Index(url[8:], "/")
	return url[8+i:]
}

func (m *mgr) Shards() ([]*shard.Shard, error) {
	k, r := m.cur()
	if r == nil || r.ShardsErr {
		m.obs.add(Ev{Cycle: k, Rep: m.rep, Shard: -1, Kind: "SHARDS", OK: false})
		return nil, errors.New("scripted Shards failure")
	}
	m.obs.add(Ev{Cycle: k, Rep: m.rep, Shard: -1, Kind: "SHARDS", OK: true})
	var ret []*shard.Shard
	for i := range r.Shards {
		i := i
		sc := &r.Shards[i]
		s := shard.NewShard(fmt.Sprintf("r%d-s%d", m.rep, i), fmt.Sprintf("http://r%d-s%d", m.rep, i), sc.Ready, m.lg)
		var pmu sync.Mutex
		pushed := false
		s.APIGet = func(url string, ret interface{}) error {
			path := pathOf(url)
			var data interface{}
			ok := true
			switch {
			case strings.HasSuffix(path, "/targets/status/"):
				if !sc.StatusOK {
					ok = false
					break
				}
				st := map[uint64]*target.ScrapeStatus{}
				for h, t := range sc.Report {
					st[h] = &target.ScrapeStatus{TargetState: t.State, Health: pscrape.TargetHealth(t.Health), ScrapeTimes: t.Times, Series: t.Series, TotalSeries: t.Total}
				}
				data = st
			case strings.HasSuffix(path, "/runtimeinfo/"):
				pmu.Lock()
				p := pushed
				pmu.Unlock()
				if !sc.RuntimeOK || (p && sc.HashMode == "push2fail") {
					ok = false
					break
				}
				ri := &shard.RuntimeInfo{ConfigHash: cfgHash}
				for _, t := range sc.Report {
					ri.HeadSeries += t.Series
					ri.ProcessSeries += t.Total
				}
				ri.HeadSeries += sc.HeadExtra
				if sc.HashMode != "match" && !(p && sc.HashMode == "pushmatch") {
					ri.ConfigHash = "SOME-OTHER-HASH"
				}
				if len(sc.Report) == 0 {
					t := m.now.Add(-time.Second)
					if sc.IdleKind == "expired" {
						t = m.now.Add(-time.Hour)
					}
					ri.IdleStartAt = &t
				}
				data = ri
			default:
				ok = false
			}
			m.obs.add(Ev{Cycle: k, Rep: m.rep, Shard: i, Kind: "GET", Path: path, OK: ok})
			if !ok {
				return errors.New("scripted GET failure " + path)
			}
			// same decoding path as api.Get: the standard envelope, JSON round trip
			b, _ := json.Marshal(api.Data(data))
			return json.Unmarshal(b, api.Data(ret))
		}
		s.APIPost = func(url string, req interface{}, ret interface{}) error {
			path := pathOf(url)
			b, _ := json.Marshal(req)
			ok := true
			switch {
			case strings.HasSuffix(path, "/status/config"):
				if sc.HashMode == "pushreject" {
					ok = false
				} else {
					pmu.Lock()
					pushed = true
					pmu.Unlock()
				}
			case strings.HasSuffix(path, "/shard/targets/"):
				ok = sc.PostOK
			case strings.HasSuffix(path, "/status/extra_config"):
				ok = sc.ExtraOK
			}
			m.obs.add(Ev{Cycle: k, Rep: m.rep, Shard: i, Kind: "POST", Path: path, Body: b, OK: ok})
			if !ok {
				return errors.New("scripted POST failure " + path)
			}
			return nil
		}
		ret = append(ret, s)
	}
	return ret, nil
}

var quietLog = func() *logrus.Logger { l := logrus.New(); l.SetOutput(io.Discard); return l }()

// Exec runs the case's cycles through the real coordinator and returns what was observed.
func Exec(c *Case, rseed int64) *Obs {
	configManager() // fixes cfgHash before any scripted sidecar reports it
	obs := &Obs{}
	rand.Seed(rseed)
	active := map[uint64]*discovery.SDTargets{}
	for _, a := range c.Active {
		active[a.Hash] = &discovery.SDTargets{Job: a.Job, ShardTarget: &target.Target{Hash: a.Hash}}
	}
	// the explorer hands out the same status object on every call, as Explore.Get does
	ex := map[uint64]*target.ScrapeStatus{}
	for h, t := range c.Explore {
		if t != nil {
			s := target.NewScrapeStatus(t.Series, t.Total)
			s.Health = pscrape.TargetHealth(t.Health)
			ex[h] = s
		}
	}
	var exMu sync.Mutex
	cycle := 0
	var cmu sync.Mutex
	nrep := 0
	for _, cyc := range c.Cycles {
		if len(cyc) > nrep {
			nrep = len(cyc)
		}
	}
	now := time.Now()
	var ms []shard.Manager
	for r := 0; r < nrep; r++ {
		ms = append(ms, &mgr{c: c, rep: r, obs: obs, lg: quietLog, cycle: &cycle, mu: &cmu, calls: map[int]int{}, now: now})
	}
	g := &gateRM{ms: ms, start: make(chan struct{}), done: make(chan struct{})}
	co := coordinator.NewCoordinator(&coordinator.Option{
		MaxHeadSeries: c.Opt.MaxHead, MaxProcessSeries: c.Opt.MaxProc, MaxShard: c.Opt.Max, MinShard: c.Opt.Min,
		MaxIdleTime: time.Duration(c.Opt.IdleMin) * time.Minute, DisableAlleviate: c.Opt.DisableAlleviate,
	}, g, func() *prom.ConfigInfo {
		return configManager().ConfigInfo()
	}, func(h uint64) *target.ScrapeStatus {
		exMu.Lock()
		defer exMu.Unlock()
		return ex[h]
	}, func() map[uint64]*discovery.SDTargets { return active },
		prometheus.NewRegistry(), quietLog)
	ctx, cancel := context.WithCancel(context.Background())
	defer cancel()
	fin := make(chan string, 1)
	go func() {
		defer func() {
			if r := recover(); r != nil {
				fin <- fmt.Sprint(r)
			}
		}()
		_ = co.Run(ctx)
		fin <- ""
	}()
	for k := 0; k < len(c.Cycles); k++ {
		cmu.Lock()
		cycle = k
		cmu.Unlock()
		select {
		case g.start <- struct{}{}:
		case p := <-fin:
			obs.Panic = "panic: " + p
			return obs
		}
		select {
		case <-g.done:
			obs.mu.Lock()
			obs.Ended++
			obs.mu.Unlock()
		case p := <-fin:
			obs.Panic = "panic: " + p
			return obs
		case <-time.After(hangPatience()):
			obs.Panic = fmt.Sprintf("hang: cycle did not complete within %v", hangPatience())
			atomic.AddInt32(&hangsSeen, 1)
			return obs
		}
	}
	cancel()
	close(g.start)
	select {
	case <-fin:
	case <-time.After(30 * time.Second):
	}
	return obs
}

// hangsSeen: cycles of this worker process that did not complete. A scripted cycle takes milliseconds; the first two
// hangs are given 60 s each (a loaded machine must not look like a hang), after that the tree evidently hangs and the
// remaining cases of this process wait 5 s only, so that a run over a tree that hangs ends within minutes, not hours.
var hangsSeen int32

func hangPatience() time.Duration {
	if atomic.LoadInt32(&hangsSeen) >= 2 {
		return 5 * time.Second
	}
	return 60 * time.Second
}
