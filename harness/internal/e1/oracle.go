package e1

import (
	"encoding/json"
	"fmt"
	"sort"
	"strings"

	"kvassverif/internal/core"
	"tkestack.io/kvass/pkg/target"
)

// view is everything the oracles need about one (cycle, replica), derived from the SCRIPT
// and the RECORDED calls, never from coordinator internals.
type view struct {
	c      *Case
	rep    *Replica
	n      int
	reach  []bool
	insync []bool
	final  []map[uint64]string // assignment after the cycle: accepted POST body, else the report
	sent   []map[uint64]string // what the coordinator sent (accepted or not), else the report
	sentSz []map[uint64]int64  // series value carried by the sent entry
	posted []bool              // a POST /targets/ was issued
	head   []int64             // load reported in this cycle
	proc   []int64
	scales []Ev
	evs    []Ev
	active map[uint64]bool
}

func derive(c *Case, o *Obs, cycle, rep int) *view {
	r := &c.Cycles[cycle][rep]
	v := &view{c: c, rep: r, n: len(r.Shards), active: map[uint64]bool{}}
	for _, a := range c.Active {
		v.active[a.Hash] = true
	}
	n := v.n
	v.reach, v.insync, v.posted = make([]bool, n), make([]bool, n), make([]bool, n)
	v.final, v.sent, v.sentSz = make([]map[uint64]string, n), make([]map[uint64]string, n), make([]map[uint64]int64, n)
	v.head, v.proc = make([]int64, n), make([]int64, n)
	for i, s := range r.Shards {
		v.reach[i] = s.Ready && s.StatusOK
		v.insync[i] = s.Ready && s.StatusOK && s.RuntimeOK && (s.HashMode == "match" || s.HashMode == "pushmatch")
		v.final[i], v.sent[i], v.sentSz[i] = map[uint64]string{}, map[uint64]string{}, map[uint64]int64{}
		for h, t := range s.Report {
			v.final[i][h] = t.State
			v.sent[i][h] = t.State
			v.sentSz[i][h] = t.Series
			v.head[i] += t.Series
			v.proc[i] += t.Total
		}
		v.head[i] += s.HeadExtra
	}
	for _, e := range o.Events {
		if e.Cycle != cycle || e.Rep != rep {
			continue
		}
		v.evs = append(v.evs, e)
		if e.Kind == "SCALE" {
			v.scales = append(v.scales, e)
		}
		if e.Kind == "POST" && strings.HasSuffix(e.Path, "/shard/targets/") {
			var req struct {
				Targets map[string][]*target.Target
			}
			_ = json.Unmarshal(e.Body, &req)
			f := map[uint64]string{}
			sz := map[uint64]int64{}
			for _, ts := range req.Targets {
				for _, t := range ts {
					f[t.Hash] = t.TargetState
					sz[t.Hash] = t.Series
				}
			}
			v.sent[e.Shard] = f
			v.sentSz[e.Shard] = sz
			v.posted[e.Shard] = true
			if e.OK {
				v.final[e.Shard] = f
			}
		}
	}
	return v
}

func (v *view) R(i int) map[uint64]TStat { return v.rep.Shards[i].Report }

// placed(j): targets in the sent list of j that j did not report.
func (v *view) placed(j int) []uint64 {
	var r []uint64
	for h := range v.sent[j] {
		if _, ok := v.R(j)[h]; !ok {
			r = append(r, h)
		}
	}
	sort.Slice(r, func(a, b int) bool { return r[a] < r[b] })
	return r
}

// insyncReporters of h.
func (v *view) insyncReporters(h uint64) []int {
	var r []int
	for i := 0; i < v.n; i++ {
		if v.insync[i] {
			if _, ok := v.R(i)[h]; ok {
				r = append(r, i)
			}
		}
	}
	return r
}

func (v *view) reachReported(h uint64) bool {
	for i := 0; i < v.n; i++ {
		if v.reach[i] {
			if _, ok := v.R(i)[h]; ok {
				return true
			}
		}
	}
	return false
}

// ---------------------------------------------------------------------------

// judgeC01: no orphaning, removals justified, cycle completes.
func judgeC01(v *view, o *Obs, res *core.CaseResult) {
	for h := range v.active {
		reps := v.insyncReporters(h)
		if len(reps) == 0 {
			continue
		}
		res.AddStat("targets_reported_by_insync_shard", 1)
		kept := false
		for j := 0; j < v.n; j++ {
			if v.insync[j] {
				if _, ok := v.final[j][h]; ok {
					kept = true
				}
			}
		}
		if !kept {
			res.Violate("C01/orphaned", "target %d was reported by in-sync shard(s) %v and is still discovered, but no in-sync shard lists it after the cycle", h, reps)
		}
	}
	for i := 0; i < v.n; i++ {
		if !v.insync[i] {
			continue
		}
		for h, t := range v.R(i) {
			if _, ok := v.final[i][h]; ok {
				continue
			}
			if !v.active[h] {
				res.AddStat("removals_vanished_target", 1)
				continue
			}
			others := 0
			for _, j := range v.insyncReporters(h) {
				if j != i {
					others++
				}
			}
			if others == 0 {
				res.Violate("C01/removed-without-other-copy", "shard %d lost discovered target %d (state %q) although no other in-sync shard reported it", i, h, t.State)
			} else if t.State == target.StateInTransfer {
				res.AddStat("removals_in_transfer_confirmed", 1)
			} else {
				res.AddStat("removals_duplicate", 1)
			}
		}
	}
}

// sizeOf: the size the coordinator may attribute to h when it places it. For a move the
// smallest report among in-sync holders (weakest sound requirement), else the explorer entry.
func (v *view) sizeOf(h uint64) (series, total int64, move bool) {
	first := true
	for _, i := range v.insyncReporters(h) {
		t := v.R(i)[h]
		if first || t.Series < series {
			series = t.Series
		}
		if first || t.Total < total {
			total = t.Total
		}
		first = false
	}
	if !first {
		return series, total, true
	}
	if e := v.c.Explore[h]; e != nil {
		return e.Series, e.Total, false
	}
	return 0, 0, false
}

func (v *view) oversized(series, total int64) bool {
	return (v.c.Opt.MaxHead != 0 && series > v.c.Opt.MaxHead) || total > v.c.Opt.MaxProc
}

// eligibleUnplaced: discovered, scraped by no reachable shard, explorer says healthy, not placed in this cycle.
func (v *view) eligibleUnplaced() (all, notOversized []uint64) {
	placed := map[uint64]bool{}
	for j := 0; j < v.n; j++ {
		if v.insync[j] {
			for _, h := range v.placed(j) {
				placed[h] = true
			}
		}
	}
	for h := range v.active {
		e := v.c.Explore[h]
		if v.reachReported(h) || e == nil || e.Health != "up" || placed[h] {
			continue
		}
		all = append(all, h)
		if !v.oversized(e.Series, e.Total) {
			notOversized = append(notOversized, h)
		}
	}
	return
}

// reliefNeedsSpace is a SUFFICIENT condition for "more space is needed in this cycle" through relief:
// an in-sync shard is over the lowest head-series threshold (1.1 x limit), the targets on it that the
// duplicate/vanished clean-up cannot take away add up to more than the limit, none of its targets is
// oversized (relief gives up on such a shard), only targets relief may move (normal, healthy, scraped three
// times) are counted, and by the loads reported in this cycle none of its
// targets fits any other in-sync shard (room only shrinks during a cycle). Relief can then move nothing
// and the shard's excess is space the replica lacks.
func (v *view) reliefNeedsSpace() (int, bool) {
	opt := v.c.Opt
	if opt.DisableAlleviate || opt.MaxHead == 0 {
		return -1, false
	}
	for i := 0; i < v.n; i++ {
		if !v.insync[i] || len(v.rep.Shards[i].Report) == 0 {
			continue
		}
		if v.head[i] < int64(float64(opt.MaxHead)*1.1) {
			continue
		}
		var safe int64
		bad, fits := false, false
		for h, t := range v.rep.Shards[i].Report {
			if (opt.MaxHead != 0 && t.Series > opt.MaxHead) || t.Series > opt.MaxProc || t.Total > opt.MaxProc {
				bad = true
			}
			elsewhere := false
			for j := 0; j < v.n; j++ {
				if j == i {
					continue
				}
				if _, ok := v.rep.Shards[j].Report[h]; ok && v.reach[j] {
					elsewhere = true
				}
				if v.insync[j] && v.head[j]+t.Series < opt.MaxHead && v.proc[j]+t.Total < opt.MaxProc {
					fits = true
				}
			}
			// only targets relief may move count towards the shard's excess: normal, healthy, scraped 3 times
			if v.active[h] && !elsewhere && t.State == "" && t.Health == "up" && t.Times >= 3 {
				safe += t.Series
			}
		}
		if !bad && !fits && safe > opt.MaxHead {
			return i, true
		}
	}
	return -1, false
}

// judgeC04: placements fit; oversized targets neither assigned nor a reason to scale up.
func judgeC04(v *view, o *Obs, res *core.CaseResult) {
	opt := v.c.Opt
	for j := 0; j < v.n; j++ {
		if !v.insync[j] {
			continue
		}
		pl := v.placed(j)
		if len(pl) == 0 {
			continue
		}
		var sh, sp int64
		kinds := map[string]bool{}
		for _, h := range pl {
			s, t, move := v.sizeOf(h)
			sh += s
			sp += t
			if move {
				kinds["move"] = true
				res.AddStat("placements_move", 1)
			} else {
				kinds["first"] = true
				res.AddStat("placements_first_assignment", 1)
				if e := v.c.Explore[h]; e != nil && v.oversized(e.Series, e.Total) {
					res.Violate("C04/oversized-assigned", "target %d alone exceeds a limit (series %d, total %d; limits %d/%d) but was assigned to shard %d", h, e.Series, e.Total, opt.MaxHead, opt.MaxProc, j)
				}
			}
		}
		kind := "first"
		if kinds["move"] {
			kind = "move"
		}
		if opt.MaxHead != 0 && v.head[j]+sh >= opt.MaxHead {
			res.Violate("C04/head-limit/"+kind, "shard %d reported head series %d and was given %v (+%d) which is not below the head limit %d", j, v.head[j], pl, sh, opt.MaxHead)
		}
		if v.proc[j]+sp >= opt.MaxProc {
			res.Violate("C04/process-limit/"+kind, "shard %d reported process series %d and was given %v (+%d) which is not below the process limit %d", j, v.proc[j], pl, sp, opt.MaxProc)
		}
	}
	// Oversized targets must never be the reason for a scale-up. A scale request above the current count
	// is unjustified when (a) no placeable new target is left unassigned and (b) every in-sync shard that
	// is over a relief threshold holds nothing relief could move except oversized targets - then the only
	// things that "need space" are targets that alone exceed a limit.
	all, notOver := v.eligibleUnplaced()
	reliefCouldNeedSpace := false
	oversizedHeld := 0
	for i := 0; i < v.n; i++ {
		if !v.insync[i] {
			continue
		}
		over := v.proc[i] >= opt.MaxProc || (opt.MaxHead != 0 && float64(v.head[i]) >= float64(opt.MaxHead)*1.1-1)
		if !over {
			continue
		}
		for _, t := range v.R(i) {
			// any healthy copy may be moved by relief (an in_transfer copy without partner is restored to normal first)
			if t.Health != "up" {
				continue
			}
			if v.oversized(t.Series, t.Total) {
				oversizedHeld++
			} else {
				reliefCouldNeedSpace = true
			}
		}
	}
	if (len(all) > 0 || oversizedHeld > 0) && len(notOver) == 0 {
		res.AddStat("cycles_with_only_oversized_needing_space", 1)
		if oversizedHeld > 0 {
			res.AddStat("cycles_with_oversized_target_on_overloaded_shard", 1)
		}
		if !reliefCouldNeedSpace {
			lim := int32(v.n)
			if opt.Min > lim {
				lim = opt.Min
			}
			for _, s := range v.scales {
				if s.Arg > lim {
					res.Violate("C04/oversized-causes-scale-up", "only oversized targets need space (unassigned: %v, held by overloaded shards: %d) yet %d shards were requested (current %d, min %d)", all, oversizedHeld, s.Arg, v.n, opt.Min)
					break
				}
			}
		}
	}
}

// judgeC05: hand-over rule with the README's 3.
func judgeC05(v *view, o *Obs, res *core.CaseResult) {
	const need = 3
	// begin
	for j := 0; j < v.n; j++ {
		if !v.insync[j] {
			continue
		}
		for _, h := range v.placed(j) {
			var srcs []int
			for _, i := range v.insyncReporters(h) {
				if i != j {
					srcs = append(srcs, i)
				}
			}
			if len(srcs) == 0 {
				continue // first assignment
			}
			res.AddStat("moves_begun", 1)
			marked := false
			for _, i := range srcs {
				if st, ok := v.sent[i][h]; ok && st == target.StateInTransfer {
					marked = true
				}
			}
			if v.sent[j][h] != target.StateNormal {
				res.Violate("C05/begin/destination-not-normal", "target %d moved to shard %d was sent with state %q", h, j, v.sent[j][h])
			}
			if !marked {
				res.Violate("C05/begin/source-not-marked", "target %d was given to shard %d while held by in-sync shard(s) %v, none of which was sent an in_transfer copy", h, j, srcs)
			}
		}
	}
	for i := 0; i < v.n; i++ {
		if !v.insync[i] {
			continue
		}
		for h, t := range v.R(i) {
			if t.State == target.StateNormal && v.sent[i][h] == target.StateInTransfer {
				ok := false
				for j := 0; j < v.n; j++ {
					if j != i && v.insync[j] {
						if st, has := v.sent[j][h]; has && st == target.StateNormal {
							ok = true
						}
					}
				}
				if !ok {
					res.Violate("C05/begin/no-destination-copy", "target %d newly marked in_transfer on shard %d but no in-sync shard was sent a normal copy", h, i)
				}
			}
		}
	}
	// end
	for i := 0; i < v.n; i++ {
		if !v.insync[i] {
			continue
		}
		for h, t := range v.R(i) {
			if !v.active[h] || t.State != target.StateInTransfer {
				continue
			}
			if _, kept := v.final[i][h]; kept {
				continue
			}
			nIT, okDest := 0, false
			for _, j := range v.insyncReporters(h) {
				q := v.R(j)[h]
				if q.State == target.StateInTransfer {
					nIT++
				} else if j != i && q.Times >= need {
					okDest = true
				}
			}
			if nIT != 1 {
				continue
			}
			res.AddStat("moves_completed", 1)
			res.AddSet("handover_counts", fmt.Sprintf("src%d/dst%v", tb(t.Times), okDest))
			if t.Times < need || !okDest {
				res.Violate("C05/end/early-removal", "in-transfer target %d removed from source shard %d with source count %d and no destination copy that reports >= %d scrapes (destination ok: %v)", h, i, t.Times, need, okDest)
			}
		}
	}
}

// judgeC07: every scale request within bounds, never below the last shard still needed.
func judgeC07(v *view, o *Obs, res *core.CaseResult) {
	opt := v.c.Opt
	if opt.Min > opt.Max {
		return
	}
	n := int32(v.n)
	L := int32(0)
	for i := 0; i < v.n; i++ {
		s := v.rep.Shards[i]
		expired := len(s.Report) == 0 && s.IdleKind == "expired" && opt.IdleMin != 0
		if !v.insync[i] || len(s.Report) > 0 || len(v.final[i]) > 0 || len(v.sent[i]) > 0 || !expired {
			L = int32(i + 1)
		}
	}
	_, notOver := v.eligibleUnplaced()
	reliefShard, reliefNeed := v.reliefNeedsSpace()
	if reliefNeed {
		res.AddStat("cycles_in_which_relief_needs_space", 1)
	}
	for k, s := range v.scales {
		a := s.Arg
		res.AddStat("scale_requests", 1)
		if a < n {
			res.AddStat("scale_requests_below_current", 1)
		}
		if a > n {
			res.AddStat("scale_requests_above_current", 1)
		}
		which := "final"
		if k == 0 && len(v.scales) > 1 {
			which = "early"
		}
		if a < opt.Min || a > opt.Max {
			res.Violate("C07/out-of-bounds/"+which, "requested %d shards outside [%d,%d]", a, opt.Min, opt.Max)
		}
		if n <= opt.Max {
			if a < L {
				res.Violate("C07/below-last-needed/"+which, "requested %d shards although shard %d (position %d) is out of sync, holds or was given a target, or is not idle long enough (current %d)", a, L-1, L, n)
			}
			if a < n && reliefNeed {
				res.Violate("C07/shrink-while-relief-needs-space/"+which, "requested %d < current %d although shard %d is over the head-series threshold (%d, limit %d) and none of its targets fits any other shard: more space is needed in this cycle", a, n, reliefShard, v.head[reliefShard], opt.MaxHead)
			}
			if a < n && (opt.IdleMin == 0 || len(notOver) > 0) {
				res.Violate("C07/shrink-when-forbidden/"+which, "requested %d < current %d although max-idle-time is %d min and %d placeable targets are still unassigned", a, n, opt.IdleMin, len(notOver))
			}
		}
	}
}

// judgeC08: shards that are not in sync are left alone.
func judgeC08(v *view, o *Obs, res *core.CaseResult) {
	for i := 0; i < v.n; i++ {
		s := v.rep.Shards[i]
		var mine []Ev
		for _, e := range v.evs {
			if e.Shard == i {
				mine = append(mine, e)
			}
		}
		if !v.insync[i] {
			res.AddStat("not_in_sync_shards", 1)
			res.AddSet("unhealthy_kinds", shardKind(s))
			for _, e := range mine {
				if e.Kind == "POST" && (strings.HasSuffix(e.Path, "/shard/targets/") || strings.HasSuffix(e.Path, "extra_config")) {
					res.Violate("C08/update-to-not-in-sync-shard", "shard %d (%s) received POST %s", i, shardKind(s), e.Path)
				}
			}
		}
		if s.Ready && s.StatusOK && s.RuntimeOK && s.HashMode != "match" {
			res.AddStat("hash_mismatch_shards", 1)
			// expected order: GET status, GET runtimeinfo, POST config(raw), [GET runtimeinfo], then updates
			pushAt, updAt, secondRt := -1, -1, -1
			rtSeen := 0
			for k, e := range mine {
				switch {
				case e.Kind == "POST" && strings.HasSuffix(e.Path, "/status/config"):
					if pushAt < 0 {
						pushAt = k
					}
					var req struct {
						RawContent string `json:"rawContent"`
					}
					_ = json.Unmarshal(e.Body, &req)
					if req.RawContent != rawConfig {
						res.Violate("C08/pushed-config-not-current", "shard %d was sent a configuration that is not the coordinator's raw content", i)
					}
				case e.Kind == "POST":
					if updAt < 0 {
						updAt = k
					}
				case e.Kind == "GET" && strings.HasSuffix(e.Path, "/runtimeinfo/"):
					rtSeen++
					if rtSeen == 2 {
						secondRt = k
					}
				}
			}
			if pushAt < 0 {
				res.Violate("C08/no-config-push", "shard %d reported a different hash but was not sent the raw configuration", i)
			} else {
				if updAt >= 0 && updAt < pushAt {
					res.Violate("C08/update-before-push", "shard %d received an update before the configuration push", i)
				}
				if s.HashMode != "pushreject" && (secondRt < 0 || secondRt < pushAt) {
					res.Violate("C08/no-recheck-after-push", "shard %d accepted the configuration but its hash was not re-read", i)
				}
			}
		}
		if v.insync[i] {
			got := false
			for _, e := range mine {
				if e.Kind == "POST" && !strings.HasSuffix(e.Path, "/status/config") {
					got = true
				}
			}
			if !got {
				res.Violate("C08/in-sync-shard-skipped", "shard %d is in sync (%s) but received no update call in the cycle", i, s.HashMode)
			}
		}
		if v.reach[i] && !v.insync[i] {
			for h := range v.R(i) {
				if len(v.insyncReporters(h)) > 0 {
					continue
				}
				res.AddStat("targets_held_only_by_out_of_sync_shard", 1)
				for j := 0; j < v.n; j++ {
					if !v.insync[j] {
						continue
					}
					for _, p := range v.placed(j) {
						if p == h {
							res.Violate("C08/double-assignment", "target %d is scraped by reachable out-of-sync shard %d and was assigned again to shard %d", h, i, j)
						}
					}
				}
			}
		}
	}
	// a new in_transfer mark needs its normal copy on an in-sync shard
	for i := 0; i < v.n; i++ {
		if !v.insync[i] {
			continue
		}
		for h, t := range v.R(i) {
			if t.State == target.StateNormal && v.sent[i][h] == target.StateInTransfer {
				ok := false
				for j := 0; j < v.n; j++ {
					if j != i && v.insync[j] {
						if st, has := v.sent[j][h]; has && st == target.StateNormal {
							ok = true
						}
					}
				}
				if !ok {
					res.Violate("C08/destination-not-in-sync", "target %d marked in_transfer on shard %d without a normal copy on an in-sync shard", h, i)
				}
			}
		}
	}
}

// outcome is a canonical rendering of what was sent, to count map-order dependent outcomes.
func outcome(v *view) string {
	var sb strings.Builder
	for i := 0; i < v.n; i++ {
		var ks []string
		for h, st := range v.sent[i] {
			ks = append(ks, fmt.Sprintf("%d%s", h, st))
		}
		sort.Strings(ks)
		fmt.Fprintf(&sb, "%v%s;", v.posted[i], strings.Join(ks, ","))
	}
	for _, s := range v.scales {
		fmt.Fprintf(&sb, "S%d", s.Arg)
	}
	return sb.String()
}
