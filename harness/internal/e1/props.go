package e1

import (
	"fmt"
	"os"
	"strings"

	"kvassverif/internal/core"
	"kvassverif/internal/e2"
	"kvassverif/internal/e7"
)

type propDef struct {
	id       string
	rule     string
	judge    func(v *view, o *Obs, res *core.CaseResult)
	nDirect  int
	direct   func(idx int) *Case
	bias     genBias
	nRandom  map[string]int
	reps     map[string]int
	nontriv  func(v *view) bool
	exhaust  bool
	crashSig string
	// extra cases appended after the stub-cycle cases (e.g. closed-loop runs of another engine)
	nExtra map[string]int
	extra  func(w *core.WorkerCtx, k int) *core.CaseResult
}

func repsFor(d *propDef, tier string) int {
	if n, ok := d.reps[tier]; ok {
		return n
	}
	if tier == "thorough" {
		return 8
	}
	return 3
}

func (d *propDef) caseAt(w *core.WorkerCtx, idx int) *Case {
	if idx < d.nDirect {
		c := d.direct(idx)
		c.fixIdle()
		return c
	}
	r := core.NewRng(w.Seed, core.HashString(d.id), uint64(idx))
	return genRandom(r, d.bias)
}

func register(d *propDef) {
	core.Register(&core.Prop{
		ID:    d.id,
		Level: "exploration",
		Rule:  d.rule,
		Assumptions: []string{
			"scripted sidecar answers are restricted to what pkg/sidecar can emit (head >= sum of series, process = sum of totals, idle-since set iff no target, unknown health implies zero scrape count)",
			"one coordination cycle with fresh shard objects is the unit of planner behaviour (the coordinator keeps no planning state between cycles)",
			"map-iteration order and the weighted random choice are reached by repeating every case, not enumerated",
		},
		NumCases: func(tier string) int { return d.nDirect + d.nRandom[tier] + d.nExtra[tier] },
		Run: func(w *core.WorkerCtx, idx int) *core.CaseResult {
			if base := d.nDirect + d.nRandom[w.Tier]; idx >= base && d.extra != nil {
				return d.extra(w, idx-base)
			}
			c := d.caseAt(w, idx)
			res := &core.CaseResult{Sig: c.signature()}
			reps := repsFor(d, w.Tier)
			if c.Reps > reps {
				reps = c.Reps
			}
			outs := map[string]bool{}
			var firstObs *Obs
			for k := 0; k < reps; k++ {
				o := Exec(c, int64(core.NewRng(w.Seed, uint64(idx), uint64(k)).Int63()))
				res.Execs++
				if firstObs == nil {
					firstObs = o
				}
				if o.Panic != "" {
					if d.id == "C01" {
						res.Violate("C01/cycle-did-not-complete", "the coordination cycle did not complete: %s", o.Panic)
					} else {
						res.Inconcl = "cycle did not complete (judged by C01): " + o.Panic
					}
					res.Witness = map[string]interface{}{"case": c, "obs": o}
					continue
				}
				nv := len(res.Viol)
				for ci := range c.Cycles {
					for ri := range c.Cycles[ci] {
						if c.Cycles[ci][ri].ShardsErr {
							continue
						}
						v := derive(c, o, ci, ri)
						d.judge(v, o, res)
						if d.nontriv(v) {
							res.Nontrivial = true
						}
						outs[outcome(v)] = true
						if anyNotInSync(v) {
							res.AddStat("executions_with_not_in_sync_shard", 1)
						}
					}
				}
				if len(res.Viol) > nv && res.Witness == nil {
					res.Witness = map[string]interface{}{"case": c, "obs": o}
				}
			}
			if len(outs) > 1 {
				res.AddStat("cases_with_order_dependent_outcome", 1)
			}
			res.AddStat("distinct_outcomes_over_repetitions", int64(len(outs)))
			// de-duplicate violations of the same class within a case
			res.Viol = dedupe(res.Viol)
			if idx < 2 || idx == d.nDirect || idx == d.nDirect+1 {
				res.Sample = map[string]interface{}{"case": c, "observed_events": firstObs.Events}
			}
			return res
		},
		CrashIsViolation: d.id == "C01",
		CrashSig:         "C01/cycle-did-not-complete",
		MinNontrivial:    50,
		CaseTimeout:      180e9,
		Exhaustive:       func(string) bool { return false },
	})
}

func anyNotInSync(v *view) bool {
	for i := 0; i < v.n; i++ {
		if !v.insync[i] {
			return true
		}
	}
	return false
}

func dedupe(vs []core.Violation) []core.Violation {
	seen := map[string]bool{}
	var out []core.Violation
	for _, v := range vs {
		if seen[v.Sig] {
			continue
		}
		seen[v.Sig] = true
		out = append(out, v)
	}
	return out
}

// digits decodes idx in a mixed radix system (least significant first).
func digits(idx int, radix ...int) []int {
	d := make([]int, len(radix))
	for i, r := range radix {
		d[i] = idx % r
		idx /= r
	}
	return d
}

func prod(radix ...int) int {
	p := 1
	for _, r := range radix {
		p *= r
	}
	return p
}

func init() {
	registerC01()
	registerC04()
	registerC05()
	registerC07()
	registerC08()
}

// ---------------------------------------------------------------------------
// C01

func registerC01() {
	states := []string{"", "in_transfer"}
	times := []uint64{0, 3}
	// family A: two copies
	radA := []int{2, 2, 2, 2, 3, 2, 2, 2}
	nA := prod(radA...)
	// family B: three copies
	radB := []int{2, 2, 2, 3, 2, 2}
	nB := prod(radB...)
	// family C: target vanished / job changed / single holder next to unhealthy shards
	nC := 24
	// family D: scale-down of a tail shard whose targets fit the front shards for SOME first-fit orders only
	// (the feasibility check and the real packing iterate the same map in independent orders)
	radD := []int{3, 3, 4, 2}
	nD := prod(radD...)
	// family E: a healthy unassigned target that still fits, but only into shards with (far) less than 1 % of free space
	// (weights of the random destination choice get very small)
	radE := []int{4, 3, 2, 2}
	nE := prod(radE...)
	direct := func(idx int) *Case {
		switch {
		case idx < nA:
			d := digits(idx, radA...)
			c := &Case{Name: "C01-A", Opt: Opt{MaxHead: 100, MaxProc: 1000, Min: 0, Max: 99}, Active: []ActiveT{{1, "job"}, {2, "job"}, {3, "job"}},
				Explore: map[uint64]*TStat{1: {Health: "up", Series: 10, Total: 10}, 2: {Health: "up", Series: 5, Total: 5}, 3: {Health: "up", Series: 5, Total: 5}}}
			if d[5] == 1 {
				c.Opt.MaxHead = 0
			}
			a := okShard().with(1, TStat{State: states[d[0]], Health: "up", Times: times[d[2]], Series: 10, Total: 10})
			b := okShard().with(1, TStat{State: states[d[1]], Health: "up", Times: times[d[3]], Series: 10, Total: 10})
			// load ordering through extra targets
			switch d[4] {
			case 0:
				b = b.with(2, up(5, 5, 5))
			case 2:
				a = a.with(2, up(5, 5, 5))
			default:
				a = a.with(2, up(5, 5, 5))
				b = b.with(3, up(5, 5, 5))
			}
			shards := []ShardScript{a, b}
			if d[6] == 1 {
				x := okShard().with(1, up(10, 10, 9))
				x.HashMode = "pushdiffer"
				if d[7] == 1 {
					shards = append([]ShardScript{x}, shards...)
				} else {
					shards = append(shards, x)
				}
			} else if d[7] == 1 {
				shards[0], shards[1] = shards[1], shards[0]
			}
			c.Cycles = oneCycle(shards...)
			return c
		case idx < nA+nB:
			d := digits(idx-nA, radB...)
			c := &Case{Name: "C01-B", Opt: Opt{MaxHead: 100, MaxProc: 1000, Min: 0, Max: 99}, Active: []ActiveT{{1, "job"}, {2, "job"}},
				Explore: map[uint64]*TStat{1: {Health: "up", Series: 10, Total: 10}, 2: {Health: "up", Series: 5, Total: 5}}}
			if d[4] == 1 {
				c.Opt.MaxHead = 0
			}
			var shards []ShardScript
			for k := 0; k < 3; k++ {
				s := okShard().with(1, TStat{State: states[d[k]], Health: "up", Times: 5, Series: 10, Total: 10})
				shards = append(shards, s)
			}
			switch d[3] {
			case 0:
				shards[0].HeadExtra, shards[1].HeadExtra = 1, 2
			case 1:
				shards[2] = shards[2].with(2, up(5, 5, 5))
			case 2:
				shards[0] = shards[0].with(2, up(5, 5, 5))
				shards[1].HeadExtra = 9
			}
			if d[5] == 1 {
				shards[1].HashMode = "pushreject"
			}
			c.Cycles = oneCycle(shards...)
			return c
		case idx >= nA+nB+nC+nD:
			d := digits(idx-nA-nB-nC-nD, radE...)
			loads := [][]int64{{994, 996}, {9990, 9995}, {997}, {996, 900}}[d[0]]
			size := []int64{1, 2, 3}[d[1]]
			limit := int64(1000)
			if d[0] == 1 {
				limit = 10000
			}
			c := &Case{Name: "C01-E", Opt: Opt{MaxHead: 0, MaxProc: limit, Min: 0, Max: 99, IdleMin: 30 * d[3]}, Explore: map[uint64]*TStat{}, Reps: 6}
			if d[2] == 1 {
				c.Opt.MaxHead = limit
			}
			var shards []ShardScript
			for i, l := range loads {
				h := uint64(1 + i)
				shards = append(shards, okShard().with(h, up(l, l, 5)))
				c.Active = append(c.Active, ActiveT{h, "job"})
				c.Explore[h] = &TStat{Health: "up", Series: l, Total: l}
			}
			c.Active = append(c.Active, ActiveT{50, "job"})
			c.Explore[50] = &TStat{Health: "up", Series: size, Total: size}
			c.Cycles = oneCycle(shards...)
			return c
		case idx >= nA+nB+nC:
			d := digits(idx-nA-nB-nC, radD...)
			loads := []int64{92, 95, 90}
			tails := [][]int64{{7, 4}, {8, 3}, {6, 5, 2}, {9, 4}}[d[2]]
			c := &Case{Name: "C01-D", Opt: Opt{MaxHead: 0, MaxProc: 100, Min: 0, Max: 99, IdleMin: 30}, Explore: map[uint64]*TStat{}, Reps: 40}
			if d[3] == 1 {
				c.Opt.MaxHead, c.Opt.MaxProc = 100, 1000
			}
			a := okShard().with(1, up(loads[d[0]], loads[d[0]], 5))
			b := okShard().with(2, up(loads[d[1]], loads[d[1]], 5))
			c.Active = []ActiveT{{1, "job"}, {2, "job"}}
			c.Explore[1] = &TStat{Health: "up", Series: loads[d[0]], Total: loads[d[0]]}
			c.Explore[2] = &TStat{Health: "up", Series: loads[d[1]], Total: loads[d[1]]}
			tail := okShard()
			for i, sz := range tails {
				h := uint64(10 + i)
				tail = tail.with(h, up(sz, sz, 5))
				c.Active = append(c.Active, ActiveT{h, "job"})
				c.Explore[h] = &TStat{Health: "up", Series: sz, Total: sz}
			}
			c.Cycles = oneCycle(a, b, tail)
			return c
		default:
			k := idx - nA - nB
			c := &Case{Name: "C01-C", Opt: Opt{MaxHead: 100, MaxProc: 100, Min: 0, Max: 99, IdleMin: 30 * (k % 2)}, Active: []ActiveT{{1, "job"}, {2, "job2"}},
				Explore: map[uint64]*TStat{1: {Health: "up", Series: 10, Total: 10}, 2: {Health: "up", Series: 10, Total: 10}, 3: nil}}
			a := okShard().with(1, up(60, 60, 4)).with(3, up(10, 10, 4)) // 3 vanished from discovery
			b := okShard().with(2, TStat{State: "in_transfer", Health: "up", Times: 7, Series: 10, Total: 10})
			x := okShard().with(2, up(10, 10, 7))
			switch (k / 2) % 6 {
			case 0:
				x.Ready = false
			case 1:
				x.StatusOK = false
			case 2:
				x.RuntimeOK = false
			case 3:
				x.HashMode = "pushdiffer"
			case 4:
				x.HashMode = "push2fail"
			case 5:
				x.HashMode = "pushmatch"
			}
			shards := []ShardScript{a, b, x}
			if k >= 12 {
				shards = []ShardScript{x, b, a, okShard().idle("expired")}
			}
			c.Cycles = oneCycle(shards...)
			return c
		}
	}
	register(&propDef{
		id: "C01",
		rule: "case = coordinator options + discovered set + explorer table + per-shard scripted reports/health for one cycle, executed R times (map order, random choice) through the real Coordinator.Run; " +
			"directed families (two and three copies of one target in every state/scrape-count/load-order combination, next to out-of-sync holders; vanished targets; a tail shard whose targets fit the front shards for some first-fit orders only, 40 repetitions each; an unassigned target that fits only into shards with less than 1 % of free space) followed by seed-determined random cases; " +
			"plus closed loops on engine E2 (48/1600): even ones with 11-13 simulated pods listed and scaled by the REAL Kubernetes managers over a client-go fake (pods created in shuffled order, targets on high ordinals, scale-down enabled in most), odd ones random fault-free workloads; orphan rule per cycle in which all shards were in sync: listed before, still discovered => listed by a remaining shard after; " +
			"plus 2/6 cases on the real binaries (engine E7): the coordinator process is killed and restarted while the sidecars keep their targets and the configuration is unchanged; at every snapshot during the first 25 cycles of the new process every target is listed by some shard; or the coordinator reloads a configuration in which only the global scrape_interval changed, and every snapshot of the next 50 cycles must show every target on some shard; " +
			"non-trivial = at least 2 shards and a discovered target reported by an in-sync shard; distinct = hash of the case with sizes bucketed",
		judge: judgeC01, nDirect: nA + nB + nC + nD + nE, direct: direct,
		nRandom: map[string]int{"quick": 20000, "thorough": 300000},
		// closed loops (engine E2), half of them with 11-13 shards listed and scaled by the real Kubernetes managers
		nExtra: map[string]int{"quick": 48 + 2, "thorough": 1600 + 6},
		extra: func(w *core.WorkerCtx, k int) *core.CaseResult {
			n := 48
			if w.Tier == "thorough" {
				n = 1600
			}
			if k >= n {
				// the real binaries: the coordinator process restarts next to sidecars that keep their targets
				return e7.Run(w, k-n, "C01")
			}
			return c01ClosedLoop(w, k)
		},
		nontriv: func(v *view) bool {
			if v.n < 2 {
				return false
			}
			for h := range v.active {
				if len(v.insyncReporters(h)) > 0 {
					return true
				}
			}
			return false
		},
	})
}

// c01ClosedLoop judges the orphan rule cycle by cycle in fault-free closed loops: even cases run 11-13 shards that
// the real Kubernetes replicas/shard managers list (pods created in shuffled order) and scale, with the targets
// sitting on high ordinals and scale-down enabled; odd cases are the random workloads of C03.
func c01ClosedLoop(w *core.WorkerCtx, k int) *core.CaseResult {
	r := core.NewRng(w.Seed, 0xC01E2, uint64(k))
	var sc e2.Scenario
	kind := "random"
	if k%2 == 0 {
		kind = "k8s"
		sc = e2.GenK8sScaleDown(r, "")
	} else {
		spec := e2.GenSpec(r)
		e2.SanitizeInitial(&spec)
		spec.K8s = k%4 == 3
		sc = e2.GenWorkload(r, spec)
	}
	sc.NoConvergence = true // convergence is C03's business
	root := e2.ScratchRoot(w.Scratch, 300000+k)
	defer os.RemoveAll(root)
	out := e2.Run(sc, root, r.Int63())
	res := &core.CaseResult{Sig: fmt.Sprintf("closed-loop/%s/%x", kind, core.HashString(fmt.Sprintf("%+v", sc))), Execs: 1}
	if strings.HasPrefix(out.Err, "coordinator died: ") && len(out.Err) > len("coordinator died: ") {
		res.Violate("C01/closed-loop/coordinator-died/"+kind, "%s", out.Err)
		res.Witness = map[string]interface{}{"scenario": sc, "trace": out.Trace}
		return res
	}
	if out.Err != "" {
		res.Inconcl = "closed loop: " + out.Err
		return res
	}
	res.AddStat("closed_loop_runs", 1)
	res.AddStat("closed_loop_orphan_rule_checks", int64(out.OrphanChecks))
	res.AddStat("closed_loop_shards_removed_by_the_coordinator", int64(out.Removals))
	res.AddSet("closed_loop_kinds", kind)
	res.AddSet("closed_loop_largest_shard_count", fmt.Sprint(out.MaxShards))
	res.Nontrivial = out.OrphanChecks > 0
	for _, v := range out.OrphanViol {
		res.Violate("C01/closed-loop/orphaned/"+kind, "%s", v)
		break
	}
	if len(res.Viol) > 0 {
		res.Witness = map[string]interface{}{"scenario": sc, "trace": out.Trace}
	}
	if k < 1 {
		res.Sample = map[string]interface{}{"closed_loop_scenario": sc, "orphan_rule_checks": out.OrphanChecks, "removals": out.Removals}
	}
	return res
}

// ---------------------------------------------------------------------------
// C04

func registerC04() {
	// family A: first assignment at the boundary: load = limit - size + delta
	radA := []int{3, 2, 2, 3, 2} // delta(-1,0,+1), which limit, head limit on/off, size choice, idle mode
	nA := prod(radA...)
	// family B: head relief at each threshold, destination limited by process series
	radB := []int{4, 3, 3, 2}
	nB := prod(radB...)
	// family C: process relief
	radC := []int{3, 3, 2}
	nC := prod(radC...)
	// family D: scale-down emptying the tail
	radD := []int{3, 3, 2, 2}
	nD := prod(radD...)
	// family E: oversized targets
	radE := []int{4, 2, 3, 2}
	nE := prod(radE...)
	// family F: several placements on one destination
	radF := []int{4, 2, 2}
	nF := prod(radF...)
	direct := func(idx int) *Case {
		switch {
		case idx < nA:
			d := digits(idx, radA...)
			size := []int64{10, 50, 1}[d[3]]
			c := &Case{Name: "C04-A", Opt: Opt{MaxHead: 100, MaxProc: 150, Min: 0, Max: 99, IdleMin: 30 * d[4]}, Active: []ActiveT{{1, "job"}, {9, "job"}},
				Explore: map[uint64]*TStat{1: {Health: "up", Series: size, Total: size + 5}}}
			if d[2] == 1 {
				c.Opt.MaxHead = 0
			}
			delta := int64(d[0] - 1)
			s := okShard()
			if d[1] == 0 { // head boundary
				load := 100 - size + delta
				s = s.with(9, up(load-3, load-3, 5))
				s.HeadExtra = 3
			} else { // process boundary
				load := 150 - (size + 5) + delta
				s = s.with(9, up(20, load, 5))
			}
			c.Cycles = oneCycle(s)
			return c
		case idx < nA+nB:
			d := digits(idx-nA, radB...)
			th := []int64{110, 140, 160, 180}[d[0]]
			c := &Case{Name: "C04-B", Opt: Opt{MaxHead: 100, MaxProc: 150, Min: 0, Max: 99, IdleMin: 30 * d[3]}, Active: []ActiveT{{1, "job"}, {2, "job"}, {3, "job"}, {4, "job"}},
				Explore: map[uint64]*TStat{}}
			src := okShard().with(1, up(40, 40, 5)).with(2, up(30, 30+int64(d[1])*40, 5))
			src.HeadExtra = th - 70 + int64(d[1]) - 1
			// destination: plenty of head room, process room varies
			procLoad := []int64{20, 100, 125}[d[2]]
			dst := okShard().with(3, up(5, procLoad, 5))
			c.Cycles = oneCycle(src, dst)
			return c
		case idx < nA+nB+nC:
			d := digits(idx-nA-nB, radC...)
			c := &Case{Name: "C04-C", Opt: Opt{MaxHead: 100, MaxProc: 150, Min: 0, Max: 99}, Active: []ActiveT{{1, "job"}, {2, "job"}, {3, "job"}},
				Explore: map[uint64]*TStat{}}
			if d[2] == 1 {
				c.Opt.MaxHead = 0
			}
			src := okShard().with(1, up(20, 100, 5)).with(2, up(20, 50+int64(d[0]), 5))
			headLoad := []int64{10, 79, 80}[d[1]]
			dst := okShard().with(3, up(headLoad, 60, 5))
			c.Cycles = oneCycle(src, dst)
			return c
		case idx < nA+nB+nC+nD:
			d := digits(idx-nA-nB-nC, radD...)
			c := &Case{Name: "C04-D", Opt: Opt{MaxHead: 100, MaxProc: 150, Min: 0, Max: 99, IdleMin: 30}, Active: []ActiveT{{1, "job"}, {2, "job"}, {3, "job"}, {4, "job"}},
				Explore: map[uint64]*TStat{}}
			if d[3] == 1 {
				c.Opt.MaxHead = 0
			}
			head0 := []int64{50, 79, 80}[d[0]]
			proc0 := []int64{50, 119, 120}[d[1]]
			s0 := okShard().with(1, up(head0, proc0, 5))
			s1 := okShard().with(2, up(20, 30, 5))
			if d[2] == 1 {
				s1 = s1.with(3, up(15, 15, 5))
			}
			c.Cycles = oneCycle(s0, s1, okShard().idle("expired"))
			return c
		case idx < nA+nB+nC+nD+nE:
			d := digits(idx-nA-nB-nC-nD, radE...)
			ex := []TStat{{Health: "up", Series: 101, Total: 101}, {Health: "up", Series: 50, Total: 151}, {Health: "up", Series: 99, Total: 400}, {Health: "up", Series: 400, Total: 400}}[d[0]]
			c := &Case{Name: "C04-E", Opt: Opt{MaxHead: 100, MaxProc: 150, Min: 0, Max: 99, IdleMin: 30 * d[3]}, Active: []ActiveT{{1, "job"}, {2, "job"}},
				Explore: map[uint64]*TStat{1: &ex}}
			if d[1] == 1 {
				c.Opt.MaxHead = 0
			}
			var shards []ShardScript
			for k := 0; k <= d[2]; k++ {
				if k == 0 {
					shards = append(shards, okShard().with(2, up(10, 10, 5)))
				} else {
					shards = append(shards, okShard().idle("fresh"))
				}
			}
			c.Cycles = oneCycle(shards...)
			return c
		default:
			d := digits(idx-nA-nB-nC-nD-nE, radF...)
			k := 2 + d[0]
			c := &Case{Name: "C04-F", Opt: Opt{MaxHead: 100, MaxProc: 150, Min: 0, Max: 99, IdleMin: 30 * d[1]}, Explore: map[uint64]*TStat{}}
			if d[2] == 1 {
				c.Opt.MaxHead = 0
			}
			for h := uint64(1); h <= uint64(k); h++ {
				c.Active = append(c.Active, ActiveT{h, "job"})
				c.Explore[h] = &TStat{Health: "up", Series: 30, Total: 45}
			}
			c.Cycles = oneCycle(okShard().idle("fresh"), okShard().idle("fresh"))
			return c
		}
	}
	register(&propDef{
		id: "C04",
		rule: "same engine as C01 with boundary-biased loads; directed families force each placement path (first assignment first-fit and weighted, head relief at every threshold, process relief, scale-down emptying the tail, oversized targets, several placements on one destination) with load+size at limit-1/limit/limit+1; " +
			"plus real-process cases (2/8, engine E7): estimates from the real explorer probing 80-130 KB bodies (several parser blocks), a process limit two targets fit under and three do not, one oversized target with few kept series, one big target whose first answer breaks off after 40 lines with a TCP reset, and in every second case a collect[] param with two values that each add 700 samples to every answer (six targets that fit two per shard, or two targets and one that exceeds the limit only with both collectors), and cases in which the collect[] param arrives with a reload together with such a target; at every snapshot the farm's TRUE totals of the targets a shard lists stay below the limit; " +
			"non-trivial = at least one placement observed or an oversized eligible target present; distinct = hash of the case with sizes bucketed",
		judge: judgeC04, nDirect: nA + nB + nC + nD + nE + nF, direct: direct,
		// real processes: the estimates come from the real explorer probing targets with bodies of several parser blocks
		nExtra:  map[string]int{"quick": 3, "thorough": 8},
		extra:   func(w *core.WorkerCtx, k int) *core.CaseResult { return e7.Run(w, k, "C04") },
		bias:    genBias{unhealthyPer12: 2},
		nRandom: map[string]int{"quick": 20000, "thorough": 300000},
		nontriv: func(v *view) bool {
			for j := 0; j < v.n; j++ {
				if v.insync[j] && len(v.placed(j)) > 0 {
					return true
				}
			}
			for h := range v.active {
				if e := v.c.Explore[h]; e != nil && e.Health == "up" && v.oversized(e.Series, e.Total) && !v.reachReported(h) {
					return true
				}
			}
			return false
		},
	})
}

// ---------------------------------------------------------------------------
// C05

func registerC05() {
	cnt := []uint64{0, 1, 2, 3, 4, 10}
	radA := []int{6, 6, 2, 3, 2} // src count, dst count, dst health, load order, head limit
	nA := prod(radA...)
	radB := []int{4, 2, 2} // begin: relief threshold, idle mode, head limit
	nB := prod(radB...)
	radC := []int{3, 2} // begin: scale-down
	nC := prod(radC...)
	direct := func(idx int) *Case {
		switch {
		case idx < nA:
			d := digits(idx, radA...)
			c := &Case{Name: "C05-A", Opt: Opt{MaxHead: 100, MaxProc: 1000, Min: 0, Max: 99}, Active: []ActiveT{{1, "job"}, {2, "job"}, {3, "job"}}, Explore: map[uint64]*TStat{}}
			if d[4] == 1 {
				c.Opt.MaxHead = 0
			}
			src := okShard().with(1, TStat{State: "in_transfer", Health: "up", Times: cnt[d[0]], Series: 10, Total: 10})
			dst := okShard().with(1, TStat{State: "", Health: []string{"up", "down"}[d[2]], Times: cnt[d[1]], Series: 10, Total: 10})
			switch d[3] {
			case 0:
				src = src.with(2, up(20, 20, 5))
			case 1:
				dst = dst.with(2, up(20, 20, 5))
			default:
				src = src.with(2, up(20, 20, 5))
				dst = dst.with(3, up(20, 20, 5))
			}
			c.Cycles = oneCycle(src, dst)
			return c
		case idx < nA+nB:
			d := digits(idx-nA, radB...)
			th := []int64{110, 140, 160, 180}[d[0]]
			c := &Case{Name: "C05-B", Opt: Opt{MaxHead: 100, MaxProc: 1000, Min: 0, Max: 99, IdleMin: 30 * d[1]}, Active: []ActiveT{{1, "job"}, {2, "job"}, {3, "job"}}, Explore: map[uint64]*TStat{}}
			src := okShard().with(1, up(40, 40, 5)).with(2, up(30, 30, 5))
			src.HeadExtra = th - 70
			if d[2] == 1 { // process relief instead
				c.Opt.MaxHead = 0
				c.Opt.MaxProc = 60
				src.HeadExtra = 0
			}
			c.Cycles = oneCycle(src, okShard().with(3, up(5, 5, 5)), okShard().idle("fresh"))
			return c
		default:
			d := digits(idx-nA-nB, radC...)
			c := &Case{Name: "C05-C", Opt: Opt{MaxHead: 100, MaxProc: 1000, Min: 0, Max: 99, IdleMin: 30}, Active: []ActiveT{{1, "job"}, {2, "job"}, {3, "job"}}, Explore: map[uint64]*TStat{}}
			if d[1] == 1 {
				c.Opt.MaxHead = 0
			}
			tail := okShard().with(2, up(10, 10, 5))
			if d[0] >= 1 {
				tail = tail.with(3, up(10, 10, uint64(d[0]-1)*5))
			}
			c.Cycles = oneCycle(okShard().with(1, up(20, 20, 5)), tail, okShard().idle("expired"))
			return c
		}
	}
	register(&propDef{
		id: "C05",
		rule: "same engine; directed: every (source count, destination count) in {0,1,2,3,4,10}^2 x destination health x load ordering for a pending move, and moves begun by head relief at every threshold, process relief and scale-down; then random cases biased towards in-transfer copies; " +
			"non-trivial = a move begins or an in-transfer copy on an in-sync shard is present; distinct = hash of the case with sizes bucketed",
		judge: judgeC05, nDirect: nA + nB + nC, direct: direct,
		bias:    genBias{unhealthyPer12: 2, moreTransfers: true},
		nRandom: map[string]int{"quick": 20000, "thorough": 300000},
		nExtra:  map[string]int{"quick": 160, "thorough": 4000},
		extra:   c05ClosedLoop,
		nontriv: func(v *view) bool {
			for i := 0; i < v.n; i++ {
				if !v.insync[i] {
					continue
				}
				for h, t := range v.R(i) {
					if t.State == "in_transfer" && v.active[h] {
						return true
					}
					if t.State == "" && v.sent[i][h] == "in_transfer" {
						return true
					}
				}
			}
			return false
		},
	})
}

// ---------------------------------------------------------------------------
// C07

var c07Kinds = []string{"loaded", "idle-fresh", "idle-expired", "unready", "out-of-sync", "unreachable"}

func c07Shard(kind string, pos int) ShardScript {
	s := okShard()
	switch kind {
	case "loaded":
		s = s.with(uint64(100+pos), up(30, 30, 5))
	case "idle-fresh":
		s.IdleKind = "fresh"
	case "idle-expired":
		s.IdleKind = "expired"
	case "unready":
		s.Ready = false
		s = s.with(uint64(100+pos), up(30, 30, 5))
	case "out-of-sync":
		s.HashMode = "pushdiffer"
		s = s.with(uint64(100+pos), up(30, 30, 5))
	case "unreachable":
		s.StatusOK = false
		s = s.with(uint64(100+pos), up(30, 30, 5))
	}
	return s
}

func registerC07() {
	nTuples := 6 + 36 + 216 + 1296
	minmax := [][2]int32{{0, 99}, {2, 3}, {3, 3}, {0, 1}, {5, 9}}
	rad := []int{nTuples, 4, 5, 2}
	nA := prod(rad...)
	// family B: an overloaded shard whose excess fits nowhere (space is needed) next to a second overloaded
	// shard that relief can fully relieve, and an expired idle tail without room (stale head series)
	radB := []int{2, 3, 2, 2, 2}
	nB := prod(radB...)
	// family C: expired idle tail shard(s) behind a shard whose targets do not all fit the tightly packed front:
	// emptying that shard must not use the very shards that are about to be removed
	radC := []int{3, 3, 2, 2, 2}
	nC := prod(radC...)
	directA := func(idx int) *Case { return nil }
	direct := func(idx int) *Case {
		if idx >= nA+nB {
			d := digits(idx-nA-nB, radC...)
			front := []int64{90, 95, 80}[d[0]]
			// the shard itself must be too full for a second copy of the target that fits nowhere in front
			mid := [][]int64{{40, 40}, {60, 30}, {45, 45, 5}}[d[1]]
			c := &Case{Name: "C07-C", Opt: Opt{MaxHead: 0, MaxProc: 100, Min: 0, Max: 99, IdleMin: 30}, Explore: map[uint64]*TStat{}, Reps: 8}
			if d[2] == 1 {
				c.Opt.MaxHead, c.Opt.MaxProc = 100, 1000
			}
			add := func(s ShardScript, h uint64, sz int64) ShardScript {
				c.Active = append(c.Active, ActiveT{h, "job"})
				c.Explore[h] = &TStat{Health: "up", Series: sz, Total: sz}
				return s.with(h, up(sz, sz, 9))
			}
			shards := []ShardScript{add(okShard(), 1, front)}
			if d[4] == 1 {
				shards = append(shards, add(okShard(), 2, front))
			}
			m := okShard()
			for i, sz := range mid {
				m = add(m, uint64(10+i), sz)
			}
			shards = append(shards, m, okShard().idle("expired"))
			if d[3] == 1 {
				shards = append(shards, okShard().idle("expired"))
			}
			c.Cycles = oneCycle(shards...)
			return c
		}
		if idx >= nA {
			d := digits(idx-nA, radB...)
			big := []int64{60, 95}[d[0]]
			c := &Case{Name: "C07-B", Opt: Opt{MaxHead: 100, MaxProc: 10000, Min: 0, Max: 99, IdleMin: 30}, Explore: map[uint64]*TStat{}, Reps: 6}
			add := func(s ShardScript, h uint64, sz int64) ShardScript {
				c.Active = append(c.Active, ActiveT{h, "job"})
				c.Explore[h] = &TStat{Health: "up", Series: sz, Total: sz}
				return s.with(h, up(sz, sz, 9))
			}
			a := add(add(okShard(), 1, big), 2, big)           // needs space: nothing of it fits anywhere
			b := add(add(add(okShard(), 3, 100), 4, 10), 5, 5) // over the threshold, relieved by moving 5 (and 10) away
			cc := add(okShard(), 6, 100-big+5)                 // room for small targets only
			if d[3] == 1 {
				cc = add(okShard(), 6, 99) // no room at all: b needs space as well
			}
			tail := okShard().idle("expired")
			tail.HeadExtra = 100 - big + 5 // stale head series: no room for a big one
			var shards []ShardScript
			switch d[1] {
			case 0:
				shards = []ShardScript{a, b, cc}
			case 1:
				shards = []ShardScript{b, a, cc}
			case 2:
				shards = []ShardScript{cc, a, b}
			}
			if d[4] == 1 {
				shards = []ShardScript{shards[0], shards[2], shards[1]}
			}
			if d[2] == 1 {
				shards = append(shards, tail, tail)
			} else {
				shards = append(shards, tail)
			}
			c.Cycles = oneCycle(shards...)
			return c
		}
		return directA(idx)
	}
	directA = func(idx int) *Case {
		d := digits(idx, rad...)
		t := d[0]
		ln := 1
		for _, sz := range []int{6, 36, 216, 1296} {
			if t < sz {
				break
			}
			t -= sz
			ln++
		}
		c := &Case{Name: "C07-A", Opt: Opt{MaxHead: 100, MaxProc: 150, Min: minmax[d[2]][0], Max: minmax[d[2]][1], IdleMin: 30 * d[3]}, Explore: map[uint64]*TStat{}}
		var shards []ShardScript
		for p := 0; p < ln; p++ {
			k := c07Kinds[t%6]
			t /= 6
			shards = append(shards, c07Shard(k, p))
			c.Active = append(c.Active, ActiveT{uint64(100 + p), "job"})
		}
		switch d[1] {
		case 1: // one small new target
			c.Active = append(c.Active, ActiveT{1, "job"})
			c.Explore[1] = &TStat{Health: "up", Series: 5, Total: 5}
		case 2: // fits only an empty shard
			c.Active = append(c.Active, ActiveT{1, "job"})
			c.Explore[1] = &TStat{Health: "up", Series: 80, Total: 80}
		case 3: // fits nowhere
			c.Active = append(c.Active, ActiveT{1, "job"})
			c.Explore[1] = &TStat{Health: "up", Series: 99, Total: 149}
			for i := range shards {
				if len(shards[i].Report) == 0 {
					shards[i].HeadExtra = 2
				}
			}
		}
		c.Cycles = oneCycle(shards...)
		return c
	}
	register(&propDef{
		id: "C07",
		rule: "same engine; directed list enumerates ALL tuples of shard kinds {loaded, idle-fresh, idle-expired, unready, out-of-sync, unreachable} over 1-4 positions x {no new target, small, fits only an empty shard, fits nowhere} x 5 (min,max) settings x max-idle-time {0, 30 min}; then random 1-5 shard cases; every ChangeScale argument of the cycle is judged, also against a sufficient condition for 'relief needs space' (a shard over the head threshold none of whose targets fits any other shard by the loads reported in the cycle: no request below the current count), with a directed family of two overloaded shards - one relievable, one not - next to an expired idle tail without room, and a family of expired idle tails behind a shard whose targets do not all fit the tightly packed front; " +
			"plus closed-loop cases (E2: real sidecars, simulated StatefulSet) with max-idle-time 0 / 1000 h / 150-250 ms of real time: every shard the coordinator removes is judged against the harness clock - it was seen holding targets, or was created, at a known instant, so it can have been idle for at most the span since then (one-sided: load only lengthens the span); a third of them a directed sequence in which an idle tail shard receives a target in an update whose Prometheus reload fails / is dropped / loses its answer, more than max-idle-time passes and the target disappears again; " +
			"the closed-loop family includes (k%8==5) 11-13 pods listed and scaled by the real Kubernetes managers with max-idle-time 150 ms under the removal monitor; " +
			"non-trivial = at least one scale request observed in a case with 2+ shards or an idle shard; distinct = hash of the case with sizes bucketed",
		judge: judgeC07, nDirect: nA + nB + nC, direct: direct,
		nRandom: map[string]int{"quick": 10000, "thorough": 200000},
		reps:    map[string]int{"quick": 2, "thorough": 6},
		nontriv: func(v *view) bool { return len(v.scales) > 0 && v.n >= 2 },
		exhaust: true,
		nExtra:  map[string]int{"quick": 96, "thorough": 1600},
		extra:   c07ClosedLoop,
	})
}

// c07ClosedLoop: scale-down on real sidecars. Whatever the sidecars report, a shard the coordinator
// removes must have been idle for longer than max-idle-time by the HARNESS' clock (it was seen holding
// targets, or created, at a known instant; load only lengthens the measured span, so the rule cannot
// fire on correct code). Worlds with max-idle-time 0 or 1000 h must never shrink at all.
// Every third case is a directed sequence: a tail shard goes idle, receives a target before the idle
// time expires - in an update whose Prometheus reload fails -, more than max-idle-time passes, the
// target disappears again: the shard has then been idle for milliseconds.
func c07ClosedLoop(w *core.WorkerCtx, k int) *core.CaseResult {
	r := core.NewRng(w.Seed, 0xC07E2, uint64(k))
	var sc e2.Scenario
	kind := "random"
	if k%3 == 0 {
		kind = "directed"
		t := func(id, kept int) e2.TargetSpec { return e2.TargetSpec{ID: id, Kept: kept, Explorer: "up"} }
		big := r.PickI(70, 80, 90)
		spec := e2.Spec{MaxHead: 100, MaxProc: 150, Min: int32(r.PickI(0, 1)), Max: 4, Idle: "250ms", InitShards: 2, KeepPVC: r.Intn(2) == 0,
			Targets: []e2.TargetSpec{t(0, big), t(1, 60)},
			Initial: []e2.Placement{{Shard: 0, ID: 0}, {Shard: 1, ID: 1}}}
		fault := r.PickS("failReload", "failReload", "dropPost", "loseAck", "none")
		sc = e2.Scenario{Spec: spec, Perturbed: 9}
		sc.Events = append(sc.Events, e2.Event{AtCycle: 1, Kind: "remove", Target: e2.TargetSpec{ID: 1}})
		sc.Events = append(sc.Events, e2.Event{AtCycle: 3, Kind: "add", Target: t(2, r.PickI(40, 60))})
		if fault != "none" {
			sc.Events = append(sc.Events, e2.Event{AtCycle: 3, Kind: fault, Shard: 1, Cycles: 1})
		}
		sc.Events = append(sc.Events, e2.Event{AtCycle: 5, Kind: "sleep", Cycles: 320})
		sc.Events = append(sc.Events, e2.Event{AtCycle: 6, Kind: "remove", Target: e2.TargetSpec{ID: 2}})
		for c := 0; c < sc.Perturbed; c++ {
			sc.ScrapePlan = append(sc.ScrapePlan, []int{3, 3, 3, 3})
		}
	} else if k%8 == 5 {
		// 11-13 shards listed and scaled by the real Kubernetes managers, the targets on high ordinals
		kind = "k8s"
		sc = e2.GenK8sScaleDown(r, "150ms")
	} else {
		spec := e2.GenSpec(r)
		e2.SanitizeInitial(&spec)
		spec.Idle = r.PickS("0", "1000h", "150ms", "150ms")
		sc = e2.GenWorkload(r, spec)
		if k%3 == 1 {
			kinds := []string{"restart", "dropPost", "loseAck", "unready", "failStatus", "failReload", "failRuntime"}
			sc.Events = append(sc.Events, e2.Event{AtCycle: r.Intn(sc.Perturbed), Kind: kinds[r.Intn(len(kinds))], Shard: r.Intn(3), Cycles: 1})
		}
		if spec.Idle == "150ms" {
			sc.Events = append(sc.Events, e2.Event{AtCycle: sc.Perturbed - 1, Kind: "sleep", Cycles: 170})
		}
	}
	sc.NoConvergence = true // convergence is C03's business; 12 quiet cycles are enough here
	root := e2.ScratchRoot(w.Scratch, 200000+k)
	defer os.RemoveAll(root)
	out := e2.Run(sc, root, r.Int63())
	res := &core.CaseResult{Sig: fmt.Sprintf("closed-loop/%s/%x", kind, core.HashString(fmt.Sprintf("%+v", sc))), Execs: 1}
	if out.Err != "" {
		res.Inconcl = "closed loop: " + out.Err
		return res
	}
	res.AddStat("closed_loop_runs", 1)
	res.AddStat("closed_loop_shards_removed_by_the_coordinator", int64(out.Removals))
	res.AddSet("closed_loop_idle_settings", sc.Spec.Idle)
	res.Nontrivial = true
	for _, v := range out.RemovalViol {
		res.Violate("C07/closed-loop/removed-before-idle-time/"+kind, "%s", v)
		break
	}
	if len(res.Viol) > 0 {
		res.Witness = map[string]interface{}{"scenario": sc, "trace": out.Trace}
	}
	if k < 1 {
		res.Sample = map[string]interface{}{"closed_loop_scenario": sc, "removals": out.Removals}
	}
	return res
}

// ---------------------------------------------------------------------------
// C08

var c08Kinds = []string{"ok", "unready", "nostatus", "noruntime", "pushmatch", "pushdiffer", "pushreject", "push2fail"}

func registerC08() {
	nTuples := 8 + 64 + 512 + 4096
	rad := []int{nTuples, 3, 2}
	nA := prod(rad...)
	// family B: TWO cycles of one coordinator; the same shard reports another hash in both (its sidecar came back
	// without the configuration after it had accepted the push): every time it is first sent the raw configuration
	pushKinds := []string{"pushmatch", "pushdiffer", "pushreject", "push2fail"}
	radB := []int{4, 4, 2, 3}
	nB := prod(radB...)
	direct := func(idx int) *Case {
		if idx >= nA {
			d := digits(idx-nA, radB...)
			c := &Case{Name: "C08-B", Opt: Opt{MaxHead: 100, MaxProc: 150, Min: 0, Max: 99, IdleMin: 30}, Explore: map[uint64]*TStat{}}
			mk := func(kind string) []ShardScript {
				bad := okShard().with(100, up(20, 20, 5))
				bad.HashMode = kind
				good := okShard().with(101, up(20, 20, 5))
				if d[2] == 1 {
					return []ShardScript{good, bad}
				}
				return []ShardScript{bad, good}
			}
			c.Active = []ActiveT{{100, "job"}, {101, "job"}}
			for h := uint64(1); h <= uint64(d[3]); h++ {
				c.Active = append(c.Active, ActiveT{h, "job"})
				c.Explore[h] = &TStat{Health: "up", Series: 10, Total: 10}
			}
			c.Cycles = [][]Replica{{{Shards: mk(pushKinds[d[0]])}}, {{Shards: mk(pushKinds[d[1]])}}}
			return c
		}
		d := digits(idx, rad...)
		t := d[0]
		ln := 1
		for _, sz := range []int{8, 64, 512, 4096} {
			if t < sz {
				break
			}
			t -= sz
			ln++
		}
		c := &Case{Name: "C08-A", Opt: Opt{MaxHead: 100, MaxProc: 150, Min: 0, Max: 99, IdleMin: 30 * d[2]}, Explore: map[uint64]*TStat{}}
		var shards []ShardScript
		for p := 0; p < ln; p++ {
			k := c08Kinds[t%8]
			t /= 8
			s := okShard()
			switch k {
			case "unready":
				s.Ready = false
			case "nostatus":
				s.StatusOK = false
			case "noruntime":
				s.RuntimeOK = false
			case "ok":
			default:
				s.HashMode = k
			}
			h := uint64(100 + p)
			c.Active = append(c.Active, ActiveT{h, "job"})
			switch d[1] {
			case 0: // new targets pending
				s = s.with(h, up(20, 20, 5))
			case 1: // relief pending: everybody overloaded in head series
				s = s.with(h, up(40, 40, 5)).with(h+50, up(40, 40, 5))
				s.HeadExtra = 45
				c.Active = append(c.Active, ActiveT{h + 50, "job"})
			case 2: // scale-down pending: small loads, tail wants to be emptied
				s = s.with(h, up(5, 5, 5))
			}
			shards = append(shards, s)
		}
		if d[1] == 0 {
			for h := uint64(1); h <= 3; h++ {
				c.Active = append(c.Active, ActiveT{h, "job"})
				c.Explore[h] = &TStat{Health: "up", Series: 10, Total: 10}
			}
		}
		if d[1] == 2 {
			shards = append(shards, okShard().idle("expired"))
		}
		c.Cycles = oneCycle(shards...)
		return c
	}
	register(&propDef{
		id: "C08",
		rule: "same engine; directed list enumerates ALL tuples of shard kinds {ok, unready, status-GET fails, runtime-GET fails, push accepted->match, push accepted->still differs, push rejected, push accepted->second GET fails} over 1-4 positions x pending work {new targets, relief, scale-down} x idle mode; then random cases with a high share of unhealthy shards; the per-shard request log is judged; " +
			"plus 96 two-cycle cases on one coordinator object in which the same shard reports another hash in both cycles (push kinds x push kinds x position x pending work); " +
			"plus 1/4 closed loops (engine E2, real api.Get / api.Post over loopback): one shard lists 9000-16500 targets (status answer above 1.25 MiB), is reachable but reports another hash and rejects the push for two cycles: no target update to it, none of its targets given to the other shard, then it takes part again; " +
			"non-trivial = at least one shard not in sync and at least one in sync, or a hash-mismatch shard; distinct = hash of the case with sizes bucketed",
		judge: judgeC08, nDirect: nA + nB, direct: direct,
		// closed loop (engine E2, real api.Get/api.Post): one shard with 9000-16500 targets, reachable and out of sync
		nExtra:  map[string]int{"quick": e2.C08BigCases("quick"), "thorough": e2.C08BigCases("thorough")},
		extra:   e2.RunC08Big,
		bias:    genBias{unhealthyPer12: 6},
		nRandom: map[string]int{"quick": 10000, "thorough": 200000},
		reps:    map[string]int{"quick": 2, "thorough": 6},
		nontriv: func(v *view) bool {
			a, b := false, false
			for i := 0; i < v.n; i++ {
				if v.insync[i] {
					a = true
				} else {
					b = true
				}
			}
			return a && b
		},
	})
}

var _ = fmt.Sprint

// c05ClosedLoop: the hand-over rule on real sidecars, judged with scrape counts the harness takes itself.
func c05ClosedLoop(w *core.WorkerCtx, k int) *core.CaseResult {
	r := core.NewRng(w.Seed, 0xC05E2, uint64(k))
	spec := e2.GenSpec(r)
	e2.SanitizeInitial(&spec)
	sc := e2.GenWorkload(r, spec)
	if k%8 == 7 {
		// directed: relief moves targets from the overloaded shard 0 to shard 1, whose Prometheus scrapes rarely;
		// the DESTINATION's sidecar restarts (its volume survives) one to three cycles after the moves began -
		// whatever it reports afterwards, the source copies may only go when the destination has really scraped
		t := func(id, kept int) e2.TargetSpec { return e2.TargetSpec{ID: id, Kept: kept, Explorer: "up"} }
		spec = e2.Spec{MaxHead: 100, MaxProc: 150, Min: 2, Max: 8, Idle: "1000h", InitShards: 2, KeepPVC: true,
			Targets: []e2.TargetSpec{t(0, 60), t(1, 49), t(2, 30)},
			Initial: []e2.Placement{{Shard: 0, ID: 0}, {Shard: 0, ID: 1}, {Shard: 0, ID: 2}}}
		sc = e2.Scenario{Spec: spec, Perturbed: 8}
		sc.Events = []e2.Event{{AtCycle: 1 + r.Intn(3), Kind: "restart", Shard: 1, Cycles: 1}}
		for c := 0; c < sc.Perturbed; c++ {
			dst := 0
			if c >= 5 {
				dst = 1
			}
			sc.ScrapePlan = append(sc.ScrapePlan, []int{3, dst, 3, 3, 3, 3, 3, 3})
		}
	}
	if k%8 == 3 {
		// directed: the same relief, but the update that marks the targets in_transfer on the overloaded source is
		// LOST in the cycle the moves begin (the destination gets its copies); the destination's Prometheus
		// scrapes rarely: the source copies may only go when the destination has really scraped them three times
		t := func(id, kept int) e2.TargetSpec { return e2.TargetSpec{ID: id, Kept: kept, Explorer: "up"} }
		spec = e2.Spec{MaxHead: 100, MaxProc: 150, Min: 2, Max: 8, Idle: "1000h", InitShards: 2, KeepPVC: true,
			Targets: []e2.TargetSpec{t(0, 60), t(1, 49), t(2, r.PickI(20, 30))},
			Initial: []e2.Placement{{Shard: 0, ID: 0}, {Shard: 0, ID: 1}, {Shard: 0, ID: 2}}}
		sc = e2.Scenario{Spec: spec, Perturbed: 8}
		sc.Events = []e2.Event{{AtCycle: 1, Kind: "dropPost", Shard: 0, Cycles: 1}}
		for c := 0; c < sc.Perturbed; c++ {
			dst := 1
			if c%3 == 2 {
				dst = 0
			}
			sc.ScrapePlan = append(sc.ScrapePlan, []int{3, dst, 3, 3, 3, 3, 3, 3})
		}
	}
	// a third of the runs with a restart / lost update in the middle of moves
	if k%3 == 0 && k%8 != 7 && k%8 != 3 {
		kinds := []string{"restart", "dropPost", "loseAck", "unready", "failStatus"}
		sc.Events = append(sc.Events, e2.Event{AtCycle: r.Intn(sc.Perturbed), Kind: kinds[r.Intn(len(kinds))], Shard: r.Intn(3), Cycles: 1})
	}
	// another third: one pod cannot build the job's HTTP client for the whole run (its proxy rejects every
	// scrape of that job without contacting the target): no move INTO that pod may ever complete
	if k%3 == 1 && k%8 != 7 && k%8 != 3 {
		sc.Events = append(sc.Events, e2.Event{AtCycle: 0, Kind: "noJobClient", Shard: r.Intn(2), Cycles: 1})
		sc.NoConvergence = true
	}
	root := e2.ScratchRoot(w.Scratch, 100000+k)
	defer os.RemoveAll(root)
	out := e2.Run(sc, root, r.Int63())
	res := &core.CaseResult{Sig: fmt.Sprintf("closed-loop/%x", core.HashString(fmt.Sprintf("%+v", sc))), Execs: 1}
	if out.Err != "" {
		res.Inconcl = "closed loop: " + out.Err
		return res
	}
	res.AddStat("closed_loop_runs", 1)
	res.AddStat("closed_loop_moves_begun", int64(out.Moves))
	res.AddStat("closed_loop_handovers_judged_with_own_counts", int64(out.IndependentHandovers))
	res.AddStat("closed_loop_moves_judged_whose_mark_was_lost", int64(out.LostMarkMoves))
	res.Nontrivial = out.IndependentHandovers > 0
	for _, v := range out.HandoverViol2 {
		res.Violate("C05/closed-loop/early-removal", "%s", v)
		break
	}
	for _, v := range out.HandoverViol {
		res.Violate("C05/closed-loop/early-removal-by-reported-counts", "%s", v)
		break
	}
	if !sc.NoConvergence { // a pod without job client legitimately requests nothing
		for _, v := range out.GapViol {
			res.Violate("C05/closed-loop/scrape-gap", "%s", v)
			break
		}
	}
	if len(res.Viol) > 0 {
		res.Witness = map[string]interface{}{"scenario": sc, "trace": out.Trace}
	}
	if k < 1 {
		res.Sample = map[string]interface{}{"closed_loop_scenario": sc, "moves_begun": out.Moves, "handovers_judged": out.IndependentHandovers}
	}
	return res
}
