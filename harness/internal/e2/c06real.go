package e2

import (
	"bytes"
	"encoding/json"
	"fmt"
	"io"
	"net/http"
	"net/http/httptest"
	"os"
	"path/filepath"
	"sort"
	"strconv"
	"strings"
	"sync/atomic"

	"github.com/go-kit/log"
	"github.com/prometheus/prometheus/config"
	pdisc "github.com/prometheus/prometheus/discovery"
	"github.com/prometheus/prometheus/model/labels"

	"kvassverif/internal/core"
	"kvassverif/internal/e3"
	"tkestack.io/kvass/pkg/shard"
	"tkestack.io/kvass/pkg/target"
)

// The restart fault on the REAL `kvass sidecar` process (the in-process sidecars of the closed loop are
// wired by the harness; the order in which cmd/kvass registers callbacks and loads the store exists only
// in the real command). A shard holding targets is killed and started again on the same volume; the
// coordinator, seeing a shard without configuration hash, pushes the configuration again - and, seeing
// the assignment it wants in the shard's status, posts NO targets. From then on the shard's Prometheus
// must be given exactly the resumed targets (generated file), or they stay unscraped for ever.

const c06RealQuick, c06RealThorough = 8, 64

const c06RealCfg = `global:
  scrape_interval: 15s
scrape_configs:
- job_name: ja
  static_configs:
  - targets: ['unused.example:1']
- job_name: jb
  metrics_path: /other
  static_configs:
  - targets: ['unused.example:2']
`

func c06GenFileHashes(path string) (map[string][]uint64, error) {
	b, err := os.ReadFile(path)
	if err != nil {
		return nil, err
	}
	cfg, err := config.Load(string(b), false, log.NewNopLogger())
	if err != nil {
		return nil, fmt.Errorf("generated file does not load: %v", err)
	}
	out := map[string][]uint64{}
	for _, j := range cfg.ScrapeConfigs {
		out[j.JobName] = nil
		for _, sd := range j.ServiceDiscoveryConfigs {
			if st, ok := sd.(pdisc.StaticConfig); ok {
				for _, g := range st {
					if h, err := strconv.ParseUint(string(g.Labels["__param__hash"]), 10, 64); err == nil {
						out[j.JobName] = append(out[j.JobName], h)
					}
				}
			}
		}
		sort.Slice(out[j.JobName], func(a, b int) bool { return out[j.JobName][a] < out[j.JobName][b] })
	}
	return out, nil
}

func runC06Real(w *core.WorkerCtx, k int) *core.CaseResult { return RealRestartCase(w, k, "C06") }

// RealRestartCase is shared with C11 (the generated file after a restart), which reports under its own id.
func RealRestartCase(w *core.WorkerCtx, k int, prop string) *core.CaseResult {
	r := core.NewRng(w.Seed, 0xC06EA1, uint64(k))
	cfgMode := []string{"pushed", "file"}[k%2]
	res := &core.CaseResult{Sig: fmt.Sprintf("real-sidecar-restart/%s/%d", cfgMode, k), Nontrivial: true}
	bin := filepath.Join(os.Getenv("VERIF_ROOT"), "bin", "kvass")
	if _, err := os.Stat(bin); err != nil {
		res.Inconcl = "kvass binary not built: " + err.Error()
		return res
	}
	var tsdb, reloads int64
	fake := httptest.NewServer(http.HandlerFunc(func(rw http.ResponseWriter, rq *http.Request) {
		rw.Header().Set("Content-Type", "application/json")
		if strings.HasSuffix(rq.URL.Path, "/status/tsdb") {
			atomic.AddInt64(&tsdb, 1)
			io.WriteString(rw, `{"status":"success","data":{"headStats":{"numSeries":0}}}`)
			return
		}
		if strings.HasSuffix(rq.URL.Path, "/-/reload") {
			atomic.AddInt64(&reloads, 1)
		}
		io.WriteString(rw, `{"status":"success"}`)
	}))
	defer fake.Close()
	dir := filepath.Join(w.Scratch, fmt.Sprintf("c06real-%d", k))
	_ = os.MkdirAll(dir, 0755)
	defer os.RemoveAll(dir)
	var extra []string
	if cfgMode == "file" {
		f := filepath.Join(dir, "prometheus.yml")
		if err := os.WriteFile(f, []byte(c06RealCfg), 0644); err != nil {
			res.Inconcl = err.Error()
			return res
		}
		extra = append(extra, "--config.file="+f)
	}
	// the assignment
	assign := map[string][]*target.Target{}
	want := map[string][]uint64{}
	n := 1 + r.Intn(6)
	for i := 0; i < n; i++ {
		h := uint64(1001 + i)
		j := r.PickS("ja", "ja", "jb")
		t := &target.Target{Hash: h, Series: 10, TargetState: r.PickS("", "", "in_transfer")}
		t.Labels = append(t.Labels, lbl("__address__", fmt.Sprintf("10.2.0.%d:9100", i+1)), lbl("__scheme__", "http"), lbl("__metrics_path__", "/metrics"), lbl("instance", fmt.Sprintf("i%d", h)), lbl("job", j))
		assign[j] = append(assign[j], t)
		want[j] = append(want[j], h)
	}
	wantS := func() string {
		m := map[string][]uint64{}
		for j, l := range want {
			m[j] = l
		}
		for _, j := range []string{"ja", "jb"} {
			if m[j] == nil {
				m[j] = nil
			}
		}
		return fmtHashes(m)
	}()
	post := func(rs *e3.RealSidecar, path string, body interface{}) error {
		b, _ := json.Marshal(body)
		resp, err := http.Post(rs.API()+path, "application/json", bytes.NewReader(b))
		if err != nil {
			return err
		}
		defer resp.Body.Close()
		out, _ := io.ReadAll(resp.Body)
		if resp.StatusCode != 200 || !strings.Contains(string(out), `"success"`) {
			return fmt.Errorf("code %d: %.200s", resp.StatusCode, out)
		}
		return nil
	}
	outFile := filepath.Join(dir, "out.yaml")
	var trace []string
	for life := 0; life < 3; life++ {
		rs, err := e3.StartRealSidecar(bin, dir, fake.URL, func() int64 { return atomic.LoadInt64(&tsdb) }, extra...)
		if err != nil {
			res.Inconcl = "real sidecar: " + err.Error()
			return res
		}
		if cfgMode == "pushed" {
			// a freshly started sidecar reports no configuration hash: the coordinator pushes the configuration
			if err := post(rs, "/api/v1/status/config/", &shard.UpdateConfigRequest{RawContent: c06RealCfg}); err != nil {
				res.Inconcl = "push config: " + err.Error()
				rs.Kill()
				return res
			}
		}
		if life == 0 {
			if err := post(rs, "/api/v1/shard/targets/", &shard.UpdateTargetsRequest{Targets: assign}); err != nil {
				res.Inconcl = "post targets: " + err.Error()
				rs.Kill()
				return res
			}
			trace = append(trace, "life 0: configuration loaded, targets posted")
		} else {
			trace = append(trace, fmt.Sprintf("life %d: restarted on the same volume, configuration %s, no targets posted (the status already shows the wanted assignment)", life, cfgMode))
		}
		got, err := c06GenFileHashes(outFile)
		res.Execs++
		res.AddStat("real_sidecar_lives", 1)
		if err != nil {
			res.Violate(prop+"/real-sidecar/generated-file-unusable", "life %d: %v", life, err)
		} else if gs := fmtHashes(got); gs != wantS {
			sig := prop + "/real-sidecar/restart-leaves-targets-out-of-generated-file"
			if life == 0 {
				sig = prop + "/real-sidecar/generated-file-differs-from-assignment"
			}
			res.Violate(sig, "life %d of the real `kvass sidecar` (%s configuration): its status lists the assignment, but the file given to Prometheus holds %s, assigned %s - the targets stay assigned and unscraped, and the coordinator has no reason to post again", life, cfgMode, gs, wantS)
		}
		if len(res.Viol) > 0 {
			res.Witness = map[string]interface{}{"trace": trace, "stderr_tail": tailS(rs.Stderr(), 1500)}
			rs.Kill()
			return res
		}
		rs.Kill()
	}
	res.AddStat("prometheus_reload_requests_seen", atomic.LoadInt64(&reloads))
	return res
}

func lbl(n, v string) labels.Label { return labels.Label{Name: n, Value: v} }

func fmtHashes(m map[string][]uint64) string {
	var js []string
	for j := range m {
		js = append(js, j)
	}
	sort.Strings(js)
	var sb strings.Builder
	for _, j := range js {
		l := append([]uint64{}, m[j]...)
		sort.Slice(l, func(a, b int) bool { return l[a] < l[b] })
		fmt.Fprintf(&sb, "%s%v ", j, l)
	}
	return sb.String()
}

func tailS(s string, n int) string {
	if len(s) > n {
		return s[len(s)-n:]
	}
	return s
}
