package e2

import (
	"fmt"
	"io"
	"net/http"
	"os"

	"kvassverif/internal/core"
)

// C08 in the closed loop with a BIG shard: one shard lists thousands of targets (its status answer is well above
// one megabyte, as on a production shard) and is reachable but out of sync for two cycles (runtimeinfo reports
// another configuration hash and the configuration push is rejected). While that lasts it must get no target
// update, and none of the targets it reports may be given to the other shard; afterwards it takes part again.

// C08BigCases per tier.
func C08BigCases(tier string) int {
	if tier == "thorough" {
		return 4
	}
	return 1
}

// RunC08Big runs one case.
func RunC08Big(w *core.WorkerCtx, k int) *core.CaseResult {
	r := core.NewRng(w.Seed, 0xC08B, uint64(k))
	n := []int{9000, 12000, 10000, 16000}[k%4] + r.Intn(500)
	big := 1 - k%2 // position of the big shard
	res := &core.CaseResult{Sig: fmt.Sprintf("closed-loop/big-shard/%d/pos%d", n, big), Execs: 1}
	spec := Spec{MaxHead: 0, MaxProc: 1 << 40, Min: 2, Max: 2, Idle: "0", InitShards: 2, KeepPVC: true}
	for id := 0; id < n; id++ {
		spec.Targets = append(spec.Targets, TargetSpec{ID: id, Kept: 1, Explorer: "up"})
		spec.Initial = append(spec.Initial, Placement{Shard: big, ID: id})
	}
	root := ScratchRoot(w.Scratch, 500000+k)
	defer os.RemoveAll(root)
	wd, err := NewWorld(spec, root, r.Int63())
	if err != nil {
		res.Inconcl = "world: " + err.Error()
		return res
	}
	defer wd.Close()
	// how big is the answer the coordinator has to read?
	size := int64(0)
	if resp, err := http.Get(wd.nodes[big].apiSrv.URL + "/api/v1/shard/targets/status/"); err == nil {
		size, _ = io.Copy(io.Discard, resp.Body)
		resp.Body.Close()
	}
	res.AddSet("big_shard_status_answer_bytes", fmt.Sprint(size/100000*100000))
	if size < 5<<18 {
		res.Inconcl = fmt.Sprintf("the status answer of %d targets has only %d bytes (harness: wanted more than 1.25 MiB)", n, size)
		return res
	}
	var trace []string
	cycle := func(what string) (CycleObs, Snapshot, Snapshot, bool) {
		before := wd.Snapshot()
		co := wd.Cycle()
		if co.Err != "" {
			res.Inconcl = what + ": " + co.Err
			return co, before, before, false
		}
		after := wd.Snapshot()
		trace = append(trace, fmt.Sprintf("%s: sync=%v posts=%v held=[%d %d] -> [%d %d]", what, co.AllSync, co.Posts, len(before.Shards[0]), len(before.Shards[1]), len(after.Shards[0]), len(after.Shards[1])))
		return co, before, after, true
	}
	// one quiet cycle first: everything in sync, nothing to do
	if _, _, _, ok := cycle("quiet cycle"); !ok {
		return res
	}
	if msg := wd.Fault("staleHash", big, 2); msg != "" {
		res.Inconcl = "fault: " + msg
		return res
	}
	for c := 0; c < 2; c++ {
		co, before, after, ok := cycle(fmt.Sprintf("out-of-sync cycle %d", c))
		if !ok {
			return res
		}
		res.AddStat("cycles_with_a_big_out_of_sync_shard", 1)
		if co.Posts[wd.nodes[big].id] > 0 {
			res.Violate("C08/closed-loop/big-shard/update-to-not-in-sync-shard", "the shard at position %d (%d targets, status answer %d bytes) reports another configuration hash and rejects the push, but received %d target update(s) in that cycle", big, n, size, co.Posts[wd.nodes[big].id])
		}
		dup := 0
		first := -1
		for id := range before.Shards[big] {
			if _, ok := after.Shards[1-big][id]; ok {
				if _, had := before.Shards[1-big][id]; !had {
					dup++
					if first < 0 || id < first {
						first = id
					}
				}
			}
		}
		if dup > 0 {
			res.Violate("C08/closed-loop/big-shard/assigned-a-second-time", "the reachable, out-of-sync shard at position %d reports %d targets (status answer %d bytes); %d of them (e.g. %d) were given to the other shard in that cycle", big, n, size, dup, first)
		}
		if len(res.Viol) > 0 {
			break
		}
	}
	// in sync again: it takes part again - a new target is placed somewhere and nothing is duplicated
	if len(res.Viol) == 0 {
		wd.AddTarget(TargetSpec{ID: n + 7, Kept: 1, Explorer: "up"})
		placed := false
		for c := 0; c < 4 && !placed; c++ {
			_, _, after, ok := cycle(fmt.Sprintf("in-sync cycle %d", c))
			if !ok {
				return res
			}
			for _, m := range after.Shards {
				if _, ok := m[n+7]; ok {
					placed = true
				}
			}
			if d := len(after.Shards[1-big]); d > 1 {
				res.Violate("C08/closed-loop/big-shard/assigned-a-second-time", "after the shard at position %d was in sync again, the other shard lists %d targets (at most the one new target was unassigned)", big, d)
				break
			}
		}
		if !placed && len(res.Viol) == 0 {
			res.Violate("C08/closed-loop/big-shard/does-not-take-part-again", "four cycles after the big shard reported the matching hash again a newly discovered target is still on no shard")
		}
	}
	res.Nontrivial = true
	if len(res.Viol) > 0 {
		res.Witness = map[string]interface{}{"targets_on_big_shard": n, "status_answer_bytes": size, "trace": trace}
	}
	if k == 0 {
		res.Sample = map[string]interface{}{"targets_on_big_shard": n, "status_answer_bytes": size, "trace": trace}
	}
	return res
}
