package e2

import (
	"encoding/json"
	"flag"
	"fmt"
	"os"
	"syscall"
	"time"

	"kvassverif/internal/core"
)

// C19 soak under a small descriptor table: replica B (the closed-loop world) is coordinated next to a replica whose
// only shard answers every request with 503 and an error body. The process' RLIMIT_NOFILE is lowered to what is
// open after a warm-up plus a slack, so that anything the coordinator keeps per failed request of the OTHER replica
// (connections, descriptors) shows within a few hundred cycles as B no longer being coordinated.

// FdSoakResult is what the child prints.
type FdSoakResult struct {
	Cycles         int      `json:"cycles"`
	CycleErrs      []string `json:"cycleErrs,omitempty"`
	FdAfterWarmup  int      `json:"fdAfterWarmup"`
	FdLimit        int      `json:"fdLimit"`
	FdEnd          int      `json:"fdEnd"`
	FdMax          int      `json:"fdMax"`
	BrokenHits     int      `json:"brokenHits"`
	Exhausted      string   `json:"exhausted,omitempty"` // the process could no longer open descriptors: when, and the error
	LateTargetHeld bool     `json:"lateTargetHeld"`      // the target added 12 cycles before the end is listed by a shard of B
	Listed         string   `json:"listed"`
	SetupErr       string   `json:"setupErr,omitempty"`
}

func countFds() int {
	es, err := os.ReadDir("/proc/self/fd")
	if err != nil {
		return -1
	}
	return len(es)
}

// freeDescriptors opens up to n descriptors and closes them again; returns how many could be opened.
func freeDescriptors(n int) (int, error) {
	var fs []*os.File
	var err error
	for i := 0; i < n; i++ {
		f, e := os.Open("/dev/null")
		if e != nil {
			err = e
			break
		}
		fs = append(fs, f)
	}
	for _, f := range fs {
		f.Close()
	}
	return len(fs), err
}

func c19fdChild(args []string) int {
	fs := flag.NewFlagSet("c19fd", flag.ExitOnError)
	root := fs.String("root", "", "")
	cycles := fs.Int("cycles", 150, "")
	slack := fs.Int("slack", 40, "")
	broken := fs.Bool("broken", true, "")
	seed := fs.Int64("seed", 1, "")
	_ = fs.Parse(args)
	out := FdSoakResult{Cycles: *cycles}
	emit := func() int {
		b, _ := json.Marshal(out)
		fmt.Println(string(b))
		return 0
	}
	t := func(id, kept int) TargetSpec { return TargetSpec{ID: id, Kept: kept, Explorer: "up"} }
	spec := Spec{MaxHead: 100, MaxProc: 150, Min: 2, Max: 3, Idle: "0", InitShards: 2, KeepPVC: true, BrokenReplica: *broken,
		Targets: []TargetSpec{t(0, 30), t(1, 40), t(2, 20)}}
	w, err := NewWorld(spec, *root, *seed)
	if err != nil {
		out.SetupErr = "world: " + err.Error()
		return emit()
	}
	defer w.Close()
	all := func() []int {
		var l []int
		for i := 0; i < w.NumShards(); i++ {
			l = append(l, i)
		}
		return l
	}
	for c := 0; c < 6; c++ {
		if co := w.Cycle(); co.Err != "" {
			out.SetupErr = "warm-up cycle: " + co.Err
			return emit()
		}
		w.ScrapeRound(all())
	}
	out.FdAfterWarmup = countFds()
	var lim syscall.Rlimit
	if err := syscall.Getrlimit(syscall.RLIMIT_NOFILE, &lim); err != nil {
		out.SetupErr = "getrlimit: " + err.Error()
		return emit()
	}
	out.FdLimit = out.FdAfterWarmup + *slack
	lim.Cur = uint64(out.FdLimit)
	if err := syscall.Setrlimit(syscall.RLIMIT_NOFILE, &lim); err != nil {
		out.SetupErr = "setrlimit: " + err.Error()
		return emit()
	}
	w.CycleWait = 20 * time.Second
	for c := 0; c < *cycles; c++ {
		if c == *cycles-12 {
			w.AddTarget(t(9, 10))
		}
		co := w.Cycle()
		if free, err := freeDescriptors(4); free < 4 && out.Exhausted == "" {
			out.Exhausted = fmt.Sprintf("after cycle %d only %d more descriptors can be opened: %v", c, free, err)
		}
		if co.Err != "" {
			out.CycleErrs = append(out.CycleErrs, fmt.Sprintf("cycle %d: %s", c, co.Err))
			break
		}
		w.ScrapeRound(all())
		if n := countFds(); n > out.FdMax {
			out.FdMax = n
		}
	}
	out.FdEnd = countFds()
	w.mu.Lock()
	out.BrokenHits = w.BrokenHits
	w.mu.Unlock()
	// give the harness its descriptors back before it looks at the result
	lim.Cur = lim.Max
	_ = syscall.Setrlimit(syscall.RLIMIT_NOFILE, &lim)
	snap := w.Snapshot()
	out.Listed = snap.String()
	for _, m := range snap.Shards {
		if _, ok := m[9]; ok {
			out.LateTargetHeld = true
		}
	}
	return emit()
}

func init() { core.RegisterSub("c19fd", c19fdChild) }
