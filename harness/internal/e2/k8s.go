package e2

import (
	"context"
	"fmt"
	"math/rand"

	appsv1 "k8s.io/api/apps/v1"
	corev1 "k8s.io/api/core/v1"
	metav1 "k8s.io/apimachinery/pkg/apis/meta/v1"
	"k8s.io/apimachinery/pkg/runtime"
	"k8s.io/client-go/kubernetes/fake"

	"kvassverif/internal/core"
	"kvassverif/internal/sc"
	"tkestack.io/kvass/pkg/shard"
	kk "tkestack.io/kvass/pkg/shard/kubernetes"
)

const (
	k8sNS   = "monitoring"
	k8sSet  = "prom"
	k8sPort = 8080
)

func podIP(ord int) string { return fmt.Sprintf("10.9.%d.%d", ord/200, ord%200+10) }

// k8sShards: a fresh fake cluster that mirrors the simulated pods (created in a shuffled order), listed by the
// real replicas manager and shard manager; every shard object is then pointed at its node's loopback address.
func (w *World) k8sShards() ([]*shard.Shard, error) {
	n := len(w.nodes)
	r32 := int32(n)
	objs := []runtime.Object{&appsv1.StatefulSet{ObjectMeta: metav1.ObjectMeta{Name: k8sSet, Namespace: k8sNS, Labels: map[string]string{"kvass": "shards"}},
		Spec:   appsv1.StatefulSetSpec{Replicas: &r32, Selector: &metav1.LabelSelector{MatchLabels: map[string]string{"app": k8sSet}}},
		Status: appsv1.StatefulSetStatus{Replicas: r32, UpdatedReplicas: r32, ReadyReplicas: r32}}}
	if w.Spec.K8sDecoys {
		// two more StatefulSets of the same selector (other replicas of an HA layout), one sorting before and one
		// after ours, each with one ready pod nobody serves
		for i, name := range []string{"a-" + k8sSet, k8sSet + "-z"} {
			one := int32(1)
			objs = append(objs, &appsv1.StatefulSet{ObjectMeta: metav1.ObjectMeta{Name: name, Namespace: k8sNS, Labels: map[string]string{"kvass": "shards"}},
				Spec:   appsv1.StatefulSetSpec{Replicas: &one, Selector: &metav1.LabelSelector{MatchLabels: map[string]string{"app": name}}},
				Status: appsv1.StatefulSetStatus{Replicas: 1, UpdatedReplicas: 1, ReadyReplicas: 1}},
				&corev1.Pod{ObjectMeta: metav1.ObjectMeta{Name: name + "-0", Namespace: k8sNS, Labels: map[string]string{"app": name}}, Status: corev1.PodStatus{PodIP: fmt.Sprintf("10.8.0.%d", i+1)}})
		}
	}
	for _, ord := range rand.Perm(n) {
		nd := w.nodes[ord]
		p := &corev1.Pod{ObjectMeta: metav1.ObjectMeta{Name: fmt.Sprintf("%s-%d", k8sSet, ord), Namespace: k8sNS, Labels: map[string]string{"app": k8sSet}}}
		if nd.readyIn <= 0 && nd.unready <= 0 {
			p.Status.PodIP = podIP(ord)
		} else {
			w.mu.Lock()
			w.allSync = false
			w.mu.Unlock()
		}
		objs = append(objs, p)
	}
	w.k8sCli = fake.NewSimpleClientset(objs...)
	mgrs, err := kk.NewReplicasManager(w.k8sCli, k8sNS, "kvass=shards", k8sPort, false, sc.Quiet).Replicas()
	if err != nil {
		return nil, err
	}
	want := 1
	if w.Spec.K8sDecoys {
		want = 3
	}
	if len(mgrs) != want {
		return nil, fmt.Errorf("harness: %d replicas from %d up-to-date StatefulSets", len(mgrs), want)
	}
	// ours is the manager that lists the pods prom-<ordinal>; the decoys' shard objects are never contacted
	var shs []*shard.Shard
	w.k8sMgr = nil
	for _, m := range mgrs {
		l, err := m.Shards()
		if err != nil {
			return nil, err
		}
		ours := len(l) == n
		for _, sh := range l {
			var ord int
			if k, err := fmt.Sscanf(sh.ID, k8sSet+"-%d", &ord); err != nil || k != 1 || sh.ID != fmt.Sprintf("%s-%d", k8sSet, ord) {
				ours = false
			}
			sh.APIGet = func(string, interface{}) error {
				return fmt.Errorf("harness: a shard of another StatefulSet is not served here")
			}
			sh.APIPost = func(string, interface{}, interface{}) error {
				return fmt.Errorf("harness: a shard of another StatefulSet is not served here")
			}
		}
		if ours && w.k8sMgr == nil {
			w.k8sMgr, shs = m, l
		}
	}
	if w.k8sMgr == nil {
		w.mu.Lock()
		w.K8sNotListed++
		w.mu.Unlock()
		return nil, fmt.Errorf("no shard manager lists the pods of StatefulSet %s", k8sSet)
	}
	w.mu.Lock()
	w.k8sListings++
	w.mu.Unlock()
	for _, sh := range shs {
		var ord int
		if _, err := fmt.Sscanf(sh.ID, k8sSet+"-%d", &ord); err != nil || ord < 0 || ord >= n {
			continue // no such pod: the calls of this object go nowhere
		}
		w.wrapShard(w.nodes[ord], sh, fmt.Sprintf("http://%s:%d", podIP(ord), k8sPort))
	}
	return shs, nil
}

// k8sScale lets the real manager write the scale and returns what the StatefulSet then asks for.
func (w *World) k8sScale(n int32) (int32, error) {
	if w.k8sMgr == nil {
		return n, fmt.Errorf("harness: scale before the first listing")
	}
	if err := w.k8sMgr.ChangeScale(n); err != nil {
		return 0, err
	}
	sts, err := w.k8sCli.AppsV1().StatefulSets(k8sNS).Get(context.TODO(), k8sSet, metav1.GetOptions{})
	if err != nil {
		return 0, err
	}
	return *sts.Spec.Replicas, nil
}

// GenK8sScaleDown draws a fault-free scenario in K8s mode: 11-13 shards, a few targets sitting on high (and some
// low) ordinals, scale-down enabled in most draws (idle: a fixed max-idle-time instead of a drawn one), a target removed and one added on the way.
func GenK8sScaleDown(r *core.Rng, idle string) Scenario {
	var sc Scenario
	n := 11 + r.Intn(3)
	spec := Spec{MaxHead: 100, MaxProc: 150, Min: int32(r.PickI(0, 1, 3)), Max: 14, Idle: r.PickS("1ns", "1ns", "150ms", "0"), InitShards: n, KeepPVC: r.Intn(2) == 0, K8s: true}
	if idle != "" {
		spec.Idle = idle
	}
	nT := 3 + r.Intn(4)
	cand := []int{n - 1, n - 1, n - 2, n - 3, 10, 9, 2, 0}
	for id := 0; id < nT; id++ {
		spec.Targets = append(spec.Targets, TargetSpec{ID: id, Kept: r.PickI(10, 20, 30, 45), Drop: r.PickI(0, 0, 5), Explorer: "up"})
		spec.Initial = append(spec.Initial, Placement{Shard: cand[r.Intn(len(cand))], ID: id})
	}
	sc = Scenario{Spec: spec, Perturbed: 8}
	if r.Intn(2) == 0 {
		sc.Events = append(sc.Events, Event{AtCycle: 1 + r.Intn(3), Kind: "remove", Target: TargetSpec{ID: r.Intn(nT)}})
	}
	if r.Intn(2) == 0 {
		sc.Events = append(sc.Events, Event{AtCycle: 2 + r.Intn(4), Kind: "add", Target: TargetSpec{ID: nT, Kept: r.PickI(20, 60), Explorer: "up"}})
	}
	if spec.Idle == "150ms" {
		sc.Events = append(sc.Events, Event{AtCycle: 3, Kind: "sleep", Cycles: 170})
	}
	return sc
}
