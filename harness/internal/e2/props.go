package e2

import (
	"fmt"
	"os"
	"strings"

	"kvassverif/internal/core"
	"kvassverif/internal/e5"
	"kvassverif/internal/e7"
)

// SanitizeInitial drops initial placements of oversized targets.
func SanitizeInitial(s *Spec) {
	var keep []Placement
	for _, p := range s.Initial {
		for _, t := range s.Targets {
			if t.ID == p.ID {
				over := (s.MaxHead != 0 && int64(t.Kept) > s.MaxHead) || int64(t.Kept+t.Drop) > s.MaxProc
				if !over {
					keep = append(keep, p)
				}
			}
		}
	}
	s.Initial = keep
}

func judge(prop string, sc Scenario, out *Outcome, res *core.CaseResult, faultKinds string) {
	res.Execs = 1
	res.AddStat("cycles_executed", int64(len(out.Trace)))
	res.AddStat("moves_begun", int64(out.Moves))
	res.AddStat("handovers_completed", int64(out.HandoversSeen))
	res.AddStat("handovers_judged_with_own_scrape_counts", int64(out.IndependentHandovers))
	res.AddStat("handover_rule_violations_seen_here_reported_by_C05", int64(len(out.HandoverViol2)+len(out.HandoverViol)))
	res.AddStat("scale_events", int64(out.ScaleEvents))
	res.AddStat("scale_up_obligations", int64(out.Obligations))
	res.AddStat("faults_applied", int64(out.FaultsApplied))
	if out.Err != "" {
		if strings.Contains(out.Err, "coordinator died") || strings.Contains(out.Err, "did not complete") || strings.Contains(out.Err, "does not start") {
			res.Violate(prop+"/run-aborted"+faultKinds, "the closed loop broke down: %s", out.Err)
		} else {
			res.Inconcl = out.Err
		}
		return
	}
	if out.Converged {
		res.AddStat("runs_converged", 1)
		if out.NotEnoughShards > 0 {
			res.AddStat("runs_converged_with_targets_unplaceable_at_max_shard", 1)
		}
		res.AddSet("convergence_cycle", fmt.Sprint(out.ConvergedAt))
	} else {
		class := "other"
		switch {
		case strings.Contains(out.Reason, "in_transfer"):
			class = "stuck-in-transfer"
		case strings.Contains(out.Reason, "listed by"):
			class = "stays-duplicated"
		case strings.Contains(out.Reason, "assigned but not scraped"):
			class = "assigned-but-not-scraped"
		case strings.Contains(out.Reason, "scraped by no shard"):
			class = "stays-unscraped"
		case strings.Contains(out.Reason, "oversized"):
			class = "oversized-assigned"
		case strings.Contains(out.Reason, "undiscovered"):
			class = "vanished-target-kept"
		case strings.Contains(out.Reason, "changing"):
			class = "never-stable"
		}
		res.Violate(prop+"/not-converged/"+class+faultKinds, "no converged, stable state within %d quiet cycles (+5 of stability): %s", out.Bound, out.Reason)
	}
	if prop == "C03" {
		for _, v := range out.ObligationViol {
			res.Violate("C03/no-scale-up-although-unplaced", "%s", v)
			break
		}
	}
}

func init() {
	// ---- C03: fault-free convergence
	core.Register(&core.Prop{
		ID:    "C03",
		Level: "exploration",
		Rule: "closed loop: real coordinator + real sidecars over loopback HTTP + simulated Prometheus per shard (re-reads the generated file, scrapes through the proxy, head series with 0 or 3 rounds of residue) + simulated StatefulSet (new pods ready after 0-2 cycles, volume kept or not) + target farm; " +
			"case = world (head limit on/off, min 0-2, max 8, idle time 0 / 1 ns / 1000 h, 2-8 targets of sizes {1..120} some oversized or unknown to the explorer, 1-3 initial shards, initial placement empty / sane / all-on-one with duplicates / pending transfers written into the stores) + a perturbed phase of 4-11 cycles with growth below the limits, targets added and removed and 0-4 scrape rounds per shard between cycles, then a quiet phase; " +
			"bounded restatement: within B = 10 + 4*T + 3*min(max,8) quiet cycles (3 scrape rounds on every shard after each) a cycle exists after which every healthy fitting target is listed by exactly one sidecar in normal state, nothing is in transfer, no oversized target is listed, and sidecar lists and requested scale stay identical for 5 further cycles; per cycle: all shards in sync + eligible target unplaced => last requested scale > current (below max); " +
			"plus 4/32 runs of the REAL processes (e7): the `kvass coordinator` binary with a static shard file, its own discovery manager, explorer and API, three `kvass sidecar` binaries, a simulated Prometheus per shard and a target farm; targets are added/removed through the coordinator's configuration file and /-/reload; convergence is bounded in coordination cycles counted at a reverse proxy in front of the sidecar APIs, a wall-clock watchdog only makes a run inconclusive; " +
			"a fitting target may stay unscraped in the judged state only if max-shard is reached and no shard has room for it next to what it holds (the property presupposes enough allowed shards; counted); one workload in six drains all targets early and refills late; " +
			"real-process special cases (2/8): down-then-up - a target answers 503 from the start, the configuration is reloaded while it is down, then it serves again (bound 120 coordination cycles; the explorer's retry interval is 5 s of wall-clock time); " +
			"one case in six runs in K8s mode (the simulated pods are listed and scaled by the real Kubernetes replicas/shard managers on a client-go fake) next to two more StatefulSets of the same selector; " +
			"plus 1/3 flood cases (real explorer + real coordinator, one stub shard with unlimited room): 10200-10800 healthy targets appear at once (the explorer's queue holds 10000); all must reach the shard's list, judged when 100 cycles pass without a new assignment; " +
			"non-trivial = world with >= 2 shards at some time and >= 1 move or scale event; distinct = hash of the scenario",
		Assumptions: []string{
			"targets whose size equals a limit exactly (they fit nowhere yet are not 'larger than the limit') and initial placements of oversized targets are not generated",
			"the explorer is a stub with the real one's sharing semantics (C20 covers the real explorer)",
			"B was calibrated on the repaired tree (largest observed convergence cycle is recorded in evidence under distinct_observed.convergence_cycle) and is fixed in the code",
		},
		NumCases: func(tier string) int { return c03Base(tier) + e7.Cases(tier) + c03FloodCases(tier) },
		Run: func(w *core.WorkerCtx, idx int) *core.CaseResult {
			if base := c03Base(w.Tier) + e7.Cases(w.Tier); idx >= base {
				// real explorer + real coordinator: more new targets in one cycle than the explorer's queue holds
				return e5.RunC03Flood(w, idx-base)
			}
			if base := c03Base(w.Tier); idx >= base {
				return e7.Run(w, idx-base, "C03")
			}
			r := core.NewRng(w.Seed, 0xC03, uint64(idx))
			spec := GenSpec(r)
			SanitizeInitial(&spec)
			sc := GenWorkload(r, spec)
			if idx%6 == 5 {
				// the pods are listed and scaled by the real Kubernetes managers, next to two more StatefulSets
				// of the same selector (an HA layout with several replicas)
				sc.Spec.K8s, sc.Spec.K8sDecoys = true, true
			}
			root := ScratchRoot(w.Scratch, idx)
			defer os.RemoveAll(root)
			out := Run(sc, root, r.Int63())
			res := &core.CaseResult{Sig: fmt.Sprintf("%x", core.HashString(fmt.Sprintf("%+v", sc)))}
			if sc.Spec.K8s {
				res.AddStat("runs_on_the_real_kubernetes_managers_next_to_two_other_statefulsets", 1)
			}
			judge("C03", sc, out, res, "")
			res.Nontrivial = out.MaxShards >= 2 && (out.Moves > 0 || out.ScaleEvents > 0)
			if len(res.Viol) > 0 {
				res.Witness = map[string]interface{}{"scenario": sc, "trace": out.Trace}
			}
			if idx < 2 {
				res.Sample = map[string]interface{}{"scenario": sc, "trace_head": head(out.Trace, 12), "converged_at_quiet_cycle": out.ConvergedAt}
			}
			return res
		},
		Workers:       16,
		CaseTimeout:   300e9,
		MinNontrivial: 20,
	})
}

func c03FloodCases(tier string) int {
	if tier == "thorough" {
		return 3
	}
	return 1
}

func c03Base(tier string) int {
	if tier == "thorough" {
		return 20000
	}
	return 800
}

func head(l []string, n int) []string {
	if len(l) > n {
		return l[:n]
	}
	return l
}

// ---------------------------------------------------------------------------
// C06: fault enumeration

type faultVariant struct {
	Kind   string
	Cycles int
}

var faultVariants = []faultVariant{
	{"dropPost", 1}, {"loseAck", 1}, {"restart", 1}, {"unready", 1}, {"unready", 2}, {"failStatus", 1}, {"failStatus", 2},
	{"failRuntime", 1}, {"staleHash", 1}, {"staleHash", 2}, {"removeTail", 1}, {"promDown", 1}, {"promDown", 2},
}

const c06Perturbed = 8

func baseSchedules() []Scenario {
	t := func(id, kept int) TargetSpec { return TargetSpec{ID: id, Kept: kept, Explorer: "up"} }
	mk := func(s Spec) Scenario { return Scenario{Spec: s, Perturbed: c06Perturbed} }
	spike := mk(Spec{MaxHead: 100, MaxProc: 150, Min: 2, Max: 8, Idle: "1000h", InitShards: 2, Targets: []TargetSpec{t(0, 60), t(1, 49), t(2, 30)},
		Initial: []Placement{{Shard: 0, ID: 0}, {Shard: 0, ID: 1}, {Shard: 0, ID: 2}}})
	// the overload that starts the relief moves ends while they are under way: an interrupted move is not simply redone
	spike.Events = []Event{{AtCycle: 3, Kind: "grow", Target: TargetSpec{ID: 0, Kept: 15}}, {AtCycle: 3, Kind: "grow", Target: TargetSpec{ID: 1, Kept: 15}}, {AtCycle: 3, Kind: "grow", Target: TargetSpec{ID: 2, Kept: 15}}}
	// chained move: a relief destination becomes overloaded itself (its own target grows) while the first
	// source, whose Prometheus scrapes rarely, has not finished the hand-over yet
	chain := mk(Spec{MaxHead: 100, MaxProc: 1000, Min: 3, Max: 8, Idle: "1000h", InitShards: 3, Targets: []TargetSpec{t(0, 60), t(1, 55), t(2, 30), t(3, 5)},
		Initial: []Placement{{Shard: 0, ID: 0}, {Shard: 0, ID: 1}, {Shard: 1, ID: 2}, {Shard: 2, ID: 3}}})
	chain.Events = []Event{{AtCycle: 3, Kind: "grow", Target: TargetSpec{ID: 2, Kept: 62}}}
	// targets that are down (still discovered, explored earlier) while faults create copies to reconcile: the
	// clean-up rules count scrape ATTEMPTS, a dead target must not stop them
	downTargets := mk(Spec{MaxHead: 100, MaxProc: 150, Min: 2, Max: 8, Idle: "1000h", InitShards: 2, Targets: []TargetSpec{t(0, 40), t(1, 30), t(2, 20), t(3, 10)},
		Initial: []Placement{{Shard: 0, ID: 0}, {Shard: 0, ID: 3}, {Shard: 1, ID: 1}, {Shard: 1, ID: 2}}})
	downTargets.Events = []Event{{AtCycle: 0, Kind: "targetDown", Target: TargetSpec{ID: 1}}, {AtCycle: 0, Kind: "targetDown", Target: TargetSpec{ID: 3}}}
	for c := 0; c < c06Perturbed; c++ {
		chain.ScrapePlan = append(chain.ScrapePlan, []int{1, 3, 3, 3, 3, 3, 3, 3})
	}
	return []Scenario{
		// first assignment with scale-up
		mk(Spec{MaxHead: 100, MaxProc: 150, Min: 1, Max: 8, Idle: "1ns", InitShards: 1, Targets: []TargetSpec{t(0, 30), t(1, 40), t(2, 49), t(3, 60)}}),
		// relief of an overloaded shard
		mk(Spec{MaxHead: 100, MaxProc: 150, Min: 0, Max: 8, Idle: "1ns", InitShards: 2, Targets: []TargetSpec{t(0, 60), t(1, 49), t(2, 30)},
			Initial: []Placement{{Shard: 0, ID: 0}, {Shard: 0, ID: 1}, {Shard: 0, ID: 2}}}),
		// scale-down that empties the tail
		mk(Spec{MaxHead: 100, MaxProc: 150, Min: 0, Max: 8, Idle: "1ns", InitShards: 3, Targets: []TargetSpec{t(0, 30), t(1, 10), t(2, 10)},
			Initial: []Placement{{Shard: 0, ID: 0}, {Shard: 1, ID: 1}, {Shard: 2, ID: 2}}}),
		// steady state, no head limit, new pods come up late, volumes kept
		mk(Spec{MaxHead: 0, MaxProc: 150, Min: 2, Max: 8, Idle: "1000h", InitShards: 2, ReadyDelay: 2, KeepPVC: true, Residue: 3, Targets: []TargetSpec{t(0, 60), t(1, 49), t(2, 30), t(3, 10)},
			Initial: []Placement{{Shard: 0, ID: 0}, {Shard: 0, ID: 3}, {Shard: 1, ID: 1}, {Shard: 1, ID: 2}}}),
		spike,
		chain,
		downTargets,
	}
}

type c06Case struct {
	Base   int     `json:"baseSchedule"`
	Faults []Event `json:"faults"`
}

func singleFaults() []Event {
	var evs []Event
	for _, fv := range faultVariants {
		for c := 0; c < c06Perturbed; c++ {
			for s := 0; s < 3; s++ {
				if fv.Kind == "removeTail" && s > 0 {
					continue
				}
				evs = append(evs, Event{AtCycle: c, Kind: fv.Kind, Shard: s, Cycles: fv.Cycles})
			}
		}
	}
	return evs
}

func c06Cases(tier string, seed uint64) []c06Case {
	var cs []c06Case
	singles := singleFaults()
	bases := []int{0, 1, 4, 5, 6}
	if tier == "thorough" {
		bases = []int{0, 1, 2, 3, 4, 5, 6}
	}
	for _, b := range []int{0, 1, 2, 3, 4, 5, 6} {
		cs = append(cs, c06Case{Base: b}) // fault-free control
	}
	for _, b := range bases {
		for _, f := range singles {
			cs = append(cs, c06Case{Base: b, Faults: []Event{f}})
		}
	}
	if tier != "thorough" {
		// a strided third of the single faults on the two larger schedules
		for _, b := range []int{2, 3} {
			for i, f := range singles {
				if i%3 == b-2 {
					cs = append(cs, c06Case{Base: b, Faults: []Event{f}})
				}
			}
		}
		r := core.NewRng(seed, 0xC06)
		for k := 0; k < 200; k++ {
			cs = append(cs, c06Case{Base: r.Intn(7), Faults: []Event{singles[r.Intn(len(singles))], singles[r.Intn(len(singles))]}})
		}
		return cs
	}
	// thorough: every pair on the two smallest schedules, sampled triples elsewhere
	for _, b := range []int{1, 4, 5} {
		for i := range singles {
			for j := i + 1; j < len(singles); j++ {
				cs = append(cs, c06Case{Base: b, Faults: []Event{singles[i], singles[j]}})
			}
		}
	}
	r := core.NewRng(seed, 0xC06)
	for k := 0; k < 8000; k++ { // sampled pairs on the schedule with down targets
		cs = append(cs, c06Case{Base: 6, Faults: []Event{singles[r.Intn(len(singles))], singles[r.Intn(len(singles))]}})
	}
	for k := 0; k < 3000; k++ {
		cs = append(cs, c06Case{Base: r.Intn(7), Faults: []Event{singles[r.Intn(len(singles))], singles[r.Intn(len(singles))], singles[r.Intn(len(singles))]}})
	}
	return cs
}

func init() {
	var cache = map[string][]c06Case{}
	get := func(tier string, seed uint64) []c06Case {
		k := fmt.Sprint(tier, seed)
		if cache[k] == nil {
			cache[k] = c06Cases(tier, seed)
		}
		return cache[k]
	}
	core.Register(&core.Prop{
		ID:    "C06",
		Level: "fault_enumeration",
		Rule: "same closed loop as C03; 7 fixed small base schedules (steady state in which two of four targets answer 500 from the first cycle on; first assignment with scale-up; relief of an overloaded shard; scale-down emptying the tail; steady state with late pods, kept volumes, head residue; relief whose overload ends while the moves are under way; a chained move: the relief destination becomes overloaded itself while the first source, scraping rarely, has not finished the hand-over), 8 perturbed cycles each; " +
			"fault alphabet injected at harness-owned boundaries, each armed for exactly the cycle(s) stated: target POST not delivered, POST delivered but answer lost, sidecar restart from its store, shard not ready for 1-2 cycles, status GET failing 1-2 cycles, runtime GET failing, the shard's Prometheus answering nothing for 1-2 cycles (its reload and head-series query fail inside the sidecar), config hash out of sync with rejected push for 1-2 cycles, tail shard removed while holding targets (+ late new shards via the schedule); " +
			"enumeration: EVERY placement of one fault (13 variants x 8 cycles x shard 0..2) on five schedules (thorough: all seven), a strided third on the others, 200 seed-sampled pairs (thorough: every pair on the three relief schedules, 8000 sampled pairs on the down-target schedule + 3000 sampled triples); after the last fault the C03 predicate must be reached within B quiet cycles and stay for 5; " +
			"plus the restart fault on the REAL `kvass sidecar` process (8 / 64 cases, configuration pushed or from --config.file): assigned, killed, started twice more on the same volume, configuration pushed again as the coordinator would, no targets posted - the file given to Prometheus must list exactly the resumed targets in every life; " +
			"plus 4/32 runs of the real processes (real coordinator binary, three real sidecar binaries) with a sidecar killed and restarted, the coordinator killed and restarted, or a shard unreachable for five cycles in the middle; " +
			"real-process special faults (2/8): reload-then-wipe-sidecar - a reload, four cycles, then the fullest shard's sidecar returns on an empty volume; and, with the sidecars in FILE mode (--config.file, the binary's default), a configuration roll-out (one target removed, one added) that reaches a shard while its Prometheus answers 500 to /-/reload; " +
			"non-trivial = a fault was really applied (or the control); distinct = (schedule, fault placements)",
		Assumptions: []string{
			"faults are injected in the harness' wrappers around the real api.Get/api.Post, in the simulated StatefulSet and by rebuilding the sidecar on its store; a fault that cannot apply (no such shard at that time) is recorded as not applied",
			"bound B = 10 + 4*T + 3*8 quiet cycles with 3 scrape rounds per shard after each cycle",
		},
		NumCases: func(tier string) int {
			if tier == "thorough" {
				return len(get(tier, 1)) + c06RealThorough + e7.Cases(tier)
			}
			return len(get(tier, 1)) + c06RealQuick + e7.Cases(tier)
		},
		Run: func(w *core.WorkerCtx, idx int) *core.CaseResult {
			cs := get(w.Tier, w.Seed)
			if idx >= len(cs) {
				nr := c06RealQuick
				if w.Tier == "thorough" {
					nr = c06RealThorough
				}
				if k := idx - len(cs); k >= nr {
					return e7.Run(w, k-nr, "C06") // real processes with a fault in the middle
				}
				return runC06Real(w, idx-len(cs))
			}
			c := cs[idx]
			sc := baseSchedules()[c.Base]
			sc.Events = append(append([]Event{}, sc.Events...), c.Faults...)
			root := ScratchRoot(w.Scratch, idx)
			defer os.RemoveAll(root)
			out := Run(sc, root, int64(core.NewRng(w.Seed, 0xC06, uint64(idx)).Int63()))
			var kinds []string
			for _, f := range c.Faults {
				kinds = append(kinds, f.Kind)
			}
			res := &core.CaseResult{Sig: fmt.Sprintf("b%d/%v", c.Base, c.Faults)}
			fk := ""
			if len(kinds) > 0 {
				fk = "/after-" + strings.Join(uniq(kinds), "+")
			}
			judge("C06", sc, out, res, fk)
			res.Nontrivial = out.FaultsApplied > 0 || len(c.Faults) == 0
			for _, k := range kinds {
				res.AddSet("fault_kinds_applied", k)
			}
			if len(res.Viol) > 0 {
				res.Witness = map[string]interface{}{"base_schedule": c.Base, "spec": sc.Spec, "faults": c.Faults, "trace": out.Trace}
			}
			if idx == 5 || idx == 40 {
				res.Sample = map[string]interface{}{"base_schedule": c.Base, "faults": c.Faults, "trace_head": head(out.Trace, 14), "converged_at_quiet_cycle": out.ConvergedAt}
			}
			return res
		},
		Workers:       16,
		CaseTimeout:   300e9,
		MinNontrivial: 100,
		Exhaustive:    func(string) bool { return false },
	})
}

func uniq(l []string) []string {
	seen := map[string]bool{}
	var o []string
	for _, x := range l {
		if !seen[x] {
			seen[x] = true
			o = append(o, x)
		}
	}
	return o
}
