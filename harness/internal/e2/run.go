package e2

import (
	"fmt"
	"os"
	"path/filepath"
	"sort"
	"strings"
	"time"

	"kvassverif/internal/core"
)

// Event is one scripted disturbance before a cycle of the perturbed phase.
type Event struct {
	AtCycle int        `json:"atCycle"`
	Kind    string     `json:"kind"` // fault kinds of World.Fault | grow | add | remove
	Shard   int        `json:"shard,omitempty"`
	Cycles  int        `json:"cycles,omitempty"`
	Target  TargetSpec `json:"target,omitempty"`
}

// Scenario is a world plus a perturbed phase; the quiet phase follows automatically.
type Scenario struct {
	Spec      Spec    `json:"spec"`
	Perturbed int     `json:"perturbedCycles"`
	Events    []Event `json:"events"`
	// ScrapePlan[c][s] = scrape rounds of shard s after cycle c of the perturbed phase (missing: 3)
	ScrapePlan [][]int `json:"scrapePlan,omitempty"`
	// NoConvergence: run a fixed number of quiet cycles without demanding convergence (persistent faults)
	NoConvergence bool `json:"noConvergence,omitempty"`
}

// Outcome of a run.
type Outcome struct {
	Converged            bool
	ConvergedAt          int // quiet cycle index at which the stable window started
	Bound                int
	Reason               string // why not converged
	Trace                []string
	Moves                int
	ScaleEvents          int
	MaxShards            int
	Obligations          int // cycles in which an unplaced eligible target obliged a scale-up
	ObligationViol       []string
	HandoverViol         []string
	GapViol              []string
	OrphanChecks         int      // (cycle, target) pairs judged by the orphan rule
	OrphanViol           []string // C01 in the closed loop: scraped before the cycle, still discovered, listed nowhere after it
	HandoversSeen        int
	HandoverViol2        []string // judged with the harness' own scrape counts
	IndependentHandovers int
	LostMarkMoves        int // moves judged whose in-transfer mark never reached the source
	Err                  string
	FaultsApplied        int
	Removals             int      // shards removed by the coordinator
	RemovalViol          []string // removed although it cannot have been idle for max-idle-time (C07)
	NotEnoughShards      int      // fitting targets left unscraped in the final state because max-shard is reached and no shard has room
}

func fits(w *World, id int) bool {
	s, t, _ := w.Estimate(id)
	k, tot := w.CurrentSize(id)
	if int64(k) > s {
		s = int64(k)
	}
	if int64(tot) > t {
		t = int64(tot)
	}
	return (w.Spec.MaxHead == 0 || s < w.Spec.MaxHead) && t < w.Spec.MaxProc
}

func oversizedFromStart(w *World, id int) bool {
	s, t, _ := w.Estimate(id)
	return (w.Spec.MaxHead != 0 && s > w.Spec.MaxHead) || t > w.Spec.MaxProc
}

// notEnoughShards: the number of shards is at max-shard and, by the sizes the shards really hold,
// no shard has room (the coordinator's own rule: head+series < max-head and process+total <
// max-process) for the target.
func notEnoughShards(w *World, s Snapshot, id int) bool {
	if int32(len(s.Shards)) < w.Spec.Max {
		return false
	}
	es, et, _ := w.Estimate(id)
	k, tot := w.CurrentSize(id)
	if int64(k) > es {
		es = int64(k)
	}
	if int64(tot) > et {
		et = int64(tot)
	}
	for _, m := range s.Shards {
		var head, proc int64
		for held := range m {
			hk, ht := w.CurrentSize(held)
			head += int64(hk)
			proc += int64(ht)
		}
		if (w.Spec.MaxHead == 0 || head+es < w.Spec.MaxHead) && proc+et < w.Spec.MaxProc {
			return false
		}
	}
	return true
}

// convergedNow evaluates the C03 predicate on a snapshot.
func convergedNow(w *World, s Snapshot) (bool, string) {
	for _, id := range w.Discovered() {
		_, _, health := w.Estimate(id)
		n, it, holder := 0, false, -1
		for si, m := range s.Shards {
			if e, ok := m[id]; ok {
				n++
				holder = si
				if e.State != "" {
					it = true
				}
			}
		}
		if it {
			return false, fmt.Sprintf("target %d is still marked in_transfer", id)
		}
		switch {
		case oversizedFromStart(w, id):
			if n != 0 {
				return false, fmt.Sprintf("oversized target %d is assigned", id)
			}
		case health == "up" && fits(w, id):
			if n == 0 {
				if notEnoughShards(w, s, id) {
					// the property presupposes "enough allowed shards": max-shard is reached and no
					// shard has room for this target next to what it really holds
					continue
				}
				return false, fmt.Sprintf("healthy target %d that fits a shard is scraped by no shard", id)
			}
			if n > 1 {
				return false, fmt.Sprintf("target %d is listed by %d shards", id, n)
			}
			// "scraped by exactly one shard": the shard that lists it must have handed it to its Prometheus
			if !w.PromHas(holder, id) {
				return false, fmt.Sprintf("target %d is listed by shard %d, whose Prometheus was never given it (assigned but not scraped)", id, holder)
			}
		default:
			if n > 1 {
				return false, fmt.Sprintf("target %d is listed by %d shards", id, n)
			}
		}
	}
	// nothing undiscovered may linger
	disc := map[int]bool{}
	for _, id := range w.Discovered() {
		disc[id] = true
	}
	for i, m := range s.Shards {
		for id := range m {
			if !disc[id] {
				return false, fmt.Sprintf("shard %d still lists undiscovered target %d", i, id)
			}
		}
	}
	return true, ""
}

// Run executes a scenario.
func Run(sc Scenario, root string, rseed int64) *Outcome {
	out := &Outcome{}
	w, err := NewWorld(sc.Spec, root, rseed)
	if err != nil {
		out.Err = "world: " + err.Error()
		return out
	}
	defer w.Close()
	note := func(f string, a ...interface{}) { out.Trace = append(out.Trace, fmt.Sprintf(f, a...)) }
	prev := w.Snapshot()
	note("start %s", prev)
	// bookkeeping for the closed-loop hand-over rule, with the harness' OWN scrape counts:
	// key "target/srcShard" -> counts at the moment the move began
	type moveRec struct {
		srcGen, dst, dstGen    int
		srcAtBegin, dstAtBegin int
	}
	moves := map[string]*moveRec{}
	// moves whose in-transfer mark never reached the source (its POST was lost): the destination was given the target
	// while the in-sync source went on listing it in normal state
	lostMark := map[string]*moveRec{}
	mkey := func(id, src int) string { return fmt.Sprintf("%d/%d", id, src) }
	step := func(label string, c int, rounds func(shard int) int) (CycleObs, Snapshot, bool) {
		before := w.Snapshot()
		co := w.Cycle()
		if co.Err != "" {
			out.Err = co.Err
			return co, before, false
		}
		after := w.Snapshot()
		if len(co.Scales) > 0 && int(co.Scales[len(co.Scales)-1]) != co.N {
			out.ScaleEvents++
		}
		if w.NumShards() > out.MaxShards {
			out.MaxShards = w.NumShards()
		}
		// per-cycle obligation: all shards in sync + an eligible unscraped target left unplaced => more shards requested
		if co.AllSync { // also with zero shards: then nothing can be out of sync
			var unplaced []int
			for _, id := range w.Discovered() {
				_, _, health := w.Estimate(id)
				if health != "up" || oversizedFromStart(w, id) {
					continue
				}
				held := false
				for _, m := range before.Shards {
					if _, ok := m[id]; ok {
						held = true
					}
				}
				for _, m := range after.Shards {
					if _, ok := m[id]; ok {
						held = true
					}
				}
				if !held {
					unplaced = append(unplaced, id)
				}
			}
			if len(unplaced) > 0 && int32(co.N) < w.Spec.Max {
				out.Obligations++
				last := int32(-1)
				if len(co.Scales) > 0 {
					last = co.Scales[len(co.Scales)-1]
				}
				if last <= int32(co.N) {
					out.ObligationViol = append(out.ObligationViol, fmt.Sprintf("%s %d: all %d shards in sync, eligible targets %v unplaced, but requested scale %d does not exceed %d", label, c, co.N, unplaced, last, co.N))
				}
			}
		}
		// orphan rule (C01), judged in cycles in which every shard was ready, answered and had the current
		// configuration: a target some shard listed before the cycle and that is still discovered is listed by some
		// remaining shard after it
		if co.AllSync {
			disc := map[int]bool{}
			for _, id := range w.Discovered() {
				disc[id] = true
			}
			for si, m := range before.Shards {
				for id := range m {
					if !disc[id] {
						continue
					}
					out.OrphanChecks++
					kept := false
					for _, m2 := range after.Shards {
						if _, ok := m2[id]; ok {
							kept = true
						}
					}
					if !kept {
						out.OrphanViol = append(out.OrphanViol, fmt.Sprintf("%s %d: target %d was listed by shard %d before the cycle (all %d shards in sync), is still discovered, and no shard lists it after the cycle (%d shards remain; scale requests %v)", label, c, id, si, co.N, len(after.Shards), co.Scales))
					}
				}
			}
		}
		// closed-loop hand-over rule (C05): a source loses an in-transfer copy only after 3+3 scrapes
		for si, m := range before.Shards {
			for id, e := range m {
				if e.State != "in_transfer" {
					continue
				}
				if si < len(after.Shards) {
					if _, still := after.Shards[si][id]; still {
						continue
					}
				} else {
					continue // the shard itself was removed
				}
				stillDiscovered := false
				for _, d := range w.Discovered() {
					if d == id {
						stillDiscovered = true
					}
				}
				if !stillDiscovered {
					continue
				}
				nIT := 0
				for _, m2 := range before.Shards {
					if e2, ok := m2[id]; ok && e2.State == "in_transfer" {
						nIT++
					}
				}
				if nIT != 1 {
					continue
				}
				out.HandoversSeen++
				okDst := false
				for sj, m2 := range before.Shards {
					if sj != si {
						if e2, ok := m2[id]; ok && e2.State == "" && e2.Times >= 3 {
							okDst = true
						}
					}
				}
				if e.Times < 3 || !okDst {
					out.HandoverViol = append(out.HandoverViol, fmt.Sprintf("%s %d: shard %d dropped in-transfer target %d with its own count %d and destination ready=%v", label, c, si, id, e.Times, okDst))
				}
			}
		}
		// moves that end in this cycle, judged with the harness' own counts
		for k, mv := range moves {
			var id, si int
			fmt.Sscanf(k, "%d/%d", &id, &si)
			gone := si >= len(after.Shards) || w.Gen(si) != mv.srcGen
			if !gone {
				if e, still := after.Shards[si][id]; still {
					if e.State != "in_transfer" {
						delete(moves, k) // restored to normal: the move was cancelled
					}
					continue
				}
			}
			delete(moves, k)
			if gone {
				continue // the source pod itself went away
			}
			discovered := false
			for _, d := range w.Discovered() {
				if d == id {
					discovered = true
				}
			}
			if !discovered {
				continue
			}
			// as in the one-cycle oracle: only a copy that was the ONLY in_transfer copy is a completed hand-over
			// (two in_transfer copies are duplicates of each other), and ANY other shard that lists the target in
			// normal state and has really scraped it three times justifies the removal, not only the recorded destination
			nIT := 0
			for _, m2 := range before.Shards {
				if e2, ok := m2[id]; ok && e2.State == "in_transfer" {
					nIT++
				}
			}
			if nIT != 1 {
				continue
			}
			srcScrapes := w.ScrapedBy(si, id) - mv.srcAtBegin
			dstScrapes := -1
			for sj, m2 := range before.Shards {
				if sj == si || sj >= w.NumShards() {
					continue
				}
				if e2, ok := m2[id]; ok && e2.State == "" {
					n := w.ScrapedBy(sj, id)
					if sj == mv.dst && w.Gen(mv.dst) == mv.dstGen {
						n = w.ScrapedBy(mv.dst, id) - mv.dstAtBegin
					}
					if n > dstScrapes {
						dstScrapes = n
					}
				}
			}
			out.IndependentHandovers++
			if srcScrapes < 3 || (dstScrapes >= 0 && dstScrapes < 3) {
				out.HandoverViol2 = append(out.HandoverViol2, fmt.Sprintf("%s %d: target %d left source shard %d after the source really scraped it %d times and the best normal copy elsewhere (recorded destination: shard %d) %d times (harness counts at the target farm)", label, c, id, si, srcScrapes, mv.dst, dstScrapes))
			}
		}
		// moves that lost their mark: the source copy may go only when the destination (or another normal copy) has
		// really scraped the target three times since it got it
		for k, mv := range lostMark {
			var id, si int
			fmt.Sscanf(k, "%d/%d", &id, &si)
			if si >= len(after.Shards) || w.Gen(si) != mv.srcGen {
				delete(lostMark, k)
				continue
			}
			if e, still := after.Shards[si][id]; still {
				if e.State == "in_transfer" {
					delete(lostMark, k) // planned again and marked this time
				}
				continue
			}
			delete(lostMark, k)
			discovered := false
			for _, d := range w.Discovered() {
				if d == id {
					discovered = true
				}
			}
			if !discovered || mv.dst >= w.NumShards() || w.Gen(mv.dst) != mv.dstGen {
				continue
			}
			best := -1
			for sj, m2 := range before.Shards {
				if sj == si || sj >= w.NumShards() {
					continue
				}
				if e2, ok := m2[id]; ok && e2.State == "" {
					n := w.ScrapedBy(sj, id)
					if sj == mv.dst {
						n -= mv.dstAtBegin
					}
					if n > best {
						best = n
					}
				}
			}
			out.IndependentHandovers++
			out.LostMarkMoves++
			if best >= 0 && best < 3 {
				out.HandoverViol2 = append(out.HandoverViol2, fmt.Sprintf("%s %d: target %d was given to shard %d while the in-sync shard %d went on listing it (the update that would have marked it in_transfer was lost); it left shard %d when the best normal copy elsewhere had really been scraped %d times since then (harness counts at the target farm)", label, c, id, mv.dst, si, si, best))
			}
		}
		// moves begun
		if co.AllSync {
			for dj, m2 := range after.Shards {
				for id, e2 := range m2 {
					if e2.State != "" {
						continue
					}
					if dj < len(before.Shards) {
						if _, had := before.Shards[dj][id]; had {
							continue
						}
					}
					for si, m := range before.Shards {
						if si == dj || si >= len(after.Shards) {
							continue
						}
						b, ok := m[id]
						a, still := after.Shards[si][id]
						if ok && still && b.State == "" && a.State == "" {
							lostMark[mkey(id, si)] = &moveRec{srcGen: w.Gen(si), dst: dj, dstGen: w.Gen(dj), dstAtBegin: w.ScrapedBy(dj, id)}
						}
					}
				}
			}
		}
		for si, m := range after.Shards {
			for id, e := range m {
				if e.State == "in_transfer" && si < len(before.Shards) {
					if b, ok := before.Shards[si][id]; ok && b.State == "" {
						out.Moves++
						// the destination: the shard that lists the target in normal state now and did not before
						for dj, m2 := range after.Shards {
							if dj == si {
								continue
							}
							if e2, ok := m2[id]; ok && e2.State == "" {
								had := false
								if dj < len(before.Shards) {
									_, had = before.Shards[dj][id]
								}
								if !had {
									moves[mkey(id, si)] = &moveRec{srcGen: w.Gen(si), dst: dj, dstGen: w.Gen(dj), srcAtBegin: w.ScrapedBy(si, id), dstAtBegin: w.ScrapedBy(dj, id)}
								}
							}
						}
					}
				}
			}
		}
		// scrape rounds; no-gap rule: every target listed by some live shard is requested by at least one shard
		maxR := 0
		for i := 0; i < w.NumShards(); i++ {
			if r := rounds(i); r > maxR {
				maxR = r
			}
		}
		for r := 0; r < maxR; r++ {
			var which []int
			for i := 0; i < w.NumShards(); i++ {
				if rounds(i) > r {
					which = append(which, i)
				}
			}
			listed := map[int]bool{}
			snap := w.Snapshot()
			for _, i := range which {
				for id := range snap.Shards[i] {
					listed[id] = true
				}
			}
			hits := w.ScrapeRound(which)
			if len(which) == w.NumShards() {
				for id := range listed {
					if hits[id] == 0 {
						out.GapViol = append(out.GapViol, fmt.Sprintf("%s %d round %d: target %d is assigned but no shard requested it", label, c, r, id))
					}
				}
			}
		}
		// removal monitor (C07): a shard the coordinator removes must have been idle for longer than max-idle-time;
		// judged one-sidedly with the harness clock: it was seen holding targets (or was created) at IdleFloor,
		// so it has been idle for at most At-IdleFloor - machine load only makes that span longer
		for _, rm := range w.TakeRemovals() {
			out.Removals++
			maxIdle := idleDur(w.Spec.Idle)
			switch {
			case maxIdle == 0:
				out.RemovalViol = append(out.RemovalViol, fmt.Sprintf("%s %d: shard %d removed although scale-down is disabled (max-idle-time 0)", label, c, rm.Ordinal))
			case rm.At.Sub(rm.IdleFloor) <= maxIdle:
				out.RemovalViol = append(out.RemovalViol, fmt.Sprintf("%s %d: shard %d removed %v after it was last seen holding targets (or created); max-idle-time is %v", label, c, rm.Ordinal, rm.At.Sub(rm.IdleFloor), maxIdle))
			}
		}
		final := w.Snapshot()
		note("%s%d scales=%v n=%d sync=%v %s", label, c, co.Scales, co.N, co.AllSync, final)
		return co, final, true
	}
	// ---- perturbed phase
	for c := 0; c < sc.Perturbed; c++ {
		for _, ev := range sc.Events {
			if ev.AtCycle != c {
				continue
			}
			switch ev.Kind {
			case "grow":
				w.Grow(ev.Target.ID, ev.Target.Kept)
				note("  workload: target %d grows to %d", ev.Target.ID, ev.Target.Kept)
			case "add":
				w.AddTarget(ev.Target)
				note("  workload: target %d added (%d/%d)", ev.Target.ID, ev.Target.Kept, ev.Target.Drop)
			case "remove":
				w.RemoveTarget(ev.Target.ID)
				note("  workload: target %d removed", ev.Target.ID)
			case "targetDown":
				w.SetDown(ev.Target.ID, true)
				note("  workload: target %d starts answering 500", ev.Target.ID)
			case "sleep":
				time.Sleep(time.Duration(ev.Cycles) * time.Millisecond)
				note("  workload: %d ms pass", ev.Cycles)
			default:
				if msg := w.Fault(ev.Kind, ev.Shard, ev.Cycles); msg == "" {
					out.FaultsApplied++
					note("  fault: %s shard %d for %d cycle(s)", ev.Kind, ev.Shard, ev.Cycles)
				} else {
					note("  fault %s shard %d not applicable: %s", ev.Kind, ev.Shard, msg)
				}
			}
		}
		plan := func(s int) int {
			if c < len(sc.ScrapePlan) && s < len(sc.ScrapePlan[c]) {
				return sc.ScrapePlan[c][s]
			}
			return 3
		}
		if _, _, ok := step("p", c, plan); !ok {
			return out
		}
	}
	// ---- quiet phase: bounded convergence, then stability
	T, S := len(w.Discovered()), int(sc.Spec.Max)
	if S > 8 {
		S = 8
	}
	out.Bound = 10 + 4*T + 3*S
	const M = 5
	stable := 0
	var lastKey string
	for c := 0; c < out.Bound+M+1; c++ {
		if sc.NoConvergence && c >= 12 {
			return out
		}
		co, snap, ok := step("q", c, func(int) int { return 3 })
		if !ok {
			return out
		}
		okNow, why := convergedNow(w, snap)
		lastScale := int32(-1)
		if len(co.Scales) > 0 {
			lastScale = co.Scales[len(co.Scales)-1]
		}
		key := snapKey(snap) + fmt.Sprint(lastScale)
		if okNow && key == lastKey {
			stable++
			if stable >= M {
				out.Converged = true
				out.ConvergedAt = c - M
				for _, id := range w.Discovered() {
					held := false
					for _, m := range snap.Shards {
						if _, ok := m[id]; ok {
							held = true
						}
					}
					if _, _, h := w.Estimate(id); !held && h == "up" && fits(w, id) && !oversizedFromStart(w, id) {
						out.NotEnoughShards++
					}
				}
				return out
			}
		} else {
			stable = 0
			if !okNow {
				out.Reason = why
			} else {
				out.Reason = "state still changing"
			}
		}
		lastKey = key
	}
	return out
}

func snapKey(s Snapshot) string {
	var b strings.Builder
	for i, m := range s.Shards {
		var l []string
		for id, e := range m {
			l = append(l, fmt.Sprintf("%d%s", id, e.State))
		}
		sort.Strings(l)
		fmt.Fprintf(&b, "%d[%s]", i, strings.Join(l, ","))
	}
	return b.String()
}

// ---------------------------------------------------------------------------
// generators

var keptSizes = []int{1, 10, 30, 49, 60, 80, 99, 120}

// GenSpec draws a world.
func GenSpec(r *core.Rng) Spec {
	s := Spec{MaxProc: 150, Min: int32(r.PickI(0, 0, 1, 2)), Max: 8, Idle: r.PickS("0", "1ns", "1ns", "1000h"), Residue: r.PickI(0, 3), ReadyDelay: r.PickI(0, 0, 1, 2),
		KeepPVC: r.Intn(2) == 0, InitShards: 1 + r.Intn(3)}
	if r.Intn(2) == 0 {
		s.MaxHead = 100
	}
	if r.Intn(12) == 0 {
		s.NoRelief = true
	}
	nT := 2 + r.Intn(7)
	for i := 0; i < nT; i++ {
		t := TargetSpec{ID: i, Kept: keptSizes[r.Intn(len(keptSizes))], Drop: r.PickI(0, 0, 5, 40), Explorer: "up"}
		// sizes equal to a limit fit nowhere and are not "larger than the limit" either: not generated
		if s.MaxHead != 0 && int64(t.Kept) == s.MaxHead {
			t.Kept--
		}
		if int64(t.Kept+t.Drop) == s.MaxProc {
			t.Drop++
		}
		if r.Intn(10) == 0 {
			t.Explorer = r.PickS("down", "unknown")
		}
		s.Targets = append(s.Targets, t)
	}
	// initial placements: empty, sane, overloaded, duplicates, pending transfers
	switch r.Intn(7) {
	case 5: // leftovers of interrupted transfer chains: copies in arbitrary states, possibly none of them normal
		for _, t := range s.Targets {
			n := 1 + r.Intn(s.InitShards)
			first := r.Intn(s.InitShards)
			for k := 0; k < n; k++ {
				s.Initial = append(s.Initial, Placement{Shard: (first + k) % s.InitShards, ID: t.ID, State: r.PickS("", "in_transfer", "in_transfer")})
			}
		}
	case 6: // one target in transfer on every shard that holds it, the others placed sanely
		for i, t := range s.Targets {
			if i == 0 && s.InitShards > 1 {
				s.Initial = append(s.Initial, Placement{Shard: 0, ID: t.ID, State: "in_transfer"}, Placement{Shard: 1, ID: t.ID, State: "in_transfer"})
			} else if r.Intn(2) == 0 {
				s.Initial = append(s.Initial, Placement{Shard: r.Intn(s.InitShards), ID: t.ID})
			}
		}
	case 0:
	case 1, 2:
		for _, t := range s.Targets {
			if r.Intn(3) > 0 {
				s.Initial = append(s.Initial, Placement{Shard: r.Intn(s.InitShards), ID: t.ID})
			}
		}
	case 3: // everything on shard 0 (overload) plus duplicates
		for _, t := range s.Targets {
			s.Initial = append(s.Initial, Placement{Shard: 0, ID: t.ID})
			if s.InitShards > 1 && r.Intn(3) == 0 {
				s.Initial = append(s.Initial, Placement{Shard: 1, ID: t.ID})
			}
		}
	case 4: // pending transfers: in-transfer copy on one shard, normal copy on another
		for _, t := range s.Targets {
			a := r.Intn(s.InitShards)
			if s.InitShards > 1 && r.Intn(2) == 0 {
				b := (a + 1) % s.InitShards
				s.Initial = append(s.Initial, Placement{Shard: a, ID: t.ID, State: "in_transfer"}, Placement{Shard: b, ID: t.ID})
			} else {
				s.Initial = append(s.Initial, Placement{Shard: a, ID: t.ID})
			}
		}
	}
	return s
}

// GenWorkload draws a perturbed phase without faults.
func GenWorkload(r *core.Rng, spec Spec) Scenario {
	sc := Scenario{Spec: spec, Perturbed: 4 + r.Intn(8)}
	nextID := len(spec.Targets)
	if r.Intn(6) == 0 {
		// drain and refill: every target disappears early (shards go idle, may be scaled away down to
		// min-shard, possibly to zero), new targets arrive towards the end of the phase
		sc.Perturbed = 9 + r.Intn(4)
		for _, t := range spec.Targets {
			sc.Events = append(sc.Events, Event{AtCycle: 1, Kind: "remove", Target: TargetSpec{ID: t.ID}})
		}
		for k := 0; k < 1+r.Intn(3); k++ {
			sc.Events = append(sc.Events, Event{AtCycle: sc.Perturbed - 2, Kind: "add", Target: TargetSpec{ID: nextID, Kept: keptSizes[r.Intn(5)], Drop: r.PickI(0, 5), Explorer: "up"}})
			nextID++
		}
		for c := 0; c < sc.Perturbed; c++ {
			sc.ScrapePlan = append(sc.ScrapePlan, []int{3, 3, 3, 3, 3, 3, 3, 3})
		}
		return sc
	}
	for c := 0; c < sc.Perturbed; c++ {
		switch r.Intn(6) {
		case 0:
			t := spec.Targets[r.Intn(len(spec.Targets))]
			g := t.Kept + 5 + r.Intn(20)
			if spec.MaxHead != 0 && int64(g) >= spec.MaxHead {
				g = int(spec.MaxHead) - 1
			}
			if int64(g+t.Drop) >= spec.MaxProc {
				g = int(spec.MaxProc) - t.Drop - 1
			}
			if g > t.Kept {
				sc.Events = append(sc.Events, Event{AtCycle: c, Kind: "grow", Target: TargetSpec{ID: t.ID, Kept: g}})
			}
		case 1:
			sc.Events = append(sc.Events, Event{AtCycle: c, Kind: "add", Target: TargetSpec{ID: nextID, Kept: keptSizes[r.Intn(5)], Drop: r.PickI(0, 5), Explorer: "up"}})
			nextID++
		case 2:
			sc.Events = append(sc.Events, Event{AtCycle: c, Kind: "remove", Target: TargetSpec{ID: spec.Targets[r.Intn(len(spec.Targets))].ID}})
		}
		var plan []int
		for s := 0; s < 8; s++ {
			plan = append(plan, r.Intn(5))
		}
		sc.ScrapePlan = append(sc.ScrapePlan, plan)
	}
	return sc
}

// ScratchRoot makes a private directory for a run.
func ScratchRoot(base string, idx int) string {
	d := filepath.Join(base, fmt.Sprintf("world-%d", idx))
	_ = os.MkdirAll(d, 0755)
	return d
}
