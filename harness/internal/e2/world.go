// Package e2 is the closed-loop engine: the real coordinator, real sidecars (service, proxy,
// targets manager, injector, config manager on private store directories) reached over loopback
// HTTP with the real api.Get / api.Post, a simulated Prometheus per shard that re-reads the
// generated file and scrapes through the proxy, a simulated StatefulSet and a target farm.
package e2

import (
	"context"
	"errors"
	"fmt"
	"io"
	"math/rand"
	"net/http"
	"net/http/httptest"
	"net/url"
	"os"
	"path/filepath"
	"sort"
	"strings"
	"sync"
	"time"

	"github.com/go-kit/log"
	"github.com/prometheus/client_golang/prometheus"
	"github.com/prometheus/common/model"
	"github.com/prometheus/prometheus/config"
	pdisc "github.com/prometheus/prometheus/discovery"
	"github.com/prometheus/prometheus/model/labels"
	pscrape "github.com/prometheus/prometheus/scrape"
	"k8s.io/client-go/kubernetes/fake"

	"kvassverif/internal/sc"
	"tkestack.io/kvass/pkg/api"
	"tkestack.io/kvass/pkg/coordinator"
	"tkestack.io/kvass/pkg/discovery"
	"tkestack.io/kvass/pkg/prom"
	"tkestack.io/kvass/pkg/shard"
	"tkestack.io/kvass/pkg/target"
)

const cfgText = `global:
  scrape_interval: 15s
scrape_configs:
- job_name: job
  scrape_timeout: 5s
  metric_relabel_configs:
  - source_labels: [__name__]
    regex: dropme.*
    action: drop
- job_name: job-b
  scrape_timeout: 5s
  metrics_path: /unused-default-path
  metric_relabel_configs:
  - source_labels: [__name__]
    regex: dropme.*
    action: drop
`

// JobOf: every third target belongs to the second job.
func JobOf(id int) string {
	if id%3 == 2 {
		return "job-b"
	}
	return "job"
}

// ---------------------------------------------------------------------------
// target farm

type farm struct {
	mu   sync.Mutex
	srv  *httptest.Server
	kept map[int]int
	drop map[int]int
	down map[int]bool
	hits map[int]int // requests per target in the current scrape round
}

func newFarm() *farm {
	f := &farm{kept: map[int]int{}, drop: map[int]int{}, down: map[int]bool{}, hits: map[int]int{}}
	f.srv = httptest.NewServer(http.HandlerFunc(func(w http.ResponseWriter, r *http.Request) {
		var id int
		fmt.Sscanf(r.URL.Path, "/t/%d", &id)
		f.mu.Lock()
		k, d, dn := f.kept[id], f.drop[id], f.down[id]
		f.hits[id]++
		f.mu.Unlock()
		if dn {
			w.WriteHeader(500)
			return
		}
		var b strings.Builder
		for i := 0; i < k; i++ {
			fmt.Fprintf(&b, "m{i=\"%d\"} 1\n", i)
		}
		for i := 0; i < d; i++ {
			fmt.Fprintf(&b, "dropme{i=\"%d\"} 1\n", i)
		}
		_, _ = w.Write([]byte(b.String()))
	}))
	return f
}

// ---------------------------------------------------------------------------
// one shard: real sidecar + simulated Prometheus

type node struct {
	id      string
	dir     string
	in      *sc.Instance
	apiSrv  *httptest.Server
	pxSrv   *httptest.Server
	w       *World
	promTs  []*pscrape.Target
	last    map[uint64]int64    // last scraped kept-sample count per target
	linger  map[uint64][2]int64 // removed targets: [series, rounds left]
	readyIn int                 // cycles until the pod is ready
	gen     int                 // creation counter: tells a re-created pod from its predecessor
	// faults armed for the current cycle
	dropPost, loseAck  bool
	failStatus, failRT int // cycles left
	unready            int
	staleHash          int
	failReload         int       // cycles during which "POST /-/reload" of this pod's Prometheus fails
	promDown           int       // cycles during which this pod's Prometheus answers nothing (reload and head-series query fail)
	createdAt          time.Time // harness clock before the pod was started
	heldAt             time.Time // latest harness clock reading before a status read that showed targets on this pod
}

func (n *node) head() int64 {
	var t int64
	for _, v := range n.last {
		t += v
	}
	for _, v := range n.linger {
		t += v[0]
	}
	return t
}

func (n *node) start() error {
	if n.pxSrv != nil {
		n.pxSrv.Close()
		n.apiSrv.Close()
	}
	n.pxSrv = httptest.NewUnstartedServer(http.HandlerFunc(func(w http.ResponseWriter, r *http.Request) { n.in.Proxy.ServeHTTP(w, r) }))
	n.pxSrv.Config.ErrorLog = nil
	n.pxSrv.Start()
	in, err := sc.New(sc.Options{StoreDir: n.dir, ProxyURL: n.pxSrv.URL, HeadSeries: func() (int64, error) {
		if n.promDown > 0 {
			return 0, errors.New("injected: prometheus is not answering")
		}
		return n.head(), nil
	},
		OnPromReload: n.promReload})
	n.in = in
	if err != nil {
		return err
	}
	n.apiSrv = httptest.NewServer(in.Svc)
	return nil
}

func (n *node) stop() {
	if n.pxSrv != nil {
		n.pxSrv.Close()
	}
	if n.apiSrv != nil {
		n.apiSrv.Close()
	}
}

// restart: the pod is recreated on the same volume; Prometheus starts with an empty head.
func (n *node) restart() error {
	n.last, n.linger = map[uint64]int64{}, map[uint64][2]int64{}
	n.promTs = nil
	return n.start()
}

// promReload: what "POST /-/reload" makes Prometheus do: read the generated file.
func (n *node) promReload() error {
	if n.failReload > 0 || n.promDown > 0 {
		return errors.New("injected: prometheus reload failed")
	}
	b, err := os.ReadFile(filepath.Join(n.dir, "prometheus_injected.yaml"))
	if err != nil {
		return nil
	}
	cfg, err := config.Load(string(b), false, log.NewNopLogger())
	if err != nil {
		return err
	}
	var ts []*pscrape.Target
	for _, j := range cfg.ScrapeConfigs {
		for _, sd := range j.ServiceDiscoveryConfigs {
			if st, ok := sd.(pdisc.StaticConfig); ok {
				for _, g := range st {
					t, _ := pscrape.TargetsFromGroup(g, j)
					for _, x := range t {
						if x.Labels().Len() > 0 {
							ts = append(ts, x)
						}
					}
				}
			}
		}
	}
	n.promTs = ts
	keep := map[uint64]bool{}
	for _, t := range ts {
		var h uint64
		fmt.Sscan(t.URL().Query().Get("_hash"), &h)
		keep[h] = true
	}
	for h, v := range n.last {
		if !keep[h] {
			if n.w.Spec.Residue > 0 {
				n.linger[h] = [2]int64{v, int64(n.w.Spec.Residue)}
			}
			delete(n.last, h)
		}
	}
	for h := range n.linger {
		if keep[h] {
			delete(n.linger, h)
		}
	}
	return nil
}

// scrapeRound: the simulated Prometheus scrapes each of its targets once, through the proxy.
func (n *node) scrapeRound() {
	pu, _ := url.Parse(n.pxSrv.URL)
	cli := &http.Client{Transport: &http.Transport{Proxy: http.ProxyURL(pu), DisableKeepAlives: true}, Timeout: 20 * time.Second}
	for _, t := range n.promTs {
		u := t.URL()
		resp, err := cli.Get(u.String())
		if err != nil {
			continue
		}
		b, _ := io.ReadAll(resp.Body)
		resp.Body.Close()
		var h uint64
		fmt.Sscan(u.Query().Get("_hash"), &h)
		if resp.StatusCode == 200 {
			c := int64(0)
			for _, l := range strings.Split(string(b), "\n") {
				if l != "" && !strings.HasPrefix(l, "dropme") {
					c++
				}
			}
			n.last[h] = c
		}
	}
	for h, v := range n.linger {
		v[1]--
		if v[1] <= 0 {
			delete(n.linger, h)
		} else {
			n.linger[h] = v
		}
	}
}

// ---------------------------------------------------------------------------
// world

// TargetSpec scripts one discovered target.
type TargetSpec struct {
	ID       int    `json:"id"`
	Kept     int    `json:"kept"`
	Drop     int    `json:"drop"`
	Explorer string `json:"explorer"` // up | down | unknown : what the explorer says about it
}

// Placement is an assignment written into a sidecar store before the run starts.
type Placement struct {
	Shard int    `json:"shard"`
	ID    int    `json:"id"`
	State string `json:"state"`
}

// Spec describes a world.
type Spec struct {
	MaxHead    int64  `json:"maxHead"`
	MaxProc    int64  `json:"maxProc"`
	Min        int32  `json:"min"`
	Max        int32  `json:"max"`
	Idle       string `json:"idle"` // "0" | "1ns" | "1000h"
	NoRelief   bool   `json:"disableAlleviate,omitempty"`
	Residue    int    `json:"residueRounds"`
	ReadyDelay int    `json:"readyDelayCycles"`
	KeepPVC    bool   `json:"keepPVC"`
	InitShards int    `json:"initShards"`
	// K8s: the shards are listed and scaled by the real Kubernetes replicas manager on a client-go fake whose
	// StatefulSet and pods mirror the simulated pods (ordinals above 9 matter: "prom-10" sorts before "prom-2")
	K8s bool `json:"k8s,omitempty"`
	// K8sDecoys: two more StatefulSets with the same labels exist next to ours (other replicas)
	K8sDecoys bool `json:"k8sDecoys,omitempty"`
	// BrokenReplica: a second replica is listed BEFORE this one; its only shard answers every request with 503 and
	// a JSON error body (what a sidecar whose Prometheus is down sends), through the real api.Get / api.Post
	BrokenReplica bool         `json:"brokenReplica,omitempty"`
	Targets       []TargetSpec `json:"targets"`
	Initial       []Placement  `json:"initial,omitempty"`
}

// World is a running closed loop.
type World struct {
	Spec    Spec
	root    string
	farm    *farm
	nodes   []*node
	created int
	active  map[uint64]*discovery.SDTargets
	ex      map[uint64]*target.ScrapeStatus
	cm      *prom.ConfigManager
	co      *coordinator.Coordinator
	gate    *gate
	fin     chan string
	cancel  context.CancelFunc
	mu      sync.Mutex
	scales  []int32 // ChangeScale arguments of the current cycle
	// K8s mode
	k8sCli       *fake.Clientset
	k8sMgr       shard.Manager
	k8sListings  int
	K8sNotListed int           // cycles in which no manager returned by the replicas manager listed our pods
	CycleWait    time.Duration // watchdog of one cycle (default 120 s)
	brokenSrv    *httptest.Server
	BrokenHits   int // requests the broken replica's shard answered with 503
	posts        map[string]int
	allSync      bool
	Log          []string
	// Scraped[shard id][target id] = requests that shard's proxy really made to the target (counted at the farm)
	Scraped map[string]map[int]int
	// removal monitor (C07): per ordinal, when the first pod was created and when targets were last seen there
	// (both survive pod re-creation: with a kept volume the store carries idle-since over)
	firstCreated map[int]time.Time
	heldAtOrd    map[int]time.Time
	Removals     []Removal
}

// Removal is one shard removed by a ChangeScale call of the coordinator.
type Removal struct {
	Ordinal   int
	At        time.Time // harness clock when ChangeScale arrived (the coordinator decided before)
	IdleFloor time.Time // the shard cannot have been idle since before this instant
}

type gate struct {
	w     *World
	start chan struct{}
	done  chan struct{}
	n     int
}

func (g *gate) Replicas() ([]shard.Manager, error) {
	if g.n > 0 {
		g.done <- struct{}{}
	}
	g.n++
	if _, ok := <-g.start; !ok {
		return nil, errors.New("harness shutdown")
	}
	if g.w.Spec.BrokenReplica {
		return []shard.Manager{&brokenReplica{w: g.w}, g.w}, nil
	}
	return []shard.Manager{g.w}, nil
}

type brokenReplica struct{ w *World }

func (b *brokenReplica) Shards() ([]*shard.Shard, error) {
	if b.w.brokenSrv == nil {
		b.w.brokenSrv = httptest.NewServer(http.HandlerFunc(func(rw http.ResponseWriter, r *http.Request) {
			b.w.mu.Lock()
			b.w.BrokenHits++
			b.w.mu.Unlock()
			rw.Header().Set("Content-Type", "application/json")
			rw.WriteHeader(503)
			_, _ = io.WriteString(rw, `{"status":"error","err":"get runtime info: prometheus is not reachable: dial tcp 127.0.0.1:9090: connect: connection refused"}`)
		}))
	}
	return []*shard.Shard{shard.NewShard("broken-0", b.w.brokenSrv.URL, true, sc.Quiet)}, nil
}

func (b *brokenReplica) ChangeScale(int32) error { return nil }

func hashOf(id int) uint64 { return uint64(1000 + id) }

// IDOf is the inverse.
func IDOf(h uint64) int { return int(h) - 1000 }

func (w *World) logf(f string, a ...interface{}) { w.Log = append(w.Log, fmt.Sprintf(f, a...)) }

func (w *World) setTarget(t TargetSpec) {
	w.farm.mu.Lock()
	w.farm.kept[t.ID], w.farm.drop[t.ID] = t.Kept, t.Drop
	w.farm.mu.Unlock()
	u, _ := url.Parse(w.farm.srv.URL)
	h := hashOf(t.ID)
	w.active[h] = &discovery.SDTargets{Job: JobOf(t.ID), ShardTarget: &target.Target{Hash: h, Labels: labels.FromStrings(
		model.AddressLabel, u.Host, model.SchemeLabel, "http", model.MetricsPathLabel, fmt.Sprintf("/t/%d", t.ID), "job", JobOf(t.ID), "instance", fmt.Sprint(t.ID))}}
	if w.ex[h] == nil {
		st := target.NewScrapeStatus(int64(t.Kept), int64(t.Kept+t.Drop))
		switch t.Explorer {
		case "down":
			st.Health = pscrape.HealthBad
		case "unknown":
			st.Health = pscrape.HealthUnknown
		default:
			st.Health = pscrape.HealthGood
		}
		w.ex[h] = st
	}
}

func (w *World) removeTarget(id int) { delete(w.active, hashOf(id)) }

// Shards implements shard.Manager: fresh shard objects every cycle, with fault-injecting wrappers
// around the real api.Get / api.Post.
func (w *World) Shards() ([]*shard.Shard, error) {
	var ret []*shard.Shard
	w.mu.Lock()
	w.allSync = true
	w.mu.Unlock()
	if w.Spec.K8s {
		return w.k8sShards()
	}
	for _, n := range w.nodes {
		n := n
		ready := n.readyIn <= 0 && n.unready <= 0
		if !ready {
			w.mu.Lock()
			w.allSync = false
			w.mu.Unlock()
		}
		sh := shard.NewShard(n.id, n.apiSrv.URL, ready, sc.Quiet)
		w.wrapShard(n, sh, "")
		ret = append(ret, sh)
	}
	return ret, nil
}

// wrapShard installs the fault-injecting wrappers; from != "": the address prefix the shard object uses (a pod
// IP), which is replaced by the node's real loopback address.
func (w *World) wrapShard(n *node, sh *shard.Shard, from string) {
	fix := func(u string) string {
		if from != "" && strings.HasPrefix(u, from) {
			return n.apiSrv.URL + strings.TrimPrefix(u, from)
		}
		return u
	}
	{
		sh.APIGet = func(u string, ret interface{}) error {
			u = fix(u)
			if (n.failStatus > 0 && strings.HasSuffix(u, "/targets/status/")) || (n.failRT > 0 && strings.HasSuffix(u, "/runtimeinfo/")) {
				w.mu.Lock()
				w.allSync = false
				w.mu.Unlock()
				return errors.New("injected: GET failed")
			}
			err := api.Get(u, ret)
			if err == nil && n.staleHash > 0 && strings.HasSuffix(u, "/runtimeinfo/") {
				if ri, ok := ret.(**shard.RuntimeInfo); ok && *ri != nil {
					(*ri).ConfigHash = "stale-config-hash"
				}
				w.mu.Lock()
				w.allSync = false
				w.mu.Unlock()
			}
			return err
		}
		sh.APIPost = func(u string, req interface{}, ret interface{}) error {
			u = fix(u)
			if strings.HasSuffix(u, "/status/config") && n.staleHash > 0 {
				return errors.New("injected: configuration push rejected")
			}
			if strings.HasSuffix(u, "/shard/targets/") {
				w.mu.Lock()
				w.posts[n.id]++
				w.mu.Unlock()
				if n.dropPost {
					return errors.New("injected: POST not delivered")
				}
				if n.loseAck {
					_ = api.Post(u, req, ret)
					return errors.New("injected: answer lost")
				}
			}
			return api.Post(u, req, ret)
		}
	}
}

// ChangeScale implements shard.Manager: the simulated StatefulSet.
func (w *World) ChangeScale(n int32) error {
	w.mu.Lock()
	w.scales = append(w.scales, n)
	w.mu.Unlock()
	if w.Spec.K8s {
		// the real manager writes the StatefulSet; the controller (this harness) then creates pods or deletes
		// those with the highest ordinals
		got, err := w.k8sScale(n)
		if err != nil {
			return err
		}
		n = got
	}
	for int(n) > len(w.nodes) {
		if err := w.addNode(w.Spec.ReadyDelay); err != nil {
			return err
		}
	}
	at := time.Now()
	for int(n) < len(w.nodes) {
		ord := len(w.nodes) - 1
		nd := w.nodes[ord]
		floor := nd.createdAt
		if nd.heldAt.After(floor) {
			floor = nd.heldAt
		}
		if w.Spec.KeepPVC {
			// the store (and an idle-since in it) outlives the pod: only what is known about the ordinal bounds it
			floor = w.firstCreated[ord]
			if w.heldAtOrd[ord].After(floor) {
				floor = w.heldAtOrd[ord]
			}
		}
		w.mu.Lock()
		w.Removals = append(w.Removals, Removal{Ordinal: ord, At: at, IdleFloor: floor})
		w.mu.Unlock()
		w.removeTail()
	}
	return nil
}

func (w *World) addNode(readyDelay int) error {
	ord := len(w.nodes)
	dir := filepath.Join(w.root, fmt.Sprintf("pvc-%d", ord))
	if !w.Spec.KeepPVC {
		_ = os.RemoveAll(dir)
	}
	_ = os.MkdirAll(dir, 0755)
	nd := &node{id: fmt.Sprintf("shard-%d", ord), gen: w.created, dir: dir, w: w, last: map[uint64]int64{}, linger: map[uint64][2]int64{}, readyIn: readyDelay, createdAt: time.Now()}
	if _, ok := w.firstCreated[ord]; !ok {
		w.firstCreated[ord] = nd.createdAt
	}
	if err := nd.start(); err != nil {
		return fmt.Errorf("sidecar %s does not start: %w", nd.id, err)
	}
	w.nodes = append(w.nodes, nd)
	delete(w.Scraped, nd.id)
	w.created++
	return nil
}

func (w *World) removeTail() {
	l := w.nodes[len(w.nodes)-1]
	l.stop()
	w.nodes = w.nodes[:len(w.nodes)-1]
}

func idleDur(s string) time.Duration {
	if d, err := time.ParseDuration(s); err == nil && s != "0" {
		return d
	}
	switch s {
	case "1ns":
		return time.Nanosecond
	case "1000h":
		return 1000 * time.Hour
	}
	return 0
}

// NewWorld builds the world and starts the coordinator (not yet released for its first cycle).
func NewWorld(spec Spec, root string, rseed int64) (*World, error) {
	rand.Seed(rseed)
	w := &World{Spec: spec, root: root, farm: newFarm(), active: map[uint64]*discovery.SDTargets{}, ex: map[uint64]*target.ScrapeStatus{}, posts: map[string]int{}, Scraped: map[string]map[int]int{}, firstCreated: map[int]time.Time{}, heldAtOrd: map[int]time.Time{}}
	for _, t := range spec.Targets {
		w.setTarget(t)
	}
	// initial placements are written through the real TargetsManager into the stores
	by := map[int][]Placement{}
	for _, p := range spec.Initial {
		by[p.Shard] = append(by[p.Shard], p)
	}
	for i := 0; i < spec.InitShards; i++ {
		if err := w.addNode(0); err != nil {
			return nil, err
		}
		if len(by[i]) > 0 {
			m := map[string][]*target.Target{}
			for _, p := range by[i] {
				st := w.active[hashOf(p.ID)]
				if st == nil {
					continue
				}
				t := *st.ShardTarget
				t.TargetState = p.State
				t.Series = w.ex[t.Hash].Series
				m[st.Job] = append(m[st.Job], &t)
			}
			// the sidecar has no configuration yet: give it one first, as a running shard would have
			if err := w.nodes[i].in.PushConfig(cfgText); err != nil {
				return nil, err
			}
			if err := w.nodes[i].in.UpdateTargets(m); err != nil {
				return nil, err
			}
		}
	}
	w.cm = prom.NewConfigManager()
	if err := w.cm.ReloadFromRaw([]byte(cfgText)); err != nil {
		return nil, err
	}
	w.gate = &gate{w: w, start: make(chan struct{}), done: make(chan struct{})}
	w.co = coordinator.NewCoordinator(&coordinator.Option{MaxHeadSeries: spec.MaxHead, MaxProcessSeries: spec.MaxProc, MaxShard: spec.Max, MinShard: spec.Min,
		MaxIdleTime: idleDur(spec.Idle), DisableAlleviate: spec.NoRelief},
		w.gate, w.cm.ConfigInfo, func(h uint64) *target.ScrapeStatus { return w.ex[h] },
		func() map[uint64]*discovery.SDTargets {
			cp := map[uint64]*discovery.SDTargets{}
			for k, v := range w.active {
				cp[k] = v
			}
			return cp
		}, prometheus.NewRegistry(), sc.Quiet)
	ctx, cancel := context.WithCancel(context.Background())
	w.cancel = cancel
	w.fin = make(chan string, 1)
	go func() {
		defer func() {
			if p := recover(); p != nil {
				w.fin <- fmt.Sprint(p)
			}
		}()
		_ = w.co.Run(ctx)
		w.fin <- ""
	}()
	return w, nil
}

func (w *World) cycleWait() time.Duration {
	if w.CycleWait > 0 {
		return w.CycleWait
	}
	return 120 * time.Second
}

// CycleObs is what one coordination cycle showed.
type CycleObs struct {
	Scales  []int32
	N       int  // shards at the start of the cycle
	AllSync bool // every shard was ready, answered and had the current configuration
	Posts   map[string]int
	Err     string
}

// Cycle releases exactly one coordination cycle and waits for its end.
func (w *World) Cycle() CycleObs {
	w.mu.Lock()
	w.scales, w.posts = nil, map[string]int{}
	w.mu.Unlock()
	n := len(w.nodes)
	select {
	case w.gate.start <- struct{}{}:
	case p := <-w.fin:
		return CycleObs{Err: "coordinator died: " + p}
	}
	select {
	case <-w.gate.done:
	case p := <-w.fin:
		return CycleObs{Err: "coordinator died: " + p}
	case <-time.After(w.cycleWait()):
		return CycleObs{Err: fmt.Sprintf("cycle did not complete within %v", w.cycleWait())}
	}
	// faults and delays last for the cycle they were armed for
	for _, nd := range w.nodes {
		nd.dropPost, nd.loseAck = false, false
		if nd.failStatus > 0 {
			nd.failStatus--
		}
		if nd.failRT > 0 {
			nd.failRT--
		}
		if nd.unready > 0 {
			nd.unready--
		}
		if nd.staleHash > 0 {
			nd.staleHash--
		}
		if nd.failReload > 0 {
			nd.failReload--
		}
		if nd.promDown > 0 {
			nd.promDown--
		}
		if nd.readyIn > 0 {
			nd.readyIn--
		}
	}
	w.mu.Lock()
	defer w.mu.Unlock()
	return CycleObs{Scales: append([]int32{}, w.scales...), N: n, AllSync: w.allSync, Posts: w.posts}
}

// ScrapeRound lets the given shards' Prometheus scrape once; returns farm hits per target id.
func (w *World) ScrapeRound(which []int) map[int]int {
	total := map[int]int{}
	for _, i := range which {
		if i >= len(w.nodes) {
			continue
		}
		w.farm.mu.Lock()
		w.farm.hits = map[int]int{}
		w.farm.mu.Unlock()
		w.nodes[i].scrapeRound()
		w.farm.mu.Lock()
		for k, v := range w.farm.hits {
			total[k] += v
			// the harness' own count of real scrapes per (shard, target), independent of what sidecars report
			if w.Scraped[w.nodes[i].id] == nil {
				w.Scraped[w.nodes[i].id] = map[int]int{}
			}
			w.Scraped[w.nodes[i].id][k] += v
		}
		w.farm.mu.Unlock()
	}
	return total
}

// AllShards lists the indexes of all current shards.
func (w *World) AllShards() []int {
	var l []int
	for i := range w.nodes {
		l = append(l, i)
	}
	return l
}

// Snapshot is the state of all sidecars as their HTTP API reports it.
type Snapshot struct {
	Shards []map[int]ShardEntry // per shard: target id -> entry
}

// ShardEntry is one status entry.
type ShardEntry struct {
	State  string
	Times  uint64
	Health string
	Series int64
}

// Snapshot reads every sidecar's /targets/status/ over HTTP.
func (w *World) Snapshot() Snapshot {
	var s Snapshot
	for ord, n := range w.nodes {
		m := map[int]ShardEntry{}
		res := map[uint64]*target.ScrapeStatus{}
		tb := time.Now()
		if err := api.Get(n.apiSrv.URL+"/api/v1/shard/targets/status/", &res); err == nil {
			for h, st := range res {
				m[IDOf(h)] = ShardEntry{State: st.TargetState, Times: st.ScrapeTimes, Health: string(st.Health), Series: st.Series}
			}
			if len(res) > 0 {
				n.heldAt, w.heldAtOrd[ord] = tb, tb
			}
		}
		s.Shards = append(s.Shards, m)
	}
	return s
}

func (s Snapshot) String() string {
	var b strings.Builder
	for i, m := range s.Shards {
		var hs []string
		for id, e := range m {
			x := fmt.Sprint(id)
			if e.State != "" {
				x += "*"
			}
			hs = append(hs, x)
		}
		sort.Strings(hs)
		fmt.Fprintf(&b, "%d[%s] ", i, strings.Join(hs, ","))
	}
	return b.String()
}

// Close shuts everything down.
func (w *World) Close() {
	w.cancel()
	close(w.gate.start)
	select {
	case <-w.fin:
	case <-time.After(10 * time.Second):
	}
	for _, n := range w.nodes {
		n.stop()
	}
	w.farm.srv.Close()
}

// ---- fault and workload API used by the drivers

// Fault arms one fault. Kinds: dropPost, loseAck, restart, unready, failStatus, failRuntime, staleHash, removeTail, noJobClient, restoreJobClient.
func (w *World) Fault(kind string, shardIdx, cycles int) string {
	if kind == "removeTail" {
		if len(w.nodes) == 0 {
			return "no shard"
		}
		w.removeTail()
		return ""
	}
	if shardIdx >= len(w.nodes) {
		return "no such shard"
	}
	n := w.nodes[shardIdx]
	if cycles < 1 {
		cycles = 1
	}
	switch kind {
	case "dropPost":
		n.dropPost = true
	case "loseAck":
		n.loseAck = true
	case "restart":
		if err := n.restart(); err != nil {
			return "restart failed: " + err.Error()
		}
	case "unready":
		n.unready = cycles
	case "failStatus":
		n.failStatus = cycles
	case "failRuntime":
		n.failRT = cycles
	case "staleHash":
		n.staleHash = cycles
	case "failReload":
		n.failReload = cycles
	case "promDown":
		n.promDown = cycles
	case "noJobClient":
		// this pod cannot build the HTTP client of the job (e.g. its CA file is unreadable there):
		// scrape.Manager.ApplyConfig skips such a job, the configuration hash stays the same
		cfg, err := config.Load(strings.Replace(cfgText, "  scrape_timeout: 5s\n", "  scrape_timeout: 5s\n  tls_config:\n    ca_file: /nonexistent/ca-of-this-pod.pem\n", 1), false, log.NewNopLogger())
		if err != nil {
			return "bad config: " + err.Error()
		}
		_ = n.in.SM.ApplyConfig(&prom.ConfigInfo{Config: cfg, ExtraConfig: &prom.ExtraConfig{}})
		if n.in.SM.GetJob("job") != nil {
			return "job client still present"
		}
	case "restoreJobClient":
		_ = n.in.SM.ApplyConfig(n.in.Cfg.ConfigInfo())
	}
	return ""
}

// Grow changes the size of a target at the farm.
func (w *World) Grow(id, kept int) {
	w.farm.mu.Lock()
	w.farm.kept[id] = kept
	w.farm.mu.Unlock()
}

// SetDown makes a target answer 500 at the farm (it stays discovered and explored).
func (w *World) SetDown(id int, down bool) {
	w.farm.mu.Lock()
	w.farm.down[id] = down
	w.farm.mu.Unlock()
}

// AddTarget / RemoveTarget change discovery.
func (w *World) AddTarget(t TargetSpec) { w.setTarget(t) }
func (w *World) RemoveTarget(id int)    { w.removeTarget(id) }

// ScrapedBy returns the harness-counted scrapes of a target by the shard at position i (0 if none).
func (w *World) ScrapedBy(i, id int) int {
	if i >= len(w.nodes) {
		return 0
	}
	return w.Scraped[w.nodes[i].id][id]
}

// Gen identifies the pod currently at position i.
func (w *World) Gen(i int) int {
	if i >= len(w.nodes) {
		return -1
	}
	return w.nodes[i].gen
}

// PromHas tells whether the simulated Prometheus of the shard at position i was given target id
// (it is in the generated file the Prometheus last loaded).
func (w *World) PromHas(i, id int) bool {
	if i >= len(w.nodes) {
		return false
	}
	for _, t := range w.nodes[i].promTs {
		var h uint64
		fmt.Sscan(t.URL().Query().Get("_hash"), &h)
		if IDOf(h) == id {
			return true
		}
	}
	return false
}

// TakeRemovals returns and clears the removals recorded since the last call.
func (w *World) TakeRemovals() []Removal {
	w.mu.Lock()
	defer w.mu.Unlock()
	r := w.Removals
	w.Removals = nil
	return r
}

// NumShards returns the current number of shards.
func (w *World) NumShards() int { return len(w.nodes) }

// Discovered lists the discovered target ids.
func (w *World) Discovered() []int {
	var l []int
	for h := range w.active {
		l = append(l, IDOf(h))
	}
	sort.Ints(l)
	return l
}

// Estimate returns the explorer's (series, total, health) for a target.
func (w *World) Estimate(id int) (int64, int64, string) {
	e := w.ex[hashOf(id)]
	if e == nil {
		return 0, 0, "unknown"
	}
	return e.Series, e.TotalSeries, string(e.Health)
}

// CurrentSize returns what the farm serves now for a target.
func (w *World) CurrentSize(id int) (kept, total int) {
	w.farm.mu.Lock()
	defer w.farm.mu.Unlock()
	return w.farm.kept[id], w.farm.kept[id] + w.farm.drop[id]
}
