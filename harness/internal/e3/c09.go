// Package e3 drives one real sidecar directly: persistence under interrupted writes (C09),
// bookkeeping against a reference model (C10), proxy byte fidelity (C12), failure
// propagation (C13) and series accounting (C14).
package e3

import (
	"bufio"
	"encoding/json"
	"errors"
	"flag"
	"fmt"
	"os"
	"os/exec"
	"os/signal"
	"path/filepath"
	"strings"
	"syscall"

	"github.com/prometheus/client_golang/prometheus"
	"github.com/prometheus/prometheus/model/labels"

	"kvassverif/internal/core"
	"kvassverif/internal/sc"
	"tkestack.io/kvass/pkg/shard"
	"tkestack.io/kvass/pkg/sidecar"
	"tkestack.io/kvass/pkg/target"
)

// ---------------------------------------------------------------------------
// assignments

var c09Shapes = []string{"empty", "one", "fifty", "escape", "states", "jobmove", "other-one", "big"}

func mkTarget(h uint64, state string, extra ...string) *target.Target {
	ls := labels.Labels{
		{Name: "__address__", Value: fmt.Sprintf("10.0.%d.%d:9100", h/250, h%250)},
		{Name: "__metrics_path__", Value: "/metrics"},
		{Name: "__scheme__", Value: "http"},
		{Name: "instance", Value: fmt.Sprintf("node-%d", h)},
		{Name: "job", Value: "node"},
	}
	for i := 0; i+1 < len(extra); i += 2 {
		ls = append(ls, labels.Label{Name: extra[i], Value: extra[i+1]})
	}
	return &target.Target{Hash: h, Labels: ls, Series: int64(h%97) + 1, TotalSeries: int64(h%97) + 7, TargetState: state}
}

func c09Assignment(shape string) map[string][]*target.Target {
	m := map[string][]*target.Target{}
	switch shape {
	case "empty":
	case "one":
		m["node"] = []*target.Target{mkTarget(1, "")}
	case "other-one":
		m["node"] = []*target.Target{mkTarget(2, "")}
	case "fifty":
		for h := uint64(1); h <= 50; h++ {
			j := "node"
			if h%3 == 0 {
				j = "kubelet"
			}
			m[j] = append(m[j], mkTarget(h, ""))
		}
	case "big":
		for h := uint64(1); h <= 300; h++ {
			m["node"] = append(m["node"], mkTarget(h, ""))
		}
	case "escape":
		m["weird \"job\"\\name"] = []*target.Target{
			mkTarget(11, "", "quote", `he said "hi"`, "backslash", `C:\path\to`, "newline", "a\nb\tc", "unicode", "ünïcödé ✓ 日本", "html", "<a href='x'>&</a>", "ctrl", "\x01\x1f"),
			mkTarget(12, "in_transfer", "empty", "", "json", `{"a":[1,2,{"b":null}]}`),
		}
	case "states":
		for h := uint64(1); h <= 8; h++ {
			st := ""
			if h%2 == 0 {
				st = "in_transfer"
			}
			m["node"] = append(m["node"], mkTarget(h, st))
		}
	case "jobmove":
		for h := uint64(1); h <= 8; h++ {
			m["moved"] = append(m["moved"], mkTarget(h, ""))
		}
	}
	return m
}

func stateJSON(ti sidecar.TargetsInfo) string {
	b, _ := json.Marshal(struct {
		Targets map[string][]*target.Target
		IdleAt  interface{}
	}{ti.Targets, ti.IdleAt})
	return string(b)
}

// ---------------------------------------------------------------------------
// grandchild: sweeps the byte offsets for one (P, N, mode) in a process of its own, because
// RLIMIT_FSIZE is process-wide. Output: one JSON line per offset on stdout (a pipe).

type c09Obs struct {
	Limit    int64  `json:"limit"`
	FileLen  int    `json:"fileLen,omitempty"`
	Ack      bool   `json:"ack"`
	UpdErr   string `json:"updErr,omitempty"`
	LoadErr  string `json:"loadErr,omitempty"`
	Resumed  string `json:"resumed"` // P | N | other
	Detail   string `json:"detail,omitempty"`
	StoreLen int64  `json:"storeLen"`
	Cold     string `json:"cold,omitempty"`  // restart while the update callbacks fail (Prometheus not up yet): "", ok, differs: ...
	Retry    string `json:"retry,omitempty"` // outcome of re-sending the same update once the fault is gone: "", ok, not-persisted: ..., start-fails: ...
}

func setLimit(n int64) error {
	var cur syscall.Rlimit
	if err := syscall.Getrlimit(syscall.RLIMIT_FSIZE, &cur); err != nil {
		return err
	}
	cur.Cur = uint64(n)
	if n < 0 {
		cur.Cur = cur.Max
	}
	return syscall.Setrlimit(syscall.RLIMIT_FSIZE, &cur)
}

func newTM(dir string) *sidecar.TargetsManager {
	return sidecar.NewTargetsManager(dir, prometheus.NewRegistry(), sc.Quiet)
}

func c09Child(args []string) int {
	fs := flag.NewFlagSet("c09child", flag.ExitOnError)
	dir := fs.String("dir", "", "")
	pShape := fs.String("p", "one", "")
	nShape := fs.String("n", "fifty", "")
	mode := fs.String("mode", "update", "update | oldname")
	from := fs.Int64("from", 0, "")
	to := fs.Int64("to", -1, "")
	stride := fs.Int64("stride", 1, "")
	_ = fs.Parse(args)
	signal.Ignore(syscall.SIGXFSZ)
	if *mode == "killone" {
		// one interrupted update in a process that is expected to be KILLED by the tracer inside the
		// store write (strace injects SIGKILL on the write that follows the cut one): no clean-up code runs.
		run := newTM(*dir)
		if err := run.Load(); err != nil {
			fmt.Println("LOADERR " + err.Error())
			return 0
		}
		_ = setLimit(*from)
		err := run.UpdateTargets(&shard.UpdateTargetsRequest{Targets: c09Assignment(*nShape)})
		_ = setLimit(-1)
		if err != nil {
			fmt.Println("SURVIVED-ERR " + err.Error())
		} else {
			fmt.Println("SURVIVED-ACK " + stateJSON(run.TargetsInfo()))
		}
		return 0
	}
	out := bufio.NewWriter(os.Stdout)
	defer out.Flush()
	if *mode == "refused" {
		// an update the sidecar REFUSES (the reload of Prometheus fails, the coordinator gets an error and will
		// send it again) is not acknowledged: a restart resumes the assignment acknowledged before it. Then the
		// repeated update goes through and is the one a restart resumes.
		for _, failing := range []int{0, 1} {
			o := c09Obs{Limit: int64(failing), FileLen: -1}
			_ = os.RemoveAll(*dir)
			fail := false
			run := newTM(*dir)
			for i := 0; i < 2; i++ {
				i := i
				run.AddUpdateCallbacks(func(map[string][]*target.Target) error {
					if fail && i == failing {
						return errors.New("reload of prometheus failed")
					}
					return nil
				})
			}
			if err := run.Load(); err != nil {
				o.Detail = "setup load: " + err.Error()
			}
			if err := run.UpdateTargets(&shard.UpdateTargetsRequest{Targets: c09Assignment(*pShape)}); err != nil {
				o.Detail = "setup update P: " + err.Error()
			}
			pState := stateJSON(run.TargetsInfo())
			fail = true
			err := run.UpdateTargets(&shard.UpdateTargetsRequest{Targets: c09Assignment(*nShape)})
			fail = false
			o.Ack = err == nil
			if err != nil {
				o.UpdErr = err.Error()
			}
			nState := stateJSON(run.TargetsInfo())
			fresh := newTM(*dir)
			if err := fresh.Load(); err != nil {
				o.LoadErr = err.Error()
			}
			got := stateJSON(fresh.TargetsInfo())
			switch {
			case got == pState && got == nState:
				o.Resumed = "P=N"
			case got == pState:
				o.Resumed = "P"
			case got == nState || sameTargets(got, nState):
				o.Resumed = "N"
				o.Detail = "resumed=" + clipS(got, 300) + " acknowledged before=" + clipS(pState, 200)
			default:
				o.Resumed = "other"
				o.Detail = "resumed=" + clipS(got, 300) + " previous=" + clipS(pState, 200) + " new=" + clipS(nState, 200)
			}
			if !o.Ack {
				if err := run.UpdateTargets(&shard.UpdateTargetsRequest{Targets: c09Assignment(*nShape)}); err != nil {
					o.Retry = "retry-fails: " + err.Error()
				} else {
					want := stateJSON(run.TargetsInfo())
					f2 := newTM(*dir)
					if err := f2.Load(); err != nil {
						o.Retry = "start-fails: " + err.Error()
					} else if got2 := stateJSON(f2.TargetsInfo()); got2 != want {
						o.Retry = "not-persisted: acknowledged " + clipS(want, 160) + " resumed " + clipS(got2, 160)
					} else {
						o.Retry = "ok"
					}
				}
			}
			b, _ := json.Marshal(o)
			out.Write(b)
			out.WriteByte('\n')
		}
		return 0
	}
	store := filepath.Join(*dir, "kvass-shard.json")
	P, N := c09Assignment(*pShape), c09Assignment(*nShape)

	// length of the file a complete write of N produces (upper end of the sweep)
	probe := func() int {
		_ = os.RemoveAll(*dir)
		t := newTM(*dir)
		_ = t.Load()
		_ = t.UpdateTargets(&shard.UpdateTargetsRequest{Targets: P})
		if *mode == "update" || *mode == "update+legacy" {
			_ = t.UpdateTargets(&shard.UpdateTargetsRequest{Targets: N})
		}
		st, err := os.Stat(store)
		if err != nil {
			return 0
		}
		return int(st.Size())
	}
	full := probe()
	hi := *to
	if hi < 0 || hi > int64(full)+2 {
		hi = int64(full) + 2
	}
	for lim := *from; lim <= hi; lim += *stride {
		o := c09Obs{Limit: lim, FileLen: full}
		_ = os.RemoveAll(*dir)
		var pState, nState string
		var running *sidecar.TargetsManager
		if *mode == "update+legacy" {
			// a store directory that still holds the file of an old version (kvass never deletes it)
			_ = os.MkdirAll(*dir, 0755)
			lb, _ := json.Marshal(c09Assignment("states"))
			_ = os.WriteFile(filepath.Join(*dir, "targets.json"), lb, 0644)
		}
		switch *mode {
		case "update", "update+legacy":
			// a running sidecar that acknowledged P
			run := newTM(*dir)
			running = run
			if err := run.Load(); err != nil {
				o.Detail = "setup load: " + err.Error()
			}
			if err := run.UpdateTargets(&shard.UpdateTargetsRequest{Targets: P}); err != nil {
				o.Detail = "setup update P: " + err.Error()
			}
			pState = stateJSON(run.TargetsInfo())
			_ = setLimit(lim)
			err := run.UpdateTargets(&shard.UpdateTargetsRequest{Targets: N})
			_ = setLimit(-1)
			o.Ack = err == nil
			if err != nil {
				o.UpdErr = err.Error()
			}
			nState = stateJSON(run.TargetsInfo())
		case "oldname":
			// a store written by an old version (targets.json); the first start of the new
			// version rewrites it under the new name and is interrupted there
			_ = os.MkdirAll(*dir, 0755)
			b, _ := json.Marshal(P)
			_ = os.WriteFile(filepath.Join(*dir, "targets.json"), b, 0644)
			run := newTM(*dir)
			_ = setLimit(lim)
			err := run.Load()
			_ = setLimit(-1)
			if err != nil {
				o.UpdErr = err.Error()
			}
			pState = stateJSON(run.TargetsInfo())
			nState = pState
			o.Ack = true
		}
		if st, err := os.Stat(store); err == nil {
			o.StoreLen = st.Size()
		} else {
			o.StoreLen = -1
		}
		// restart: a fresh manager on the same directory
		fresh := newTM(*dir)
		if err := fresh.Load(); err != nil {
			o.LoadErr = err.Error()
		}
		got := stateJSON(fresh.TargetsInfo())
		switch {
		case got == nState:
			o.Resumed = "N"
			if got == pState {
				o.Resumed = "P=N"
			}
		case got == pState:
			o.Resumed = "P"
		default:
			o.Resumed = "other"
			if *mode == "oldname" && sameTargets(got, pState) {
				// idle-since may legitimately be re-taken when nothing had been persisted yet
				o.Resumed = "P=N"
			} else {
				o.Detail = "resumed=" + clipS(got, 300) + " previous=" + clipS(pState, 200) + " new=" + clipS(nState, 200)
			}
		}
		// what the restarted sidecar REPORTS must be the resumed assignment: one status entry per target, in the
		// target's state (the coordinator reads states from the status, not from the store)
		if o.LoadErr == "" && o.Resumed != "other" {
			ti := fresh.TargetsInfo()
			n := 0
			for _, ts := range ti.Targets {
				for _, t := range ts {
					n++
					if st := ti.Status[t.Hash]; st == nil || st.TargetState != t.TargetState {
						o.Resumed = "other"
						o.Detail = fmt.Sprintf("resumed target %d has state %q in the assignment but the status reports %v", t.Hash, t.TargetState, st)
					}
				}
			}
			if o.Resumed != "other" && n != len(ti.Status) {
				o.Resumed = "other"
				o.Detail = fmt.Sprintf("resumed assignment has %d targets, the status %d entries", n, len(ti.Status))
			}
		}
		// the same restart while Prometheus is not up yet: the callbacks Load() runs fail; what the sidecar
		// resumes must not depend on that
		if o.LoadErr == "" {
			cold := newTM(*dir)
			cold.AddUpdateCallbacks(func(map[string][]*target.Target) error { return errors.New("prometheus is not up yet") })
			_ = cold.Load()
			gc := stateJSON(cold.TargetsInfo())
			ci, fi := cold.TargetsInfo().IdleAt != nil, fresh.TargetsInfo().IdleAt != nil
			if sameTargets(gc, got) && ci == fi && len(cold.TargetsInfo().Status) == len(fresh.TargetsInfo().Status) {
				o.Cold = "ok"
			} else {
				o.Cold = "differs: with failing callbacks resumed " + clipS(gc, 200) + " (" + fmt.Sprint(len(cold.TargetsInfo().Status)) + " status entries), otherwise " + clipS(got, 200)
			}
		}
		// the coordinator re-sends the same update in the next cycle; the running sidecar must now persist it
		if (*mode == "update" || *mode == "update+legacy") && !o.Ack && running != nil {
			if err := running.UpdateTargets(&shard.UpdateTargetsRequest{Targets: N}); err != nil {
				o.Retry = "retry-fails: " + err.Error()
			} else {
				want := stateJSON(running.TargetsInfo())
				f2 := newTM(*dir)
				if err := f2.Load(); err != nil {
					o.Retry = "start-fails: " + err.Error()
				} else if got2 := stateJSON(f2.TargetsInfo()); got2 != want {
					o.Retry = "not-persisted: acknowledged " + clipS(want, 160) + " resumed " + clipS(got2, 160)
				} else {
					o.Retry = "ok"
				}
			}
		}
		b, _ := json.Marshal(o)
		out.Write(b)
		out.WriteByte('\n')
	}
	return 0
}

func sameTargets(a, b string) bool {
	var x, y struct{ Targets json.RawMessage }
	_ = json.Unmarshal([]byte(a), &x)
	_ = json.Unmarshal([]byte(b), &y)
	return string(x.Targets) == string(y.Targets)
}

func clipS(s string, n int) string {
	if len(s) > n {
		return s[:n] + "…"
	}
	return s
}

// ---------------------------------------------------------------------------
// cases

type c09Case struct {
	Kind   string `json:"kind"` // sweep | restart | kill
	P      string `json:"p"`
	N      string `json:"n"`
	Mode   string `json:"mode"`
	From   int64  `json:"from"`
	To     int64  `json:"to"`
	Stride int64  `json:"stride"`
}

func c09Cases(tier string) []c09Case {
	var cs []c09Case
	shapes := c09Shapes
	for _, p := range shapes {
		for _, n := range shapes {
			if p == "big" && n == "big" {
				continue
			}
			if tier == "thorough" {
				// every byte offset, split into chunks for parallelism
				for from := int64(0); from < 70000; from += 2500 {
					cs = append(cs, c09Case{Kind: "sweep", P: p, N: n, Mode: "update", From: from, To: from + 2499, Stride: 1})
				}
				continue
			}
			full := (p == "one" && n == "escape") || (p == "fifty" && n == "empty") || (p == "empty" && n == "one") || (p == "states" && n == "jobmove")
			if full {
				cs = append(cs, c09Case{Kind: "sweep", P: p, N: n, Mode: "update", From: 0, To: -1, Stride: 1})
			} else if p != "big" && n != "big" {
				cs = append(cs, c09Case{Kind: "sweep", P: p, N: n, Mode: "update", From: 0, To: -1, Stride: 7})
			} else {
				cs = append(cs, c09Case{Kind: "sweep", P: p, N: n, Mode: "update", From: 0, To: -1, Stride: 211})
			}
		}
	}
	// an update refused because a reload callback fails, then a restart: the assignment acknowledged before it
	for _, p := range shapes {
		for _, n := range shapes {
			if p != n && p != "big" && n != "big" {
				cs = append(cs, c09Case{Kind: "sweep", P: p, N: n, Mode: "refused", From: 0, To: 1, Stride: 1})
			}
		}
	}
	// the same sweep in a directory that also holds a stale old-version targets.json
	for _, pr := range [][2]string{{"one", "empty"}, {"empty", "one"}, {"fifty", "empty"}, {"empty", "empty"}, {"one", "escape"}} {
		st := int64(5)
		if tier == "thorough" {
			st = 1
		}
		cs = append(cs, c09Case{Kind: "sweep", P: pr[0], N: pr[1], Mode: "update+legacy", From: 0, To: -1, Stride: st})
	}
	for _, p := range shapes {
		st := int64(3)
		if tier == "thorough" || p == "one" || p == "escape" {
			st = 1
		}
		if p == "big" && tier != "thorough" {
			st = 97
		}
		if p == "big" && tier == "thorough" {
			// ~64000 offsets with three restarts each: split into chunks so that no single case runs for minutes
			for from := int64(0); from < 70000; from += 2500 {
				cs = append(cs, c09Case{Kind: "sweep", P: p, N: p, Mode: "oldname", From: from, To: from + 2499, Stride: 1})
			}
			continue
		}
		cs = append(cs, c09Case{Kind: "sweep", P: p, N: p, Mode: "oldname", From: 0, To: -1, Stride: st})
	}
	// process KILLED inside the store write at byte N (strace injects SIGKILL), then several restarts and a follow-up update
	killPairs := [][2]string{{"one", "fifty"}, {"fifty", "one"}, {"escape", "states"}, {"empty", "fifty"}}
	points := int64(48) // offsets per pair, spread evenly over the new file's length
	if tier == "thorough" {
		killPairs = append(killPairs, [2]string{"states", "jobmove"}, [2]string{"one", "escape"}, [2]string{"fifty", "empty"}, [2]string{"one", "big"})
		points = 400
	}
	for _, pr := range killPairs {
		for from := int64(0); from < points; from += 8 {
			cs = append(cs, c09Case{Kind: "killat", P: pr[0], N: pr[1], From: from, To: from + 7, Stride: points})
		}
	}
	// process KILLED at the n-th file-system call that touches the store or its temporary file (open, write, fsync,
	// close, unlink, rename, ...): the commit step itself must be atomic, not only the bytes
	for _, pr := range [][2]string{{"one", "fifty"}, {"fifty", "empty"}, {"escape", "states"}} {
		for _, grp := range []string{"open", "sync", "rename", "unlink", "close"} {
			cs = append(cs, c09Case{Kind: "killat", P: pr[0], N: pr[1], Mode: "sys:" + grp, From: 1, To: 4, Stride: 1})
		}
	}
	// the fully wired sidecar (injector, scrape manager, proxy as in cmd/kvass/sidecar.go) under a configuration
	// that knows only some of the assigned jobs: what it acknowledged is what a restart resumes
	for _, cfgJobs := range []string{"node", "node,kubelet", "other"} {
		cs = append(cs, c09Case{Kind: "wired", P: cfgJobs})
	}
	nk := 6
	if tier == "thorough" {
		nk = 60
	}
	for k := 0; k < nk; k++ {
		cs = append(cs, c09Case{Kind: "kill", P: shapes[k%len(shapes)], N: shapes[(k*3+1)%len(shapes)]})
	}
	return cs
}

func runC09(w *core.WorkerCtx, idx int) *core.CaseResult {
	cs := c09Cases(w.Tier)
	c := cs[idx]
	res := &core.CaseResult{}
	if c.Kind == "kill" {
		return runC09Kill(w, idx, c)
	}
	if c.Kind == "killat" {
		return runC09KillAt(w, idx, c)
	}
	if c.Kind == "wired" {
		return runC09Wired(w, idx, c)
	}
	dir := filepath.Join(w.Scratch, fmt.Sprintf("store-%d", idx))
	defer os.RemoveAll(dir)
	cmd := exec.Command(w.Self, "c09child", "--dir", dir, "--p", c.P, "--n", c.N, "--mode", c.Mode,
		"--from", fmt.Sprint(c.From), "--to", fmt.Sprint(c.To), "--stride", fmt.Sprint(c.Stride))
	stdout, err := cmd.StdoutPipe()
	if err != nil {
		res.Inconcl = "pipe: " + err.Error()
		return res
	}
	var stderr strings.Builder
	cmd.Stderr = &stderr
	if err := cmd.Start(); err != nil {
		res.Inconcl = "start child: " + err.Error()
		return res
	}
	scn := bufio.NewScanner(stdout)
	scn.Buffer(make([]byte, 1<<20), 64<<20)
	n := 0
	var firstBad *c09Obs
	var sample []c09Obs
	for scn.Scan() {
		var o c09Obs
		if json.Unmarshal(scn.Bytes(), &o) != nil {
			continue
		}
		n++
		res.Execs++
		if c.Mode == "refused" {
			res.AddStat("refused_updates_then_restart", 1)
		} else {
			res.AddStat("offsets_swept", 1)
		}
		res.AddStat("resumed_"+o.Resumed, 1)
		if !o.Ack {
			res.AddStat("updates_not_acknowledged", 1)
		}
		if o.Limit < int64(o.FileLen) {
			res.AddStat("writes_cut_short", 1)
		}
		if len(sample) < 3 || (o.Limit == int64(o.FileLen)/2) {
			sample = append(sample, o)
		}
		bad := ""
		switch {
		case o.Detail != "" && strings.HasPrefix(o.Detail, "setup"):
			res.Inconcl = o.Detail
		case o.LoadErr != "":
			bad = "start-fails"
		case o.Resumed == "other":
			bad = "resumes-neither"
		case o.Ack && o.Resumed == "P":
			bad = "acknowledged-update-lost"
		case c.Mode == "refused" && !o.Ack && o.Resumed == "N":
			bad = "refused-update-resumed"
		}
		if o.Cold != "" {
			res.AddStat("restarts_with_failing_callbacks", 1)
			if o.Cold != "ok" && bad == "" {
				bad = "restart-with-failing-callbacks-resumes-other"
				o.Detail = o.Cold
			}
		}
		if o.Retry != "" && o.Retry != "ok" {
			res.AddStat("retries_after_failed_write", 1)
			if bad == "" {
				bad = "retried-update-" + strings.SplitN(o.Retry, ":", 2)[0]
				o.Detail = o.Retry
			}
		} else if o.Retry == "ok" {
			res.AddStat("retries_after_failed_write", 1)
		}
		if bad != "" {
			sig := "C09/" + c.Mode + "/" + bad
			if firstBad == nil {
				o2 := o
				firstBad = &o2
			}
			if c.Mode == "refused" {
				res.Violate(sig, "previous=%s new=%s: the update was refused because reload callback %d failed (acknowledged: %v, error %q); restart: load error %q, resumed %s %s",
					c.P, c.N, o.Limit, o.Ack, o.UpdErr, o.LoadErr, o.Resumed, o.Detail)
				continue
			}
			res.Violate(sig, "previous=%s new=%s: store write stopped after %d of %d bytes (update acknowledged: %v, error %q); restart: load error %q, resumed %s %s",
				c.P, c.N, o.Limit, o.FileLen, o.Ack, o.UpdErr, o.LoadErr, o.Resumed, o.Detail)
		}
	}
	if err := cmd.Wait(); err != nil {
		res.Inconcl = fmt.Sprintf("crash child failed: %v: %s", err, clipS(stderr.String(), 500))
	}
	if n == 0 && res.Inconcl == "" && c.From == 0 {
		res.Inconcl = "crash child produced no observation"
	}
	res.Viol = dedupeV(res.Viol)
	res.Sig = fmt.Sprintf("%s|%s>%s|%d-%d/%d", c.Mode, c.P, c.N, c.From, c.To, c.Stride)
	res.Nontrivial = n > 0
	if firstBad != nil {
		res.Witness = map[string]interface{}{"case": c, "first_failing_observation": firstBad}
	}
	if idx%17 == 0 {
		res.Sample = map[string]interface{}{"case": c, "observations": sample}
	}
	return res
}

func dedupeV(vs []core.Violation) []core.Violation {
	seen := map[string]bool{}
	var out []core.Violation
	for _, v := range vs {
		if seen[v.Sig] {
			continue
		}
		seen[v.Sig] = true
		out = append(out, v)
	}
	return out
}

func init() {
	core.RegisterSub("c09child", c09Child)
	core.Register(&core.Prop{
		ID:    "C09",
		Level: "fault_enumeration",
		Rule: "fault = the write of the store file stops after exactly N bytes (RLIMIT_FSIZE=N in a child process running the real TargetsManager.UpdateTargets / Load; the kernel cuts the write, which leaves the disk as a kill or a full disk at byte N would); " +
			"enumerated over ordered pairs (previous, new) of assignment shapes {empty, one, fifty, escape-heavy labels, mixed states, job move, other-one, 300 targets} x every offset N in 0..len(file)+2 (thorough: all pairs, stride 1; quick: stride 1 for four pairs and for the old-file-name path, stride 7/211 otherwise), " +
			"plus the old-file-name fall-back interrupted while it is first rewritten, plus the update sweep in a directory that still holds a stale old-version targets.json (5 pairs incl. empty assignments), plus the process KILLED inside the store write at byte N (strace injects SIGKILL on the write() that follows the cut one, so no clean-up code runs; 4 pairs, thorough 8, strided offsets) followed by three restarts and an acknowledged follow-up update, plus SIGKILL of the real `kvass sidecar` binary during updates; after each fault a fresh manager loads the directory, then the running sidecar is sent the SAME update again without fault (as the coordinator would) and a restart must resume it (after a cut write: twice, then a follow-up update and another restart); " +
			"mode refused: an update refused because one of two reload callbacks fails is followed by a restart (must resume the assignment acknowledged before it), then repeated and restarted again (must resume the new one); " +
			"in every second SIGKILL case the sidecar runs in file mode (--config.file) and the restarted process finds a Prometheus that takes 1.5 s to reload: the first answer of its API must already show the resumed assignment; " +
			"non-trivial = a sweep chunk with at least one offset executed; distinct = (mode, previous, new, offset range)",
		Assumptions: []string{
			"a write cut by RLIMIT_FSIZE after N bytes leaves the same bytes on disk as a process killed / a disk filling up at that byte; later fsync/power-loss behaviour of the file system is out of scope",
			"state compared = {Targets, IdleAt} as serialised by encoding/json (job -> [hash, labels, series, totalSeries, state], idle-since to the nanosecond)",
		},
		NumCases:      func(tier string) int { return len(c09Cases(tier)) },
		Run:           runC09,
		CaseTimeout:   600e9,
		MinNontrivial: 20,
		Exhaustive:    func(tier string) bool { return tier == "thorough" },
	})
}

// runC09KillAt: the updating process is killed by the tracer inside the store write.
func runC09KillAt(w *core.WorkerCtx, idx int, c c09Case) *core.CaseResult {
	res := &core.CaseResult{Sig: fmt.Sprintf("killat|%s|%s>%s|%d-%d/%d", c.Mode, c.P, c.N, c.From, c.To, c.Stride)}
	if _, err := exec.LookPath("strace"); err != nil {
		res.Inconcl = "strace not available: " + err.Error()
		return res
	}
	P, N, X := c09Assignment(c.P), c09Assignment(c.N), c09Assignment("other-one")
	var firstBad string
	// length of the store a complete write of the new assignment produces
	probeDir := filepath.Join(w.Scratch, fmt.Sprintf("killat-probe-%d", idx))
	pt := newTM(probeDir)
	_ = pt.Load()
	_ = pt.UpdateTargets(&shard.UpdateTargetsRequest{Targets: N})
	full := int64(0)
	if st, err := os.Stat(filepath.Join(probeDir, "kvass-shard.json")); err == nil {
		full = st.Size()
	}
	os.RemoveAll(probeDir)
	for k := c.From; k <= c.To; k++ {
		// point k of c.Stride evenly spread offsets in 1..full-1
		lim := 1 + k*(full-2)/c.Stride
		if full < 3 {
			lim = 1
		}
		dir := filepath.Join(w.Scratch, fmt.Sprintf("killat-%d-%d-%d", idx, lim, k))
		_ = os.RemoveAll(dir)
		setup := newTM(dir)
		if err := setup.Load(); err != nil {
			res.Inconcl = "setup load: " + err.Error()
			break
		}
		if err := setup.UpdateTargets(&shard.UpdateTargetsRequest{Targets: P}); err != nil {
			res.Inconcl = "setup update: " + err.Error()
			break
		}
		pState := stateJSON(setup.TargetsInfo())
		store := filepath.Join(dir, "kvass-shard.json")
		cmd := exec.Command("strace", "-f", "-o", "/dev/null", "-P", store, "-P", store+".tmp", "-e", "trace=write", "-e", "inject=write:signal=KILL:when=3",
			w.Self, "c09child", "--mode", "killone", "--dir", dir, "--n", c.N, "--from", fmt.Sprint(lim))
		if strings.HasPrefix(c.Mode, "sys:") {
			calls := map[string]string{"open": "openat,open,creat", "sync": "fsync,fdatasync", "rename": "rename,renameat,renameat2",
				"unlink": "unlink,unlinkat", "close": "close"}[strings.TrimPrefix(c.Mode, "sys:")]
			// k-th such call on the store or its temporary file, no size limit on the write
			cmd = exec.Command("strace", "-f", "-o", "/dev/null", "-P", store, "-P", store+".tmp", "-e", "trace="+calls, "-e", fmt.Sprintf("inject=%s:signal=KILL:when=%d", calls, k),
				w.Self, "c09child", "--mode", "killone", "--dir", dir, "--n", c.N, "--from", "-1")
		}
		out, _ := cmd.Output()
		so := strings.TrimSpace(string(out))
		killed := !strings.HasPrefix(so, "SURVIVED") && !strings.HasPrefix(so, "LOADERR")
		acked := strings.HasPrefix(so, "SURVIVED-ACK")
		if strings.HasPrefix(so, "LOADERR") {
			res.Inconcl = "child could not load the prepared store: " + so
			os.RemoveAll(dir)
			break
		}
		res.Execs++
		if strings.HasPrefix(c.Mode, "sys:") {
			res.AddStat("killat_file_system_calls", 1)
			if killed {
				res.AddStat("killat_killed_at_a_file_system_call", 1)
			}
		} else {
			res.AddStat("killat_offsets", 1)
		}
		if strings.HasPrefix(c.Mode, "sys:") {
		} else if killed {
			res.AddStat("killat_killed_inside_write", 1)
		} else if acked {
			res.AddStat("killat_update_completed", 1)
		} else {
			res.AddStat("killat_write_error_returned", 1)
		}
		// three restarts in a row, then an acknowledged update and one more restart
		var first string
		bad := ""
		for k := 0; k < 3 && bad == ""; k++ {
			f := newTM(dir)
			if err := f.Load(); err != nil {
				bad = fmt.Sprintf("start-fails: restart %d after the kill: %v", k+1, err)
				break
			}
			st := stateJSON(f.TargetsInfo())
			if k == 0 {
				first = st
				isP := st == pState
				isN := sameTargets(st, stateJSON(sidecarInfo(N)))
				switch {
				case acked && !isN:
					bad = "acknowledged-update-lost: resumed " + clipS(st, 200)
				case !isP && !isN:
					bad = "resumes-neither: resumed " + clipS(st, 200) + " previous " + clipS(pState, 120)
				case isN:
					res.AddStat("resumed_N", 1)
				default:
					res.AddStat("resumed_P", 1)
				}
			} else if st != first {
				bad = fmt.Sprintf("resumed-state-changes: restart %d resumed %s, restart 1 resumed %s", k+1, clipS(st, 150), clipS(first, 150))
			}
			if bad == "" && k == 2 {
				if err := f.UpdateTargets(&shard.UpdateTargetsRequest{Targets: X}); err != nil {
					bad = "follow-up-update-fails: " + err.Error()
					break
				}
				want := stateJSON(f.TargetsInfo())
				g := newTM(dir)
				if err := g.Load(); err != nil {
					bad = "start-fails: restart after the follow-up update: " + err.Error()
				} else if got := stateJSON(g.TargetsInfo()); got != want {
					bad = "acknowledged-update-lost: follow-up update acknowledged, resumed " + clipS(got, 200)
				}
			}
		}
		os.RemoveAll(dir)
		if bad != "" {
			kind := strings.SplitN(bad, ":", 2)[0]
			where := fmt.Sprintf("inside the store write after %d bytes", lim)
			if strings.HasPrefix(c.Mode, "sys:") {
				where = fmt.Sprintf("at the %d. %s call on the store / its temporary file", k, strings.TrimPrefix(c.Mode, "sys:"))
			}
			res.Violate("C09/killat/"+kind, "previous=%s new=%s: process killed %s (killed %v, acknowledged %v): %s", c.P, c.N, where, killed, acked, bad)
			if firstBad == "" {
				firstBad = fmt.Sprintf("limit %d: %s", lim, bad)
			}
		}
	}
	res.Nontrivial = res.Execs > 0
	res.Viol = dedupeV(res.Viol)
	if firstBad != "" {
		res.Witness = map[string]interface{}{"case": c, "first_failing": firstBad}
	}
	if idx%5 == 0 {
		res.Sample = map[string]interface{}{"case": c, "observed": res.Stats}
	}
	return res
}

func sidecarInfo(m map[string][]*target.Target) sidecar.TargetsInfo {
	return sidecar.TargetsInfo{Targets: m}
}

// runC09Wired: acknowledged updates through the API of a fully wired sidecar, every ordered pair of shapes,
// then a restart (a fresh targets manager on the same directory, and a fresh fully wired sidecar).
func runC09Wired(w *core.WorkerCtx, idx int, c c09Case) *core.CaseResult {
	res := &core.CaseResult{Sig: "wired|" + c.P, Nontrivial: true}
	var sb strings.Builder
	sb.WriteString("global:\n  scrape_interval: 15s\nscrape_configs:\n")
	for _, j := range strings.Split(c.P, ",") {
		fmt.Fprintf(&sb, "- job_name: %s\n  static_configs:\n  - targets: ['unused.example:1']\n", j)
	}
	for _, p := range c09Shapes {
		for _, n := range c09Shapes {
			dir := filepath.Join(w.Scratch, fmt.Sprintf("wired-%d-%s-%s", idx, p, n))
			in, err := sc.New(sc.Options{StoreDir: dir})
			if err != nil {
				res.Inconcl = "sidecar: " + err.Error()
				return res
			}
			if err := in.PushConfig(sb.String()); err != nil {
				res.Inconcl = "config: " + err.Error()
				return res
			}
			P, N := c09Assignment(p), c09Assignment(n)
			if err := in.UpdateTargets(P); err != nil {
				res.Inconcl = "update P: " + err.Error()
				return res
			}
			if err := in.UpdateTargets(N); err != nil {
				res.Inconcl = "update N: " + err.Error()
				return res
			}
			res.Execs++
			res.AddStat("wired_acknowledged_updates", 2)
			f := newTM(dir)
			if err := f.Load(); err != nil {
				res.Violate("C09/wired/start-fails", "previous=%s new=%s (configuration knows jobs %s): restart fails: %v", p, n, c.P, err)
			} else if got := targetsJSON(f.TargetsInfo().Targets); got != targetsJSON(N) {
				res.Violate("C09/wired/acknowledged-update-lost", "previous=%s new=%s, both acknowledged by a fully wired sidecar whose configuration knows jobs [%s]: a restart resumes %s, acknowledged %s", p, n, c.P, clipS(got, 200), clipS(targetsJSON(N), 200))
			}
			// and a fully wired restart (its Load() runs the callbacks and re-saves)
			if in2, err := sc.New(sc.Options{StoreDir: dir}); err == nil {
				_ = in2.PushConfig(sb.String())
				g := newTM(dir)
				if err := g.Load(); err == nil {
					if got := targetsJSON(g.TargetsInfo().Targets); got != targetsJSON(N) {
						res.Violate("C09/wired/lost-after-second-start", "previous=%s new=%s (configuration knows jobs [%s]): after a wired restart the store holds %s, acknowledged %s", p, n, c.P, clipS(got, 200), clipS(targetsJSON(N), 200))
					}
				}
			}
			os.RemoveAll(dir)
		}
	}
	res.Viol = dedupeV(res.Viol)
	return res
}
