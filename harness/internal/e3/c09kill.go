package e3

import (
	"bytes"
	"encoding/json"
	"fmt"
	"io"
	"math/rand"
	"net"
	"net/http"
	"net/http/httptest"
	"os"
	"os/exec"
	"path/filepath"
	"sort"
	"strings"
	"sync/atomic"
	"syscall"
	"time"

	"kvassverif/internal/core"
	"tkestack.io/kvass/pkg/shard"
	"tkestack.io/kvass/pkg/target"
)

// portPair hands out API/proxy ports from a range private to this worker process. Ports probed
// with Listen(":0") and closed again can be taken by another worker's sidecar before ours binds
// them, and the readiness probe would then talk to the wrong process.

func portPair() (int, int) {
	// random even port below the ephemeral range (many harness processes run side by side; anything derived from
	// the process id collides sooner or later); the pair is test-bound before it is handed out
	for try := 0; try < 40; try++ {
		a := 10000 + 2*portRand.Intn(5000)
		ok := true
		for _, p := range []int{a, a + 1} {
			l, err := net.Listen("tcp", fmt.Sprintf("127.0.0.1:%d", p))
			if err != nil {
				ok = false
				break
			}
			l.Close()
		}
		if ok {
			return a, a + 1
		}
	}
	return 0, 0
}

var portRand = rand.New(rand.NewSource(time.Now().UnixNano() ^ int64(os.Getpid())<<20))

type realSidecar struct {
	cmd    *exec.Cmd
	api    string
	proxy  string
	stderr *bytes.Buffer
	done   chan error
}

// startRealSidecar retries on another port pair when the process that answers is not ours.
func startRealSidecar(bin, dir, promURL string, tsdbHits func() int64, extra ...string) (*realSidecar, error) {
	var rs *realSidecar
	var err error
	for try := 0; try < 6; try++ {
		rs, err = startRealSidecarOnce(bin, dir, promURL, tsdbHits, extra...)
		if err == nil || strings.Contains(err.Error(), "exited during start-up") {
			return rs, err
		}
	}
	return rs, err
}

// RealSidecar is the real `kvass sidecar` process, for checks of other packages.
type RealSidecar struct{ rs *realSidecar }

// StartRealSidecar starts bin/kvass sidecar with extra flags next to a fake Prometheus the caller owns.
func StartRealSidecar(bin, dir, promURL string, tsdbHits func() int64, extra ...string) (*RealSidecar, error) {
	_ = os.MkdirAll(filepath.Join(dir, "store"), 0755)
	rs, err := startRealSidecar(bin, dir, promURL, tsdbHits, extra...)
	return &RealSidecar{rs}, err
}

// API is the base URL of the sidecar's API.
func (r *RealSidecar) API() string { return r.rs.api }

// ProxyURL is the address of the sidecar's scrape proxy (what --inject.proxy writes into the generated file).
func (r *RealSidecar) ProxyURL() string { return r.rs.proxy }

// Stderr is what the process has logged so far.
func (r *RealSidecar) Stderr() string { return r.rs.stderr.String() }

// Kill sends SIGKILL and waits.
func (r *RealSidecar) Kill() { r.rs.kill() }

func startRealSidecarOnce(bin, dir, promURL string, tsdbHits func() int64, extra ...string) (*realSidecar, error) {
	ap, pp := portPair()
	if ap == 0 {
		return &realSidecar{stderr: &bytes.Buffer{}}, fmt.Errorf("no free port pair in this worker's range (harness)")
	}
	rs := &realSidecar{api: fmt.Sprintf("http://127.0.0.1:%d", ap), proxy: fmt.Sprintf("http://127.0.0.1:%d", pp), stderr: &bytes.Buffer{}, done: make(chan error, 1)}
	rs.cmd = exec.Command(bin, "sidecar", "--config.file=", "--config.output-file="+filepath.Join(dir, "out.yaml"),
		"--store.path="+filepath.Join(dir, "store"), fmt.Sprintf("--web.api-addr=127.0.0.1:%d", ap),
		fmt.Sprintf("--web.proxy-addr=127.0.0.1:%d", pp), "--prometheus.url="+promURL, fmt.Sprintf("--inject.proxy=http://127.0.0.1:%d", pp))
	rs.cmd.Args = append(rs.cmd.Args, extra...)
	rs.cmd.Stderr = rs.stderr
	rs.cmd.Stdout = rs.stderr
	if err := rs.cmd.Start(); err != nil {
		return nil, err
	}
	go func() { rs.done <- rs.cmd.Wait() }()
	// readiness: the API answers
	for i := 0; i < 600; i++ {
		select {
		case err := <-rs.done:
			return rs, fmt.Errorf("sidecar exited during start-up: %v", err)
		default:
		}
		before := tsdbHits()
		resp, err := http.Get(rs.api + "/api/v1/shard/runtimeinfo/")
		if err == nil {
			io.Copy(io.Discard, resp.Body)
			resp.Body.Close()
			// identity: OUR sidecar asks OUR fake Prometheus for the head series when it answers
			if resp.StatusCode == 200 && tsdbHits() > before {
				return rs, nil
			}
		}
		time.Sleep(10 * time.Millisecond)
	}
	rs.kill()
	return rs, fmt.Errorf("sidecar API not ready after 6 s (harness)")
}

func (rs *realSidecar) kill() {
	if rs.cmd != nil && rs.cmd.Process != nil {
		_ = rs.cmd.Process.Signal(syscall.SIGKILL)
		select {
		case <-rs.done:
		case <-time.After(5 * time.Second):
		}
	}
}

func (rs *realSidecar) post(ts map[string][]*target.Target) error {
	b, _ := json.Marshal(&shard.UpdateTargetsRequest{Targets: ts})
	resp, err := http.Post(rs.api+"/api/v1/shard/targets/", "application/json", bytes.NewReader(b))
	if err != nil {
		return err
	}
	defer resp.Body.Close()
	body, _ := io.ReadAll(resp.Body)
	if resp.StatusCode != 200 || !strings.Contains(string(body), `"success"`) {
		return fmt.Errorf("code %d body %s", resp.StatusCode, clipS(string(body), 200))
	}
	return nil
}

func (rs *realSidecar) hashes() ([]uint64, error) {
	resp, err := http.Get(rs.api + "/api/v1/shard/targets/status/")
	if err != nil {
		return nil, err
	}
	defer resp.Body.Close()
	var r struct {
		Data map[uint64]json.RawMessage `json:"data"`
	}
	if err := json.NewDecoder(resp.Body).Decode(&r); err != nil {
		return nil, err
	}
	var hs []uint64
	for h := range r.Data {
		hs = append(hs, h)
	}
	sort.Slice(hs, func(i, j int) bool { return hs[i] < hs[j] })
	return hs, nil
}

func hashesOf(m map[string][]*target.Target) []uint64 {
	var hs []uint64
	for _, ts := range m {
		for _, t := range ts {
			hs = append(hs, t.Hash)
		}
	}
	sort.Slice(hs, func(i, j int) bool { return hs[i] < hs[j] })
	return hs
}

func targetsJSON(m map[string][]*target.Target) string {
	if m == nil {
		m = map[string][]*target.Target{}
	}
	b, _ := json.Marshal(m)
	return string(b)
}

// runC09Kill: the real `kvass sidecar` binary is SIGKILLed while an update is in flight,
// then restarted on the same store.
func runC09Kill(w *core.WorkerCtx, idx int, c c09Case) *core.CaseResult {
	res := &core.CaseResult{Sig: fmt.Sprintf("kill|%s>%s|%d", c.P, c.N, idx), Nontrivial: true}
	bin := filepath.Join(os.Getenv("VERIF_ROOT"), "bin", "kvass")
	if _, err := os.Stat(bin); err != nil {
		res.Inconcl = "kvass binary not built: " + err.Error()
		return res
	}
	var tsdb int64
	var slowReload int32 // > 0: Prometheus takes 1.5 s to reload (a big configuration): the sidecar's start-up blocks on it
	prom := httptest.NewServer(http.HandlerFunc(func(rw http.ResponseWriter, r *http.Request) {
		rw.Header().Set("Content-Type", "application/json")
		if strings.HasSuffix(r.URL.Path, "/status/tsdb") {
			atomic.AddInt64(&tsdb, 1)
			io.WriteString(rw, `{"status":"success","data":{"headStats":{"numSeries":0}}}`)
			return
		}
		if strings.HasSuffix(r.URL.Path, "/-/reload") && atomic.LoadInt32(&slowReload) > 0 {
			time.Sleep(1500 * time.Millisecond)
		}
		io.WriteString(rw, `{"status":"success"}`)
	}))
	defer prom.Close()
	dir := filepath.Join(w.Scratch, fmt.Sprintf("kill-%d", idx))
	_ = os.MkdirAll(filepath.Join(dir, "store"), 0755)
	defer os.RemoveAll(dir)
	rng := core.NewRng(w.Seed, 0xC09, uint64(idx))
	P, N := c09Assignment(c.P), c09Assignment(c.N)
	rounds := 4
	var trace []string
	for round := 0; round < rounds; round++ {
		// in every second case the restarts find a Prometheus that is slow to reload: whatever the sidecar's API
		// answers FIRST after the restart must already be the resumed assignment
		if idx%2 == 1 && round > 0 {
			atomic.StoreInt32(&slowReload, 1)
			res.AddStat("restarts_while_prometheus_is_slow_to_reload", 1)
		}
		var extra []string
		if idx%2 == 1 {
			// file mode (the binary's default): the configuration is read from a file at start-up, before the store
			cfgFile := filepath.Join(dir, "prometheus.yml")
			_ = os.WriteFile(cfgFile, []byte("global:\n  scrape_interval: 15s\nscrape_configs:\n- job_name: node\n- job_name: kubelet\n"), 0644)
			extra = append(extra, "--config.file="+cfgFile)
		}
		rs, err := startRealSidecar(bin, dir, prom.URL, func() int64 { return atomic.LoadInt64(&tsdb) }, extra...)
		atomic.StoreInt32(&slowReload, 0)
		if err != nil {
			if strings.Contains(err.Error(), "exited during start-up") {
				res.Violate("C09/kill/start-fails", "real sidecar did not start on the store left by a SIGKILL (round %d): %v: %s", round, err, clipS(rs.stderr.String(), 600))
				res.Witness = map[string]interface{}{"case": c, "trace": trace, "stderr": clipS(rs.stderr.String(), 4000)}
			} else {
				res.Inconcl = err.Error()
			}
			return res
		}
		if round > 0 {
			// what did it resume?
			hs, err := rs.hashes()
			if err != nil {
				res.Inconcl = "status after restart: " + err.Error()
				rs.kill()
				return res
			}
			got := fmt.Sprint(hs)
			res.Execs++
			res.AddStat("kills", 1)
			switch got {
			case fmt.Sprint(hashesOf(N)):
				res.AddStat("resumed_N", 1)
			case fmt.Sprint(hashesOf(P)):
				res.AddStat("resumed_P", 1)
			default:
				res.Violate("C09/kill/resumes-neither", "after SIGKILL the real sidecar resumed hashes %v; previous %v, new %v", hs, hashesOf(P), hashesOf(N))
				res.Witness = map[string]interface{}{"case": c, "trace": trace}
			}
		}
		if err := rs.post(P); err != nil {
			res.Inconcl = "post P: " + err.Error()
			rs.kill()
			return res
		}
		ack := make(chan error, 1)
		go func() { ack <- rs.post(N) }()
		delay := time.Duration(rng.Intn(2500)) * time.Microsecond
		time.Sleep(delay)
		acked := false
		select {
		case e := <-ack:
			acked = e == nil
		default:
		}
		rs.kill()
		trace = append(trace, fmt.Sprintf("round %d: killed %v after sending the update (acknowledged before kill: %v)", round, delay, acked))
		if acked {
			res.AddStat("kills_after_ack", 1)
			// an acknowledged update must be what the store holds: read it with a fresh in-process manager
			cp := filepath.Join(dir, "copy")
			_ = os.RemoveAll(cp)
			_ = os.MkdirAll(cp, 0755)
			if b, err := os.ReadFile(filepath.Join(dir, "store", "kvass-shard.json")); err == nil {
				_ = os.WriteFile(filepath.Join(cp, "kvass-shard.json"), b, 0644)
			}
			f := newTM(cp)
			if err := f.Load(); err != nil {
				res.Violate("C09/kill/start-fails", "store left after an acknowledged update and SIGKILL does not load: %v", err)
			} else if targetsJSON(f.TargetsInfo().Targets) != targetsJSON(N) {
				res.Violate("C09/kill/acknowledged-update-lost", "update %s was acknowledged, then SIGKILL; the store holds %s", c.N, clipS(targetsJSON(f.TargetsInfo().Targets), 300))
			}
		} else {
			res.AddStat("kills_before_ack", 1)
		}
	}
	if idx%7 == 0 {
		res.Sample = map[string]interface{}{"case": c, "trace": trace}
	}
	res.Viol = dedupeV(res.Viol)
	return res
}
