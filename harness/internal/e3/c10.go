package e3

import (
	"errors"
	"fmt"
	"os"
	"path/filepath"
	"sort"
	"time"

	"kvassverif/internal/core"
	"tkestack.io/kvass/pkg/target"
)

// c10Entry is the reference model of one status entry.
type c10Entry struct {
	state  string
	health string
	hasErr bool
	series int64
	total  int64
	times  uint64
	window []int64
}

type c10Model struct {
	st       map[uint64]*c10Entry
	idleAt   *time.Time // nil: not idle. Once observed, the exact reported instant.
	idleLo   time.Time  // bracket of the update that emptied the shard
	idleHi   time.Time
	idleSeen bool
}

type c10Op struct {
	Kind    string              `json:"kind"` // update | scrape | restart
	Targets map[string][]c10Tgt `json:"targets,omitempty"`
	Hash    uint64              `json:"hash,omitempty"`
	OK      bool                `json:"ok,omitempty"`
	Kept    int                 `json:"kept,omitempty"`
}

type c10Tgt struct {
	Hash   uint64 `json:"hash"`
	State  string `json:"state"`
	Series int64  `json:"series"`
	Total  int64  `json:"total"`
}

func runC10(w *core.WorkerCtx, idx int) *core.CaseResult {
	r := core.NewRng(w.Seed, 0xC10, uint64(idx))
	res := &core.CaseResult{}
	dir := filepath.Join(w.Scratch, fmt.Sprintf("c10-%d", idx))
	// Prometheus' TSDB status API (where the sidecar gets the head series from) fails while headFail is set
	headFail := false
	headFn := func() (int64, error) {
		if headFail {
			return 0, errors.New("prometheus: /api/v1/status/tsdb: connection refused")
		}
		return 0, nil
	}
	rg, err := newRigHead(dir, rigLongTimeout, "", headFn)
	if err != nil {
		res.Inconcl = "rig: " + err.Error()
		return res
	}
	defer func() { rg.close() }()
	model := &c10Model{st: map[uint64]*c10Entry{}}
	// a freshly started sidecar has loaded an empty store: it is idle since its start
	model.idleLo, model.idleHi = time.Time{}, time.Now()
	idleNow := true
	var ops []c10Op
	nOps := 5 + r.Intn(36)
	universe := []uint64{1, 2, 3, 4, 5, 6}
	cur := map[uint64]c10Tgt{}
	curJob := map[uint64]string{}
	storeStale := false // an update failed after being applied in memory: the store may lag behind
	lateCheck := false  // the next update is checked once more 1.3 s later

	check := func(after string) bool {
		st, err := rg.in.Status()
		if err != nil {
			res.Inconcl = "status: " + err.Error()
			return false
		}
		if len(st) != len(model.st) {
			res.Violate("C10/key-set", "after %s: status has %d entries %v, assignment has %d %v", after, len(st), keysS(st), len(model.st), keysM(model.st))
		}
		for h, m := range model.st {
			s := st[h]
			if s == nil {
				res.Violate("C10/key-set", "after %s: no status entry for assigned target %d", after, h)
				continue
			}
			if s.TargetState != m.state {
				res.Violate("C10/state", "after %s: target %d state %q, last requested %q", after, h, s.TargetState, m.state)
			}
			if string(s.Health) != m.health {
				res.Violate("C10/health", "after %s: target %d health %q, expected %q", after, h, s.Health, m.health)
			}
			if (s.LastError != "") != m.hasErr {
				res.Violate("C10/last-error", "after %s: target %d lastError %q, expected error present = %v", after, h, s.LastError, m.hasErr)
			}
			if s.ScrapeTimes != m.times {
				res.Violate("C10/scrape-counter", "after %s: target %d ScrapeTimes %d, expected %d", after, h, s.ScrapeTimes, m.times)
			}
			if s.Series != m.series || s.TotalSeries != m.total {
				res.Violate("C10/series", "after %s: target %d series/total %d/%d, expected %d/%d", after, h, s.Series, s.TotalSeries, m.series, m.total)
			}
		}
		if r.Intn(4) == 0 {
			// a poll while Prometheus' TSDB API fails: the sidecar may refuse to answer, but whatever it does answer
			// about being idle must be true now
			headFail = true
			rtF, errF := rg.in.Runtime()
			headFail = false
			res.AddStat("runtimeinfo_polls_while_the_head_series_query_fails", 1)
			if errF == nil && rtF != nil {
				res.AddStat("of_those_answered", 1)
				switch {
				case !idleNow && rtF.IdleStartAt != nil:
					res.Violate("C10/idle-not-cleared", "after %s (runtimeinfo polled while Prometheus' TSDB API fails): %d targets assigned but the shard reports idle since %s", after, len(model.st), rtF.IdleStartAt.Format(time.RFC3339Nano))
				case idleNow && rtF.IdleStartAt == nil:
					res.Violate("C10/idle-not-reported", "after %s (runtimeinfo polled while Prometheus' TSDB API fails): assignment is empty but the shard does not report being idle", after)
				case idleNow && model.idleSeen && !rtF.IdleStartAt.Equal(*model.idleAt):
					res.Violate("C10/idle-since-changed", "after %s (runtimeinfo polled while Prometheus' TSDB API fails): idle since %s, previously reported %s for the same idle period", after, rtF.IdleStartAt.Format(time.RFC3339Nano), model.idleAt.Format(time.RFC3339Nano))
				}
			}
		}
		rt, err := rg.in.Runtime()
		if err != nil {
			res.Inconcl = "runtimeinfo: " + err.Error()
			return false
		}
		if idleNow {
			if rt.IdleStartAt == nil {
				res.Violate("C10/idle-not-reported", "after %s: assignment is empty but the shard does not report being idle", after)
			} else if !model.idleSeen {
				model.idleSeen = true
				t := *rt.IdleStartAt
				model.idleAt = &t
				lo, hi := model.idleLo.Round(0), model.idleHi.Round(0)
				if !hi.Before(lo) && (t.Before(lo) || t.After(hi)) {
					res.Violate("C10/idle-since-wrong-instant", "after %s: idle since %s, but the assignment became empty between %s and %s", after, t.Format(time.RFC3339Nano), lo.Format(time.RFC3339Nano), hi.Format(time.RFC3339Nano))
				}
			} else if !rt.IdleStartAt.Equal(*model.idleAt) {
				res.Violate("C10/idle-since-changed", "after %s: idle since %s, previously reported %s for the same idle period", after, rt.IdleStartAt.Format(time.RFC3339Nano), model.idleAt.Format(time.RFC3339Nano))
			}
		} else if rt.IdleStartAt != nil {
			res.Violate("C10/idle-not-cleared", "after %s: %d targets assigned but the shard reports idle since %s", after, len(model.st), rt.IdleStartAt.Format(time.RFC3339Nano))
		}
		return true
	}
	if !check("start") {
		return res
	}
	for k := 0; k < nOps && res.Inconcl == ""; k++ {
		var op c10Op
		x := r.Intn(10)
		overlap, failReload := false, false
		var gate, entered chan struct{}
		var overlapDone chan struct{}
		var overlapHash uint64
		if x < 4 {
			switch r.Intn(6) {
			case 0: // an update arrives while a scrape of a kept target is still in flight
				var cand []uint64
				for h := range model.st {
					cand = append(cand, h)
				}
				sort.Slice(cand, func(i, j int) bool { return cand[i] < cand[j] })
				if len(cand) > 0 {
					overlap = true
					overlapHash = cand[r.Intn(len(cand))]
				}
			case 1: // the "Prometheus reload" callback of this update fails
				failReload = !storeStale
			}
		}
		if storeStale && x >= 9 {
			x = 0 // no restart while the store may lag behind: send a clean update first
		}
		switch {
		case x < 4:
			op.Kind = "update"
			next := map[uint64]c10Tgt{}
			nextJob := map[uint64]string{}
			mode := r.Intn(8)
			for _, h := range universe {
				old, had := cur[h]
				var keep bool
				switch mode {
				case 0: // empty set
					keep = false
				case 1: // repeat
					keep = had
				default:
					keep = r.Intn(2) == 0
				}
				if overlap && h == overlapHash {
					keep = true
				}
				if !keep {
					continue
				}
				t := c10Tgt{Hash: h, State: r.PickS("", "", "in_transfer"), Series: int64(r.Intn(300)), Total: int64(300 + r.Intn(300))}
				if mode == 1 && had {
					t = old
				}
				if had && r.Intn(3) == 0 { // pure state flip
					t.Series, t.Total = old.Series, old.Total
					if old.State == "" {
						t.State = "in_transfer"
					} else {
						t.State = ""
					}
				}
				job := "j1"
				if r.Intn(4) == 0 {
					job = "j2"
				}
				if mode == 1 && had {
					job = curJob[h]
				}
				next[h], nextJob[h] = t, job
			}
			op.Targets = map[string][]c10Tgt{}
			req := map[string][]*target.Target{}
			var hs []uint64
			for h := range next {
				hs = append(hs, h)
			}
			sort.Slice(hs, func(i, j int) bool { return hs[i] < hs[j] })
			for _, h := range hs {
				t := next[h]
				op.Targets[nextJob[h]] = append(op.Targets[nextJob[h]], t)
				tt := rigTarget(h, t.State)
				tt.Series, tt.TotalSeries = t.Series, t.Total
				req[nextJob[h]] = append(req[nextJob[h]], tt)
			}
			if len(req) == 0 {
				// the empty assignment has three legal spellings on the wire: {"targets":{}}, {"targets":null}
				// (a nil map) and jobs with empty lists
				switch r.Intn(3) {
				case 0:
					req = nil
					res.AddStat("empty_updates_with_null_map", 1)
				case 1:
					req["j1"] = []*target.Target{}
				}
			}
			if overlap {
				// start the scrape and hold it inside the round trip to the target
				gate, entered, overlapDone = make(chan struct{}), make(chan struct{}), make(chan struct{})
				rg.mt.set(fmt.Sprintf("t%d.example:9100", overlapHash), &bodyScript{Body: Render(GenSamples(r, 7), false), Gate: gate, Entered: entered})
				oj := curJob[overlapHash]
				go func() {
					defer close(overlapDone)
					rg.scrapeDirect(oj, overlapHash, 0)
				}()
				select {
				case <-entered:
				case <-time.After(20 * time.Second):
					res.Inconcl = "gated scrape never reached the target"
				}
				op.Kind = "update-during-scrape"
				op.Hash = overlapHash
			}
			if failReload {
				rg.failReload = true
				op.Kind = "update-with-failing-reload"
			}
			t0 := time.Now()
			err := rg.in.UpdateTargets(req)
			rg.failReload = false
			if failReload && err != nil {
				storeStale = true
				res.AddStat("updates_with_failing_reload", 1)
			} else if failReload {
				res.Inconcl = "injected reload failure did not surface"
			} else if err != nil {
				res.Inconcl = "update: " + err.Error()
				break
			} else {
				storeStale = false
			}
			t1 := time.Now()
			if failReload && err != nil {
				// the statement does not say what a REJECTED update leaves behind: the requested state
				// (what kvass does) or the previous one (a roll-back) - both are a "state last requested"
				// of some update; the model follows whichever of the two the sidecar shows, consistently
				if st, e := rg.in.Status(); e == nil {
					like := func(want map[uint64]c10Tgt) bool {
						if len(st) != len(want) {
							return false
						}
						for h, t := range want {
							if st[h] == nil || st[h].TargetState != t.State {
								return false
							}
						}
						return true
					}
					if like(cur) && !like(next) {
						next, nextJob = cur, curJob
						res.AddStat("rejected_updates_rolled_back", 1)
					}
				}
			}
			// model
			nm := map[uint64]*c10Entry{}
			for h, t := range next {
				e := model.st[h]
				if e == nil {
					e = &c10Entry{health: "unknown", series: t.Series, total: t.Total}
				} else if e.state == "" && t.State == "in_transfer" {
					e.times = 0
					res.AddStat("counter_restarts", 1)
				}
				e.state = t.State
				nm[h] = e
			}
			model.st = nm
			if len(nm) == 0 {
				if !idleNow {
					idleNow, model.idleSeen = true, false
					model.idleLo, model.idleHi = t0, t1
					res.AddStat("idle_periods_started", 1)
				}
			} else {
				idleNow, model.idleSeen, model.idleAt = false, false, nil
			}
			cur, curJob = next, nextJob
			res.AddStat("updates", 1)
			if overlap && gate != nil {
				close(gate)
				select {
				case <-overlapDone:
				case <-time.After(20 * time.Second):
					res.Inconcl = "gated scrape did not finish"
				}
				if e := model.st[overlapHash]; e != nil {
					// the scrape completes AFTER the update: its result lands on the kept entry
					e.times++
					e.health, e.hasErr = "up", false
					e.window = append(e.window, 7)
					if len(e.window) > 3 {
						e.window = e.window[1:]
					}
					var sum int64
					for _, v := range e.window {
						sum += v
					}
					e.series = sum / int64(len(e.window))
					e.total = 7
				}
				res.AddStat("updates_during_scrape", 1)
			}
		case x < 9:
			op.Kind = "scrape"
			op.Hash = universe[r.Intn(len(universe))]
			op.OK = r.Intn(3) > 0
			n := r.Intn(60)
			ss := GenSamples(r, n)
			op.Kept = n
			host := fmt.Sprintf("t%d.example:9100", op.Hash)
			if op.OK {
				rg.mt.set(host, &bodyScript{Body: Render(ss, false)})
			} else {
				rg.mt.set(host, &bodyScript{Status: 503, Body: []byte("x")})
			}
			job := curJob[op.Hash]
			if job == "" {
				job = "j1"
			}
			rg.scrapeDirect(job, op.Hash, 0)
			if e := model.st[op.Hash]; e != nil {
				e.times++
				if op.OK {
					e.health, e.hasErr = "up", false
					e.window = append(e.window, int64(n))
					if len(e.window) > 3 {
						e.window = e.window[1:]
					}
					var sum int64
					for _, v := range e.window {
						sum += v
					}
					e.series = sum / int64(len(e.window))
					e.total = int64(n)
				} else {
					e.health, e.hasErr = "down", true
				}
				res.AddStat("scrapes_of_assigned_targets", 1)
			} else {
				res.AddStat("scrapes_of_unassigned_targets", 1)
			}
		default:
			op.Kind = "restart"
			if idx%4 == 1 {
				// a shard upgraded from an old version still has that version's targets.json on its volume (kvass
				// never deletes it); once the current store file exists the old file means nothing
				if _, err := os.Stat(filepath.Join(dir, "kvass-shard.json")); err == nil {
					_ = os.WriteFile(filepath.Join(dir, "targets.json"), []byte(`{"j1":[{"hash":4242,"labels":{"__address__":"legacy.example:9100","job":"j1"},"series":7,"TargetState":""}]}`), 0644)
					res.AddStat("restarts_next_to_an_old_version_file", 1)
				}
			}
			rg.close()
			rg.srv = nil
			if idx%40 == 13 && (w.Tier != "thorough" || idx%400 == 13) {
				// the sidecar comes back before its Prometheus: the reload callback of its start-up fails; what it reports
				// from then on is still exactly what it is asked for (also a second later)
				rg.failReload = true
				lateCheck = true
				res.AddStat("restarts_before_prometheus_is_up", 1)
			}
			err := rg.build(headFn)
			rg.failReload = false
			if err != nil {
				res.Violate("C10/restart-fails", "restart on the store failed: %v", err)
				break
			}
			in := rg.in
			if err := in.PushConfig(fmt.Sprintf(rigConfigTmpl, rigLongTimeout, "")); err != nil {
				res.Inconcl = "push config after restart: " + err.Error()
				break
			}
			rg.hookClients()
			// model: status rebuilt from the persisted assignment
			nm := map[uint64]*c10Entry{}
			for h, t := range cur {
				nm[h] = &c10Entry{state: t.State, health: "unknown", series: t.Series, total: t.Total}
			}
			model.st = nm
			res.AddStat("restarts", 1)
		}
		ops = append(ops, op)
		res.Execs++
		if !check(fmt.Sprintf("op %d (%s)", k, op.Kind)) {
			break
		}
		if lateCheck && op.Kind == "update" && len(res.Viol) == 0 {
			lateCheck = false
			time.Sleep(1300 * time.Millisecond)
			if !check(fmt.Sprintf("op %d (%s), 1.3 s later (the restart before it found Prometheus down)", k, op.Kind)) {
				break
			}
		}
		if len(res.Viol) > 0 {
			break
		}
	}
	res.Sig = fmt.Sprintf("%x", core.HashString(fmt.Sprint(ops)))
	res.Nontrivial = len(ops) >= 5
	res.Viol = dedupeV(res.Viol)
	if len(res.Viol) > 0 {
		res.Witness = map[string]interface{}{"ops": ops}
	}
	if idx < 2 {
		res.Sample = map[string]interface{}{"ops": ops}
	}
	return res
}

func keysS(m map[uint64]*target.ScrapeStatus) []uint64 {
	var ks []uint64
	for k := range m {
		ks = append(ks, k)
	}
	sort.Slice(ks, func(i, j int) bool { return ks[i] < ks[j] })
	return ks
}

func keysM(m map[uint64]*c10Entry) []uint64 {
	var ks []uint64
	for k := range m {
		ks = append(ks, k)
	}
	sort.Slice(ks, func(i, j int) bool { return ks[i] < ks[j] })
	return ks
}

func init() {
	core.Register(&core.Prop{
		ID:    "C10",
		Level: "exploration",
		Rule: "case = seed-determined sequence of 5-40 operations on one real sidecar over a universe of 6 targets / 2 jobs: update (adds, removals, pure state flips, exact repeats, empty set, moves between jobs), scrape through the real proxy (successful with 0-59 samples, or failing with 503; assigned and unassigned hashes), update arriving while a scrape of a kept target is held inside the round trip to the target, update whose Prometheus-reload callback fails (the idle/status invariants must hold all the same; no restart until a clean update), restart (all objects rebuilt on the same store directory); after every operation /targets/status/ and /runtimeinfo/ are compared with a ~60-line reference model of (status map, idle-since); " +
			"two further operations: an update that keeps a target arrives while a scrape of it is held inside the harness transport (the model applies the update, then the scrape), and an update whose Prometheus-reload callback fails (the request fails, the in-memory state is still the requested one, nothing is persisted until the next clean update); " +
			"in one case in four an old version's targets.json (one target) is left next to the current store before every restart - it must mean nothing once the current store exists; " +
			"one case in forty (thorough: one in four hundred) restarts the sidecar while the reload callback fails (Prometheus not up yet) and checks the update that follows once more 1.3 s later; " +
			"one check in four also polls /runtimeinfo/ while the head-series query (Prometheus' TSDB API) fails: an answer, if any, must be true about idleness; " +
			"idle-since is judged by equality with the instant first reported for the idle period and by bracketing that first report with the harness' clock readings around the emptying update; non-trivial = at least 5 operations; distinct = hash of the operation sequence",
		Assumptions: []string{
			"conflicting duplicates of one hash inside a single request are not generated (the statement does not define them)",
			"after a restart the reference model expects unknown health, zero counters and the persisted estimate (the assignment file stores targets, not statistics)",
		},
		NumCases: func(tier string) int {
			if tier == "thorough" {
				return 60000
			}
			return 3000
		},
		Run:           runC10,
		MinNontrivial: 200,
	})
}
