package e3

import (
	"bytes"
	"fmt"
	"net/http/httptest"
	"path/filepath"
	"strings"
	"sync"
	"time"
	"tkestack.io/kvass/pkg/prom"

	"kvassverif/internal/core"
)

type c12Shape struct {
	Name string
	Make func(r *core.Rng) []byte
	Big  bool
}

func repeatLine(n int, f func(i int) string) []byte {
	var sb strings.Builder
	for i := 0; i < n; i++ {
		sb.WriteString(f(i))
	}
	return []byte(sb.String())
}

var c12Shapes = []c12Shape{
	{Name: "empty", Make: func(*core.Rng) []byte { return []byte{} }},
	{Name: "one-line", Make: func(*core.Rng) []byte { return []byte("up 1\n") }},
	{Name: "no-trailing-newline", Make: func(*core.Rng) []byte { return []byte("a_total 1\nb_total{x=\"y\"} 2") }},
	{Name: "only-newlines", Make: func(*core.Rng) []byte { return []byte("\n\n\n") }},
	{Name: "comments-and-blanks", Make: func(*core.Rng) []byte {
		return []byte("# HELP a help\n# TYPE a counter\n\n\na 1\n#just a comment\n   \n# EOF\n")
	}},
	{Name: "parser-rejects", Make: func(*core.Rng) []byte {
		return []byte("this is not {{ a metric\nok_metric 1\n{nolabelname} 3\nbad{a=\"unterminated} 1\nvalue_missing\n\xff\xfe\x00binary 7\nok_again{a=\"b\"} NaN\n")
	}},
	{Name: "crlf-and-unicode", Make: func(*core.Rng) []byte {
		return []byte("a{l=\"ünï ✓ 日本\"} 1\r\nb 2\r\n\tc 3  \n")
	}},
	{Name: "generated-small", Make: func(r *core.Rng) []byte { return Render(GenSamples(r, 5), true) }},
	{Name: "line-256KiB-minus-1", Big: true, Make: func(*core.Rng) []byte {
		// one line of exactly 256 KiB - 1 bytes before its newline (the parser's limit is 256 KiB)
		prefix := `long_label_metric{v="`
		suffix := `"} 1`
		n := 256*1024 - 1 - len(prefix) - len(suffix)
		return []byte("first 1\n" + prefix + strings.Repeat("x", n) + suffix + "\nlast 1\n")
	}},
	{Name: "1MiB", Big: true, Make: func(*core.Rng) []byte {
		return repeatLine(14000, func(i int) string {
			return fmt.Sprintf("payload_metric_total{idx=\"%d\",path=\"/some/fairly/long/path/%d\",code=\"200\"} %d\n", i, i*3, i)
		})
	}},
	{Name: "8MiB", Big: true, Make: func(*core.Rng) []byte {
		return repeatLine(110000, func(i int) string {
			return fmt.Sprintf("payload_metric_total{idx=\"%d\",path=\"/some/fairly/long/path/%d\",code=\"200\"} %d\n", i, i*3, i)
		})
	}},
	{Name: "64KiB-block-boundary", Big: true, Make: func(*core.Rng) []byte {
		// lines arranged so that a newline falls exactly on the parser's 64 KiB block size
		line := "boundary_metric{pad=\"" + strings.Repeat("p", 100) + "\"} 1\n"
		var sb strings.Builder
		for sb.Len()+len(line) <= 64*1024 {
			sb.WriteString(line)
		}
		rest := 64*1024 - sb.Len()
		if rest > 0 {
			sb.WriteString("b{p=\"" + strings.Repeat("q", rest-10) + "\"} 1\n")
		}
		sb.WriteString("after_boundary 1\n")
		return []byte(sb.String())
	}},
}

type c12Case struct {
	Shape    int    `json:"shape"`
	Name     string `json:"name"`
	Gzip     bool   `json:"gzip"`
	Mode     string `json:"mode"` // direct | tcp
	Assigned bool   `json:"assigned"`
	Short    int    `json:"short"`    // Prometheus-side writer accepts at most this many bytes per Write (direct mode)
	Chunking string `json:"chunking"` // all-splits | random | default
	CT       string `json:"contentType"`
	Members  int    `json:"gzipMembers,omitempty"` // > 1: the gzip body consists of several concatenated members
	Nego     bool   `json:"negotiates,omitempty"`  // the target picks the content coding from Accept-Encoding (deflate first, then gzip)
}

func c12Cases(tier string) []c12Case {
	var cs []c12Case
	cts := []string{"text/plain; version=0.0.4; charset=utf-8", "application/openmetrics-text; version=1.0.0; charset=utf-8", ""}
	k := 0
	for si, sh := range c12Shapes {
		for _, gz := range []bool{false, true} {
			for _, mode := range []string{"direct", "tcp"} {
				for _, asg := range []bool{true, false} {
					shorts := []int{0}
					if mode == "direct" {
						shorts = []int{0, 1, 7, 4096}
						if sh.Big {
							shorts = []int{0, 4096, 100000}
						}
					}
					for _, short := range shorts {
						chunkings := []string{"default", "random"}
						if !sh.Big {
							chunkings = []string{"all-splits", "random"}
						}
						if sh.Name == "8MiB" && tier != "thorough" && (mode == "direct" && short != 0) {
							continue
						}
						for _, ch := range chunkings {
							cs = append(cs, c12Case{Shape: si, Name: sh.Name, Gzip: gz, Mode: mode, Assigned: asg, Short: short, Chunking: ch, CT: cts[k%len(cts)]})
							k++
						}
					}
				}
			}
		}
	}
	// gzip bodies made of several concatenated members (legal; what an exporter behind a flushing gzip writer
	// or a concatenating proxy sends): every shape, both modes
	for si, sh := range c12Shapes {
		for _, mode := range []string{"direct", "tcp"} {
			for _, mem := range []int{2, 3} {
				if sh.Name == "8MiB" && (tier != "thorough" || mem == 3) {
					continue
				}
				cs = append(cs, c12Case{Shape: si, Name: sh.Name, Gzip: true, Mode: mode, Assigned: mem == 2, Chunking: "random", CT: cts[0], Members: mem})
			}
		}
	}
	// targets that choose the content coding from what the request offers (deflate before gzip, as some servers
	// do): whatever the proxy offers, Prometheus gets the decompressed bytes
	for si, sh := range c12Shapes {
		if sh.Name == "8MiB" && tier != "thorough" {
			continue
		}
		for _, mode := range []string{"direct", "tcp"} {
			cs = append(cs, c12Case{Shape: si, Name: sh.Name, Gzip: true, Mode: mode, Assigned: si%2 == 0, Chunking: "random", CT: cts[si%3], Nego: true})
		}
	}
	return cs
}

// runC12Parallel: several targets with different payloads and encodings scraped through one proxy at the
// same time over a real HTTP hop (pooled gzip readers, parser workers and buffers are shared process-wide).
func runC12Parallel(w *core.WorkerCtx, k int) *core.CaseResult {
	r := core.NewRng(w.Seed, 0xC12B, uint64(k))
	res := &core.CaseResult{Sig: fmt.Sprintf("parallel-%d", k), Nontrivial: true}
	rg, err := newRig(filepath.Join(w.Scratch, fmt.Sprintf("c12p-%d", k)), rigLongTimeout, "")
	if err != nil {
		res.Inconcl = "rig: " + err.Error()
		return res
	}
	defer rg.close()
	const n = 8
	bodies := map[uint64][]byte{}
	var hs []uint64
	for i := 0; i < n; i++ {
		h := uint64(100 + i)
		hs = append(hs, h)
		sh := c12Shapes[r.Intn(len(c12Shapes)-1)] // not the 8 MiB one
		b := sh.Make(r)
		if len(b) > 0 && r.Intn(2) == 0 { // make the payloads of equal shape distinguishable
			b = append([]byte(fmt.Sprintf("marker_metric{target=\"%d\"} %d\n", h, i)), b...)
		}
		bodies[h] = b
		rg.mt.set(fmt.Sprintf("t%d.example:9100", h), &bodyScript{Body: b, Gzip: r.Intn(2) == 0, ContentType: "text/plain; version=0.0.4"})
	}
	if err := rg.assign("j1", hs[:n/2]...); err != nil {
		res.Inconcl = "assign: " + err.Error()
		return res
	}
	rg.ensureSrv()
	rounds := 3
	type bad struct{ msg string }
	var mu sync.Mutex
	var bads []string
	for round := 0; round < rounds; round++ {
		var wg sync.WaitGroup
		for _, h := range hs {
			wg.Add(1)
			go func(h uint64) {
				defer wg.Done()
				o := rg.scrapeTCP("j1", h)
				msg := ""
				switch {
				case o.Status != 200 || o.Aborted:
					msg = fmt.Sprintf("target %d: status %d aborted %v %s", h, o.Status, o.Aborted, o.ReadErr)
				case !bytes.Equal(o.Body, bodies[h]):
					msg = fmt.Sprintf("target %d: got %d bytes, served %d bytes, first difference at %d", h, len(o.Body), len(bodies[h]), firstDiff(o.Body, bodies[h]))
				}
				mu.Lock()
				res.Execs++
				if msg != "" {
					bads = append(bads, msg)
				}
				mu.Unlock()
			}(h)
		}
		wg.Wait()
	}
	// rendezvous: two gzip scrapes whose ResponseWriters (harness-owned) block in Header() - which the proxy calls
	// between the request to the target and the streaming of the body - until both have got that far
	for pair := 0; pair < 4; pair++ {
		ha, hb := hs[(2*pair)%n], hs[(2*pair+1)%n]
		for _, h := range []uint64{ha, hb} {
			rg.mt.set(fmt.Sprintf("t%d.example:9100", h), &bodyScript{Body: bodies[h], Gzip: true, ContentType: "text/plain; version=0.0.4"})
		}
		var arrived sync.WaitGroup
		arrived.Add(2)
		gate := make(chan struct{})
		var once sync.Once
		go func() { arrived.Wait(); once.Do(func() { close(gate) }) }()
		outs := make([]*recWriter, 2)
		var wg sync.WaitGroup
		for k, h := range []uint64{ha, hb} {
			wg.Add(1)
			go func(k int, h uint64) {
				defer wg.Done()
				rw := newRec(0)
				first := true
				rw.onHeader = func() {
					if first {
						first = false
						arrived.Done()
						select {
						case <-gate:
						case <-time.After(5 * time.Second): // the other scrape never got there (it failed earlier)
						}
					}
				}
				outs[k] = rw
				func() {
					defer func() { _ = recover() }()
					rg.in.Proxy.ServeHTTP(rw, httptest.NewRequest("GET", proxyURLFor("j1", h), nil))
				}()
				if first {
					arrived.Done()
				}
			}(k, h)
		}
		wg.Wait()
		for k, h := range []uint64{ha, hb} {
			res.Execs++
			res.AddStat("rendezvous_scrapes", 1)
			if got := outs[k].body(); !bytes.Equal(got, bodies[h]) || (outs[k].status != 0 && outs[k].status != 200) {
				bads = append(bads, fmt.Sprintf("rendezvous pair %d target %d: status %d, got %d bytes, served %d bytes, first difference at %d", pair, h, outs[k].status, len(got), len(bodies[h]), firstDiff(got, bodies[h])))
			}
		}
	}
	// the administrative stop is set / lifted while a scrape is in flight (target gated by the harness): the
	// attempt may fail (C13 judges failures), but a complete 200 response must carry the target's bytes
	for i, kind := range []string{"stop-cleared-inflight", "stop-set-inflight"} {
		h := hs[i]
		setStop := func(reason string) error {
			_, _, err := rg.in.Call("POST", "/api/v1/status/extra_config/", &prom.ExtraConfig{StopScrapeReason: reason}, nil)
			rg.hookClients()
			return err
		}
		first, second := "admin stop", ""
		if kind == "stop-set-inflight" {
			first, second = "", "admin stop"
		}
		if err := setStop(first); err != nil {
			res.Inconcl = "extra config: " + err.Error()
			return res
		}
		gate, entered := make(chan struct{}), make(chan struct{})
		rg.mt.set(fmt.Sprintf("t%d.example:9100", h), &bodyScript{Body: bodies[h], Gzip: i == 0, ContentType: "text/plain; version=0.0.4", Gate: gate, Entered: entered})
		rw := newRec(0)
		aborted := false
		done := make(chan struct{})
		go func() {
			defer close(done)
			defer func() {
				if recover() != nil {
					aborted = true
				}
			}()
			rg.in.Proxy.ServeHTTP(rw, httptest.NewRequest("GET", proxyURLFor("j1", h), nil))
		}()
		select {
		case <-entered:
		case <-time.After(60 * time.Second):
			close(gate)
			<-done
			res.Inconcl = "gated request was not made within 60 s"
			return res
		}
		err := setStop(second)
		close(gate)
		<-done
		_ = setStop("")
		if err != nil {
			res.Inconcl = "extra config: " + err.Error()
			return res
		}
		res.Execs++
		res.AddStat("scrapes_with_stop_reason_changed_in_flight", 1)
		if !aborted && (rw.status == 0 || rw.status == 200) {
			res.AddStat("of_those_complete_200", 1)
			if got := rw.body(); !bytes.Equal(got, bodies[h]) {
				bads = append(bads, fmt.Sprintf("%s target %d: complete 200 response with %d bytes, the target served %d bytes", kind, h, len(got), len(bodies[h])))
			}
		}
	}
	res.AddStat("parallel_scrapes", int64(rounds*n))
	if len(bads) > 0 {
		res.Violate("C12/not-identical/concurrent-scrapes", "%d of %d concurrent scrapes differ, e.g. %s", len(bads), rounds*n, bads[0])
		res.Witness = map[string]interface{}{"problems": bads}
	}
	return res
}

const c12ParallelCases = 12

func runC12(w *core.WorkerCtx, idx int) *core.CaseResult {
	cs := c12Cases(w.Tier)
	if idx >= len(cs)+c12ParallelCases+c12RealCases(w.Tier) {
		return runC12Frac(w, idx-len(cs)-c12ParallelCases-c12RealCases(w.Tier))
	}
	if idx >= len(cs)+c12ParallelCases {
		return runC12Real(w, idx-len(cs)-c12ParallelCases)
	}
	if idx >= len(cs) {
		return runC12Parallel(w, idx-len(cs))
	}
	c := cs[idx]
	r := core.NewRng(w.Seed, 0xC12, uint64(idx))
	res := &core.CaseResult{Sig: fmt.Sprintf("%s|gz%v/%d|%s|asg%v|short%d|%s|nego%v", c.Name, c.Gzip, c.Members, c.Mode, c.Assigned, c.Short, c.Chunking, c.Nego), Nontrivial: true}
	dir := filepath.Join(w.Scratch, fmt.Sprintf("c12-%d", idx))
	rg, err := newRig(dir, rigLongTimeout, "")
	if err != nil {
		res.Inconcl = "rig: " + err.Error()
		return res
	}
	defer rg.close()
	const h = uint64(3)
	if c.Assigned {
		if err := rg.assign("j1", h); err != nil {
			res.Inconcl = "assign: " + err.Error()
			return res
		}
	} else if err := rg.assign("j1", 99); err != nil { // someone else is assigned, not h
		res.Inconcl = "assign: " + err.Error()
		return res
	}
	body := c12Shapes[c.Shape].Make(r)
	host := fmt.Sprintf("t%d.example:9100", h)
	base := &bodyScript{Body: body, Gzip: c.Gzip, ContentType: c.CT, Members: c.Members, Negotiate: c.Nego}
	if c.CT == "" {
		base.ContentType = "text/plain"
	}
	wireLen := len(base.wire())
	var plans [][]int
	switch c.Chunking {
	case "all-splits":
		for k := 1; k < wireLen; k++ {
			plans = append(plans, []int{k, wireLen})
		}
		plans = append(plans, []int{1, 1, 1, 1, 1, 1, 1, 1, 1, 1, 1, 1, 1, 1, 1, 1}, nil)
	case "random":
		n := 6
		if w.Thorough() {
			n = 30
		}
		if c12Shapes[c.Shape].Big {
			n = 2
		}
		for i := 0; i < n; i++ {
			var p []int
			left := wireLen
			for left > 0 && len(p) < 4000 {
				sz := 1 + r.Intn(r.PickI(2, 16, 300, 5000, 131072))
				p = append(p, sz)
				left -= sz
			}
			plans = append(plans, p)
		}
	default:
		plans = [][]int{nil}
	}
	for pi, plan := range plans {
		bs := *base
		bs.Chunks = plan
		rg.mt.set(host, &bs)
		var o scrapeOutcome
		if c.Mode == "direct" {
			o = rg.scrapeDirect("j1", h, c.Short)
		} else {
			o = rg.scrapeTCP("j1", h)
		}
		res.Execs++
		res.AddStat("scrapes", 1)
		res.AddStat("bytes_compared", int64(len(body)))
		bad := ""
		switch {
		case o.Panic != "":
			bad = "handler panicked: " + o.Panic
		case o.Status != 200 || o.Aborted:
			bad = fmt.Sprintf("status %d aborted %v %s", o.Status, o.Aborted, o.ReadErr)
		case !bytes.Equal(o.Body, body):
			bad = fmt.Sprintf("body differs: got %d bytes, target served %d bytes; first difference at offset %d", len(o.Body), len(body), firstDiff(o.Body, body))
		case o.Header.Get("Content-Type") != base.ContentType:
			bad = fmt.Sprintf("content type %q, target sent %q", o.Header.Get("Content-Type"), base.ContentType)
		}
		if bad != "" {
			sig := "C12/not-identical/" + c.Name
			if strings.HasPrefix(bad, "content type") {
				sig = "C12/content-type"
			}
			res.Violate(sig, "shape %s gzip %v mode %s assigned %v short-writes %d chunk plan #%d (%d reads): %s", c.Name, c.Gzip, c.Mode, c.Assigned, c.Short, pi, len(plan), bad)
			if res.Witness == nil {
				res.Witness = map[string]interface{}{"case": c, "chunk_plan": clipInts(plan, 50), "problem": bad}
			}
		}
	}
	res.Viol = dedupeV(res.Viol)
	if idx%40 == 0 {
		res.Sample = map[string]interface{}{"case": c, "body_bytes": len(body), "wire_bytes": wireLen, "chunk_plans": len(plans)}
	}
	return res
}

func firstDiff(a, b []byte) int {
	n := len(a)
	if len(b) < n {
		n = len(b)
	}
	for i := 0; i < n; i++ {
		if a[i] != b[i] {
			return i
		}
	}
	return n
}

func clipInts(p []int, n int) []int {
	if len(p) > n {
		return p[:n]
	}
	return p
}

func init() {
	core.Register(&core.Prop{
		ID:    "C12",
		Level: "exploration",
		Rule: "case = payload shape {empty, one line, no trailing newline, only newlines, comments/blanks, lines the statistics parser rejects (incl. binary), CRLF/unicode, generated, one line of 256 KiB-1, a newline exactly on the 64 KiB block boundary, 1 MiB, 8 MiB} x {identity, gzip} x Prometheus side {instrumented ResponseWriter with short writes of 1/7/4096 bytes, real net/http hop} x {assigned, not assigned to this shard} x chunking {every 2-way split point of the wire bytes + byte-by-byte, seed-determined random read sizes 1 B..128 KiB} x three content types; " +
			"plus 12 cases in which 8 targets with different payloads/encodings are scraped concurrently through one proxy over a real HTTP hop, three rounds each, plus four rendezvous pairs of gzip scrapes whose harness-owned ResponseWriters hold both scrapes between the request to the target and the streaming of the body; oracle = byte equality of what Prometheus received with the target's body after decompression, status 200, same Content-Type; runs from the -race binary (the parser calls back concurrently); " +
			"plus, in each of those 12 cases, two scrapes during which the administrative stop is lifted / set while the real request is held in the harness transport: a complete 200 response must carry the target's bytes; " +
			"plus, per shape, targets that pick the content coding from the request's Accept-Encoding (deflate if offered, else gzip, else identity); " +
			"plus 2 cases in which a reload raises the job's scrape_timeout from 1 s to 120 s and a target then answers completely after 1.6 s; " +
			"plus 4 cases with a scrape_timeout of 1.9 s / 2.5 s and a target that answers completely after 1.3 s / 2.2 s: a delivery that breaks off before the configured timeout has passed is a violation, a later one decides nothing (a really loaded machine), three tries; " +
			"plus 3/12 cases on the REAL sidecar process (proxy started by Proxy.Run) with a loopback target whose header, tail or parts of a 200-300 KB body arrive over 11-31 s (scrape_timeout 120 s); " +
			"non-trivial = every case; distinct = (shape, encoding, mode, assigned, short-write size, chunking)",
		Assumptions: []string{"targets are in-memory http.RoundTrippers installed in JobInfo.Cli; gzip bodies are produced with compress/gzip at default level"},
		NumCases: func(tier string) int {
			return len(c12Cases(tier)) + c12ParallelCases + c12RealCases(tier) + c12FracCases
		},
		Run:           runC12,
		MinNontrivial: 100,
		CaseTimeout:   300e9,
		Race:          true,
		RaceAttribute: func(rep core.RaceReport) (string, bool) {
			if rep.Has("scrape.(*wrappedReader).Read") || rep.Has("scrape.StatisticSeries") {
				return "C12/race-in-forwarding-path", true
			}
			return "", false
		},
	})
}
