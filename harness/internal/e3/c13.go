package e3

import (
	"bufio"
	"fmt"
	"io"
	"net"
	"net/http"
	"net/http/httptest"
	"net/url"
	"path/filepath"
	"strings"
	"time"

	"kvassverif/internal/core"
	"tkestack.io/kvass/pkg/prom"
	"tkestack.io/kvass/pkg/target"
)

// c13Case is one fault placement.
type c13Case struct {
	Kind   string `json:"kind"` // none | dial | status | stall-before | stall-mid | stop | midbody | tcp-cl | tcp-chunked | tcp-rst | unassigned-midbody
	Err    string `json:"err,omitempty"`
	Offset int    `json:"offset"`
	Gzip   bool   `json:"gzip,omitempty"`
	Status int    `json:"status,omitempty"`
	Mode   string `json:"mode"` // direct | tcp   (Prometheus side)
	Big    bool   `json:"big,omitempty"`
	Chunk  int    `json:"chunk,omitempty"`
	// RefusedAssign: the update that assigns the target is answered with an error because the reload of Prometheus
	// fails (Prometheus restarting); the sidecar lists the target all the same and Prometheus scrapes it
	RefusedAssign bool `json:"refusedAssign,omitempty"`
	// PriorFail: the faulty scrape is preceded by another FAILED scrape with a different cause (HTTP 500): the status
	// must then show the error of the latest failure
	PriorFail bool `json:"priorFail,omitempty"`
}

var c13Body = []byte("# HELP http_requests_total The total number of HTTP requests.\n# TYPE http_requests_total counter\n" +
	"http_requests_total{method=\"post\",code=\"200\"} 1027\nhttp_requests_total{method=\"post\",code=\"400\"} 3\n" +
	"go_goroutines 42\nprocess_cpu_seconds_total 1.5\nup 1\n")

func c13BigBody() []byte {
	var sb strings.Builder
	for i := 0; i < 4000; i++ {
		fmt.Fprintf(&sb, "big_metric_total{idx=\"%d\",path=\"/api/v1/some/long/path/%d\"} %d\n", i, i*7, i)
	}
	return []byte(sb.String())
}

var c13ErrKinds = []string{"unexpected EOF", "read tcp 10.0.0.1:1234->10.0.0.2:9100: i/o timeout while reading body", "read tcp 10.0.0.1:1234->10.0.0.2:9100: read: connection reset by peer"}

func c13Cases(tier string) []c13Case {
	var cs []c13Case
	modes := []string{"direct", "tcp"}
	for _, m := range modes {
		cs = append(cs, c13Case{Kind: "none", Mode: m}, c13Case{Kind: "none", Mode: m, Gzip: true})
		cs = append(cs, c13Case{Kind: "dial", Mode: m})
		for _, st := range []int{204, 400, 404, 500, 503} {
			cs = append(cs, c13Case{Kind: "status", Status: st, Mode: m})
		}
		// the same outcomes for a target whose assigning update was refused because Prometheus' reload failed
		cs = append(cs, c13Case{Kind: "none", Mode: m, RefusedAssign: true}, c13Case{Kind: "dial", Mode: m, RefusedAssign: true}, c13Case{Kind: "status", Status: 503, Mode: m, RefusedAssign: true})
		// a failure that follows another failure with a different cause
		cs = append(cs, c13Case{Kind: "status", Status: 503, Mode: m, PriorFail: true}, c13Case{Kind: "dial", Mode: m, PriorFail: true}, c13Case{Kind: "stop", Mode: m, PriorFail: true})
		cs = append(cs, c13Case{Kind: "stall-before", Mode: m})
		for _, off := range []int{0, 1, 60, len(c13Body) - 1} {
			cs = append(cs, c13Case{Kind: "stall-mid", Offset: off, Mode: m})
		}
		cs = append(cs, c13Case{Kind: "stop", Mode: m})
		if m == "tcp" {
			// Prometheus gives up and disconnects a moment BEFORE the proxy's own scrape timeout fires
			for _, off := range []int{0, 1, 60} {
				cs = append(cs, c13Case{Kind: "stall-mid-client-quits", Offset: off, Mode: m})
			}
		}
		// the coordinator begins a transfer (normal -> in_transfer, the counter restarts) while a scrape is in flight,
		// and that scrape ends differently from the one before: the published status must show ITS outcome
		for _, gz := range []bool{false, true} {
			cs = append(cs, c13Case{Kind: "transfer-begins-inflight-fail", Mode: m, Gzip: gz}, c13Case{Kind: "transfer-begins-inflight-ok", Mode: m, Gzip: gz})
		}
		// a reload LOWERS the job's scrape_timeout (nothing else changes); a target that then answers after 3 s has
		// exceeded the timeout now in force
		cs = append(cs, c13Case{Kind: "slow-after-timeout-lowered", Mode: m}, c13Case{Kind: "slow-after-timeout-lowered", Mode: m, Gzip: true})
		// the stop reason changes while the real request is in flight (target gated by the harness)
		for _, gz := range []bool{false, true} {
			cs = append(cs, c13Case{Kind: "stop-cleared-inflight", Mode: m, Gzip: gz}, c13Case{Kind: "stop-set-inflight", Mode: m, Gzip: gz})
		}
	}
	// body breaking off at every offset: direct mode every offset, tcp mode every offset too (cheap)
	for _, m := range modes {
		for _, ek := range c13ErrKinds {
			for _, gz := range []bool{false, true} {
				n := len(c13Body)
				if gz {
					n = len((&bodyScript{Gzip: true, Body: c13Body}).wire())
				}
				for k := 0; k <= n; k++ {
					cs = append(cs, c13Case{Kind: "midbody", Err: ek, Offset: k, Gzip: gz, Mode: m, Chunk: 41})
				}
			}
		}
	}
	// unassigned target (no status entry): the Prometheus side must still fail
	for _, k := range []int{0, 1, 50, 130} {
		cs = append(cs, c13Case{Kind: "unassigned-midbody", Err: c13ErrKinds[0], Offset: k, Mode: "tcp", Chunk: 41})
	}
	// real TCP targets
	for _, kind := range []string{"tcp-cl", "tcp-chunked", "tcp-rst"} {
		step := 9
		if tier == "thorough" {
			step = 1
		}
		for k := 0; k < len(c13Body); k += step {
			cs = append(cs, c13Case{Kind: kind, Offset: k, Mode: "tcp"})
		}
		cs = append(cs, c13Case{Kind: kind, Offset: len(c13Body) - 1, Mode: "direct"})
	}
	// a body of several parser blocks (> 64 KiB) breaking at block boundaries and in between
	big := c13BigBody()
	offs := []int{1, 4096, 65535, 65536, 65537, 100000, 131072, len(big) - 1}
	if tier == "thorough" {
		for k := 0; k < len(big); k += 1777 {
			offs = append(offs, k)
		}
	}
	for _, k := range offs {
		for _, ek := range c13ErrKinds {
			cs = append(cs, c13Case{Kind: "midbody", Err: ek, Offset: k, Mode: "tcp", Big: true})
			cs = append(cs, c13Case{Kind: "midbody", Err: ek, Offset: k, Mode: "direct", Big: true})
		}
	}
	return cs
}

// rawTarget is a TCP listener that answers every connection with scripted raw bytes.
type rawTarget struct {
	l    net.Listener
	raw  []byte
	rst  bool
	done chan struct{}
}

func startRawTarget(raw []byte, rst bool) (*rawTarget, error) {
	l, err := net.Listen("tcp", "127.0.0.1:0")
	if err != nil {
		return nil, err
	}
	t := &rawTarget{l: l, raw: raw, rst: rst, done: make(chan struct{})}
	go func() {
		defer close(t.done)
		for {
			c, err := l.Accept()
			if err != nil {
				return
			}
			go func(c net.Conn) {
				br := bufio.NewReader(c)
				for {
					ln, err := br.ReadString('\n')
					if err != nil || ln == "\r\n" {
						break
					}
				}
				c.Write(t.raw)
				if t.rst {
					if tc, ok := c.(*net.TCPConn); ok {
						time.Sleep(20 * time.Millisecond) // let the bytes reach the reader first
						tc.SetLinger(0)
					}
				}
				c.Close()
			}(c)
		}
	}()
	return t, nil
}

func (t *rawTarget) close() { t.l.Close(); <-t.done }

func c13Kind(c c13Case) string {
	k := c.Kind
	if c.Kind == "midbody" || c.Kind == "unassigned-midbody" {
		switch {
		case strings.Contains(c.Err, "reset by peer"):
			k += "-reset"
		case c.Err == "unexpected EOF":
			k += "-unexpectedEOF"
		default:
			k += "-generic"
		}
	}
	return k
}

// runC13 runs one case; a case whose HEALTHY scrapes (warm-up, recovery) ran into the scrape timeout
// says something about the load of the machine, not about kvass: it is repeated, and inconclusive
// if that happens three times in a row.
func runC13(w *core.WorkerCtx, idx int) *core.CaseResult {
	var res *core.CaseResult
	for attempt := 0; attempt < 3; attempt++ {
		ld := &c13Load{}
		res = runC13Case(w, idx, ld)
		if !ld.suspect {
			return res
		}
	}
	res.Viol = nil
	res.Inconcl = "a healthy scrape hit the scrape timeout in three attempts (machine overloaded)"
	return res
}

type c13Load struct{ suspect bool }

func runC13Case(w *core.WorkerCtx, idx int, ld *c13Load) *core.CaseResult {
	cs := c13Cases(w.Tier)
	c := cs[idx]
	kind := c13Kind(c)
	res := &core.CaseResult{Sig: fmt.Sprintf("%s|%s|gz%v|big%v|off%d|st%d|refused%v|prior%v", kind, c.Mode, c.Gzip, c.Big, c.Offset, c.Status, c.RefusedAssign, c.PriorFail), Nontrivial: true}
	dir := filepath.Join(w.Scratch, fmt.Sprintf("c13-%d", idx))
	// only the stall faults need the scrape timeout to fire; everything else gets a timeout no loaded machine reaches
	timeout := rigLongTimeout
	if strings.HasPrefix(c.Kind, "stall") {
		timeout = "1s"
	}
	rg, err := newRig(dir, timeout, "")
	if err != nil {
		res.Inconcl = "rig: " + err.Error()
		return res
	}
	defer rg.close()
	const h = uint64(7)
	assigned := c.Kind != "unassigned-midbody"
	if assigned && c.RefusedAssign {
		rg.failReload = true
		err := rg.assign("j1", h)
		rg.failReload = false
		if err == nil {
			res.Inconcl = "the injected reload failure did not surface"
			return res
		}
		// does the sidecar list the target (GET /api/v1/shard/targets/)? then it is assigned as far as anybody can tell
		listed := false
		for _, ts := range rg.in.TM.TargetsInfo().Targets {
			for _, t := range ts {
				if t.Hash == h {
					listed = true
				}
			}
		}
		if !listed {
			assigned = false
		} else if st, err := rg.in.Status(); err == nil && st[h] == nil {
			res.Violate("C13/no-status-for-listed-target", "the update that assigned target %d was answered with an error (the reload of Prometheus failed); the sidecar lists the target but its status has no entry for it: no scrape of it can show health or be counted", h)
			return res
		}
		res.AddStat("assignments_refused_by_a_failing_reload", 1)
	} else if assigned {
		if err := rg.assign("j1", h); err != nil {
			res.Inconcl = "assign: " + err.Error()
			return res
		}
	}
	body := c13Body
	if c.Big {
		body = c13BigBody()
	}
	host := fmt.Sprintf("t%d.example:9100", h)
	good := &bodyScript{Body: body, Gzip: c.Gzip}
	scrape := func(reqURL string) scrapeOutcome {
		if c.Mode == "direct" {
			req := httptest.NewRequest("GET", reqURL, nil)
			rw := newRec(0)
			var out scrapeOutcome
			func() {
				defer func() {
					if p := recover(); p != nil {
						if p == http.ErrAbortHandler {
							out.Aborted = true
						} else {
							out.Panic = fmt.Sprint(p)
						}
					}
				}()
				rg.in.Proxy.ServeHTTP(rw, req)
			}()
			out.Status = rw.status
			if out.Status == 0 {
				out.Status = 200
			}
			out.Body = rw.body()
			out.LateHdr = rw.lateHeader
			return out
		}
		rg.ensureSrv()
		req, _ := http.NewRequest("GET", reqURL, nil)
		var out scrapeOutcome
		resp, err := rg.cli.Do(req)
		if err != nil {
			out.Aborted, out.ReadErr = true, err.Error()
			return out
		}
		defer resp.Body.Close()
		out.Status = resp.StatusCode
		b, err := io.ReadAll(resp.Body)
		out.Body = b
		if err != nil {
			out.Aborted, out.ReadErr = true, err.Error()
		}
		return out
	}
	status := func() *target.ScrapeStatus {
		st, err := rg.in.Status()
		if err != nil {
			return nil
		}
		return st[h]
	}
	reqURL := proxyURLFor("j1", h)

	// 1. a healthy scrape first
	rg.mt.set(host, good)
	if c.Mode == "tcp" {
		// make the lazy init explicit and healthy
		o := rg.scrapeTCP("j1", h)
		if o.Status != 200 || o.Aborted {
			res.Inconcl = fmt.Sprintf("healthy warm-up scrape failed: %+v", o.ReadErr)
			ld.suspect = true
			return res
		}
	} else {
		o := scrape(reqURL)
		if o.Status != 200 || o.Aborted {
			res.Inconcl = "healthy warm-up scrape failed"
			ld.suspect = true
			return res
		}
	}
	var before uint64
	if assigned {
		st := status()
		if st == nil {
			res.Inconcl = "no status entry for assigned target"
			return res
		}
		if string(st.Health) != "up" || st.LastError != "" || st.ScrapeTimes != 1 {
			res.Violate("C13/success-not-up", "after a successful scrape: health %q, lastError %q, ScrapeTimes %d (expected up, \"\", 1)", st.Health, st.LastError, st.ScrapeTimes)
		}
		before = st.ScrapeTimes
	}

	priorErr := ""
	if c.PriorFail && assigned {
		rg.mt.set(host, &bodyScript{Status: 500, Body: []byte("first failure\n")})
		_ = scrape(reqURL)
		st := status()
		if st == nil || st.LastError == "" {
			res.Inconcl = "the preceding failing scrape left no error"
			return res
		}
		priorErr = st.LastError
		before = st.ScrapeTimes
		rg.mt.set(host, good) // the target itself is fine again; what follows is the fault of the case
		res.AddStat("failures_preceded_by_another_failure", 1)
	}
	// 2. the faulty scrape
	var raw *rawTarget
	fault := true
	transferMid := false // the target goes normal -> in_transfer while the scrape is in flight
	either := false      // the stop reason changes mid-scrape: the attempt may count as failed or as successful, but consistently
	var gate, entered chan struct{}
	truncating := true // the fault cuts content (vs. breaking after all content was delivered)
	switch c.Kind {
	case "none":
		fault = false
	case "dial":
		rg.mt.set(host, &bodyScript{DialErr: "dial tcp 10.0.0.2:9100: connect: connection refused"})
	case "status":
		rg.mt.set(host, &bodyScript{Status: c.Status, Body: []byte("nope\n")})
	case "stall-before":
		rg.mt.set(host, &bodyScript{StallBefore: true})
	case "stall-mid", "stall-mid-client-quits":
		rg.mt.set(host, &bodyScript{Body: body, Stall: true, StallAt: c.Offset, Chunks: []int{41, 41, 41, 41}})
	case "stop":
		if _, _, err := rg.in.Call("POST", "/api/v1/status/extra_config/", &prom.ExtraConfig{StopScrapeReason: "disk of prometheus is full"}, nil); err != nil {
			res.Inconcl = "set stop reason: " + err.Error()
			return res
		}
		if rg.in.Cfg.ConfigInfo().ExtraConfig.StopScrapeReason == "" {
			res.Inconcl = "stop reason not applied"
			return res
		}
		rg.hookClients()
	case "slow-after-timeout-lowered":
		if err := rg.in.PushConfig(fmt.Sprintf(rigConfigTmpl, "1s", "")); err != nil {
			res.Inconcl = "reload with a lower scrape_timeout: " + err.Error()
			return res
		}
		rg.hookClients()
		rg.mt.set(host, &bodyScript{Body: body, Gzip: c.Gzip, DelayMs: 3000})
	case "transfer-begins-inflight-fail":
		transferMid = true
		gate, entered = make(chan struct{}), make(chan struct{})
		rg.mt.set(host, &bodyScript{Status: 503, Body: []byte("overloaded\n"), Gate: gate, Entered: entered})
	case "transfer-begins-inflight-ok":
		// the scrape before the interesting one fails
		rg.mt.set(host, &bodyScript{Status: 500, Body: []byte("boom\n")})
		_ = scrape(reqURL)
		if st := status(); st == nil || string(st.Health) != "down" {
			res.Inconcl = "preparatory failing scrape did not register"
			return res
		}
		transferMid, fault = true, false
		gate, entered = make(chan struct{}), make(chan struct{})
		rg.mt.set(host, &bodyScript{Body: body, Gzip: c.Gzip, Gate: gate, Entered: entered})
	case "stop-cleared-inflight", "stop-set-inflight":
		either = true
		if c.Kind == "stop-cleared-inflight" {
			if _, _, err := rg.in.Call("POST", "/api/v1/status/extra_config/", &prom.ExtraConfig{StopScrapeReason: "disk of prometheus is full"}, nil); err != nil {
				res.Inconcl = "set stop reason: " + err.Error()
				return res
			}
			rg.hookClients()
		}
		gate, entered = make(chan struct{}), make(chan struct{})
		rg.mt.set(host, &bodyScript{Body: body, Gzip: c.Gzip, Gate: gate, Entered: entered})
	case "midbody", "unassigned-midbody":
		bs := &bodyScript{Body: body, Gzip: c.Gzip, Err: c.Err, ErrAt: c.Offset}
		if c.Chunk > 0 {
			bs.Chunks = []int{c.Chunk, c.Chunk, c.Chunk, c.Chunk, c.Chunk, c.Chunk, c.Chunk, c.Chunk}
		}
		rg.mt.set(host, bs)
		if c.Offset >= len(bs.wire()) {
			truncating = false
		}
	case "tcp-cl", "tcp-chunked", "tcp-rst":
		var rawb []byte
		switch c.Kind {
		case "tcp-cl", "tcp-rst":
			rawb = []byte(fmt.Sprintf("HTTP/1.1 200 OK\r\nContent-Type: text/plain; version=0.0.4\r\nContent-Length: %d\r\n\r\n", len(body)))
			rawb = append(rawb, body[:c.Offset]...)
		case "tcp-chunked":
			rawb = []byte("HTTP/1.1 200 OK\r\nContent-Type: text/plain; version=0.0.4\r\nTransfer-Encoding: chunked\r\n\r\n")
			if c.Offset > 0 {
				rawb = append(rawb, []byte(fmt.Sprintf("%x\r\n", c.Offset))...)
				rawb = append(rawb, body[:c.Offset]...)
				rawb = append(rawb, '\r', '\n')
			}
		}
		raw, err = startRawTarget(rawb, c.Kind == "tcp-rst")
		if err != nil {
			res.Inconcl = "raw target: " + err.Error()
			return res
		}
		defer raw.close()
		rg.in.SM.GetJob("j1").Cli = &http.Client{Transport: &http.Transport{DisableKeepAlives: true}}
		q := url.Values{}
		q.Set("_jobName", "j1")
		q.Set("_hash", fmt.Sprint(h))
		q.Set("_scheme", "http")
		reqURL = fmt.Sprintf("http://%s/metrics?%s", raw.l.Addr().String(), q.Encode())
	}
	var o scrapeOutcome
	if gate != nil {
		ch := make(chan scrapeOutcome, 1)
		go func() { ch <- scrape(reqURL) }()
		select {
		case <-entered:
		case <-time.After(30 * time.Second):
			close(gate)
			res.Inconcl = "the gated real request was not made within 30 s"
			ld.suspect = true
			return res
		}
		var err error
		if transferMid {
			err = rg.in.UpdateTargets(map[string][]*target.Target{"j1": {rigTarget(h, "in_transfer")}})
		} else {
			reason := "disk of prometheus is full"
			if c.Kind == "stop-cleared-inflight" {
				reason = ""
			}
			_, _, err = rg.in.Call("POST", "/api/v1/status/extra_config/", &prom.ExtraConfig{StopScrapeReason: reason}, nil)
		}
		close(gate)
		o = <-ch
		if err != nil {
			res.Inconcl = "update during the scrape: " + err.Error()
			return res
		}
	} else if c.Kind == "stall-mid-client-quits" {
		rg.ensureSrv()
		pu, _ := url.Parse(rg.srv.URL)
		quick := &http.Client{Transport: &http.Transport{Proxy: http.ProxyURL(pu), DisableCompression: true, DisableKeepAlives: true}, Timeout: 400 * time.Millisecond}
		resp, err := quick.Get(reqURL)
		if err != nil {
			o.Aborted, o.ReadErr = true, err.Error()
		} else {
			o.Status = resp.StatusCode
			b, err := io.ReadAll(resp.Body)
			resp.Body.Close()
			o.Body = b
			if err != nil {
				o.Aborted, o.ReadErr = true, err.Error()
			}
		}
		// the proxy's own attempt ends when ITS timeout (1 s) fires; wait for the bookkeeping
		for i := 0; i < 400; i++ {
			if st := status(); st != nil && st.ScrapeTimes > before {
				break
			}
			time.Sleep(25 * time.Millisecond)
		}
	} else {
		o = scrape(reqURL)
	}
	res.Execs = 1
	res.AddStat("scrapes_with_fault_"+kind, 1)
	if o.Panic != "" {
		res.Violate("C13/handler-panic/"+kind, "proxy handler panicked: %s", o.Panic)
	}
	promFailed := o.Status != 200 || o.Aborted
	if either {
		fault = promFailed
		if !promFailed && string(o.Body) != string(body) {
			res.Violate("C13/prom-side-success/"+kind, "stop reason changed while the real request was in flight: Prometheus received a complete 200 response with %d of %d body bytes", len(o.Body), len(body))
			fault = true // nothing usable was delivered: the status must not show a success
		}
		if promFailed {
			res.AddSet("inflight_outcomes", kind+"=failed")
		} else {
			res.AddSet("inflight_outcomes", kind+"=succeeded")
		}
	}
	if either {
		// judged above
	} else if fault {
		if promFailed {
			if o.Aborted {
				res.AddStat("prom_side_aborted", 1)
			} else {
				res.AddStat("prom_side_non_200", 1)
			}
		}
		if !promFailed {
			what := "truncated content"
			if !truncating {
				what = "the whole content although the connection broke instead of ending"
			}
			res.Violate("C13/prom-side-success/"+kind, "real scrape failed (%s at offset %d, gzip %v) but Prometheus received a complete 200 response with %s: %d of %d body bytes (late WriteHeader calls: %v)",
				kindText(c), c.Offset, c.Gzip, what, len(o.Body), len(body), o.LateHdr)
		}
	} else if promFailed {
		res.Violate("C13/success-reported-as-failure", "fault-free scrape: Prometheus side status %d aborted %v %s", o.Status, o.Aborted, o.ReadErr)
	}
	if assigned {
		st := status()
		if st == nil {
			res.Inconcl = "status entry vanished"
			return res
		}
		res.AddSet("health_after_fault", kind+"="+string(st.Health))
		if transferMid {
			before = 0 // normal -> in_transfer restarts the counter; the attempt in flight is counted after that
		}
		if st.ScrapeTimes != before+1 {
			res.Violate("C13/counter/"+kind, "scrape counter went from %d to %d over one attempt (%s)", before, st.ScrapeTimes, kindText(c))
		}
		if fault {
			if string(st.Health) != "down" || st.LastError == "" {
				res.Violate("C13/health-not-down/"+kind, "real scrape failed (%s at offset %d) but status shows health %q lastError %q", kindText(c), c.Offset, st.Health, st.LastError)
			} else if priorErr != "" && st.LastError == priorErr {
				res.Violate("C13/stale-error/"+kind, "two failed scrapes in a row with different causes (HTTP 500, then %s): the status still shows the FIRST failure's error %q", kindText(c), st.LastError)
			}
		} else {
			if string(st.Health) != "up" || st.LastError != "" {
				res.Violate("C13/health-not-up/"+kind, "scrape delivered everything to Prometheus with 200 but status shows health %q lastError %q", st.Health, st.LastError)
			}
		}
		before = st.ScrapeTimes
	}

	// 2b. a request the proxy rejects by itself (unknown job: no client) is not a scrape attempt
	if assigned && c.Kind == "none" {
		q := url.Values{}
		q.Set("_jobName", "job-without-client")
		q.Set("_hash", fmt.Sprint(h))
		q.Set("_scheme", "http")
		o3 := scrape(fmt.Sprintf("http://%s/metrics?%s", host, q.Encode()))
		if o3.Status == 200 && !o3.Aborted {
			res.Violate("C13/prom-side-success/unknown-job", "a request for a job the proxy has no client for was answered 200")
		}
		if st := status(); st != nil {
			res.AddStat("rejected_requests_checked", 1)
			if st.ScrapeTimes != before || string(st.Health) != "up" {
				res.Violate("C13/counter/rejected-request", "a request the proxy rejected without contacting the target changed the status: ScrapeTimes %d -> %d, health %q", before, st.ScrapeTimes, st.Health)
			}
		}
	}

	if c.Kind == "slow-after-timeout-lowered" {
		_ = rg.in.PushConfig(fmt.Sprintf(rigConfigTmpl, rigLongTimeout, ""))
	}
	// 3. recovery: a healthy scrape again
	if strings.HasPrefix(c.Kind, "stop") {
		_, _, _ = rg.in.Call("POST", "/api/v1/status/extra_config/", &prom.ExtraConfig{StopScrapeReason: ""}, nil)
	}
	rg.hookClients()
	rg.mt.set(host, good)
	o2 := scrape(proxyURLFor("j1", h))
	if isTimeoutish(o2.ReadErr) {
		ld.suspect = true
	}
	if o2.Status != 200 || o2.Aborted || string(o2.Body) != string(body) {
		res.Violate("C13/no-recovery/"+kind, "healthy scrape after the fault: status %d aborted %v body %d/%d bytes", o2.Status, o2.Aborted, len(o2.Body), len(body))
	}
	if assigned {
		st := status()
		if st != nil && isTimeoutish(st.LastError) {
			ld.suspect = true
		}
		if st != nil && (string(st.Health) != "up" || st.LastError != "" || st.ScrapeTimes != before+1) {
			res.Violate("C13/success-not-up", "after the recovery scrape: health %q, lastError %q, ScrapeTimes %d (expected up, \"\", %d)", st.Health, st.LastError, st.ScrapeTimes, before+1)
		}
	}
	if len(res.Viol) > 0 {
		res.Witness = map[string]interface{}{"case": c, "prometheus_side": map[string]interface{}{"status": o.Status, "aborted": o.Aborted, "readErr": o.ReadErr, "bodyLen": len(o.Body), "bodyTail": tail(o.Body, 80), "lateWriteHeader": o.LateHdr}}
	}
	if idx%97 == 0 {
		res.Sample = map[string]interface{}{"case": c, "prometheus_side_status": o.Status, "aborted": o.Aborted, "body_bytes": len(o.Body)}
	}
	res.Viol = dedupeV(res.Viol)
	return res
}

func kindText(c c13Case) string {
	if c.Err != "" {
		return c.Kind + " (" + c.Err + ")"
	}
	if c.Status != 0 {
		return fmt.Sprintf("%s %d", c.Kind, c.Status)
	}
	return c.Kind
}

func tail(b []byte, n int) string {
	if len(b) > n {
		b = b[len(b)-n:]
	}
	return string(b)
}

func init() {
	core.Register(&core.Prop{
		ID:    "C13",
		Level: "fault_enumeration",
		Rule: "fault = one failure of the real scrape behind the real Proxy.ServeHTTP: connect error, non-200 status {204,400,404,500,503}, stall before headers / mid body beyond the scrape timeout, administrative stop, body breaking off at EVERY wire offset of a 3-chunk body (identity and gzip) with three error kinds {unexpected EOF, generic read error, 'connection reset by peer'}, the same on a multi-block (>64 KiB) body at block boundaries, and over real TCP: short Content-Length body, cut chunked body, RST; " +
			"each placement observed both through an instrumented ResponseWriter and through a real net/http server+client (the only way to see an aborted response); every case = healthy scrape, faulty scrape, healthy scrape, with /targets/status/ read after each; " +
			"plus the administrative stop set or lifted while the real request is in flight (identity and gzip, both Prometheus-side modes): the attempt must come out consistently - complete 200 with the full body and health up, or failed response and health down with an error - counter +1 either way; healthy scrapes use a 120 s scrape timeout (only the stall faults use 1 s), and a case whose healthy scrapes time out is repeated up to three times, then inconclusive; " +
			"plus failures (503, connection error, administrative stop) that directly follow a failure with another cause (HTTP 500): the status must show the latest failure's error; " +
			"plus success / connection error / 503 for a target whose assigning update was answered with an error because the reload of Prometheus failed (the sidecar lists it all the same); " +
			"non-trivial = every case (each executes a fault or the control); distinct = (kind, Prometheus-side mode, encoding, offset)",
		Assumptions: []string{
			"in-memory targets are an http.RoundTripper installed in JobInfo.Cli (exported field); their Read errors repeat once raised, as net/http bodies do",
			"a break after the whole content was delivered (offset = len) is judged only for consistency between the Prometheus side and the health shown",
		},
		NumCases:      func(tier string) int { return len(c13Cases(tier)) },
		Run:           runC13,
		MinNontrivial: 100,
		CaseTimeout:   120e9,
		Exhaustive:    func(tier string) bool { return true },
	})
}
