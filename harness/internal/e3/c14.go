package e3

import (
	"fmt"
	"math"
	"path/filepath"
	"time"

	"kvassverif/internal/core"
	"tkestack.io/kvass/pkg/target"
)

type c14Model struct {
	assigned bool
	series   int64 // expected status.Series
	total    int64
	window   []int64
	lastKept int // counts of the last scrape (0 after a failed one)
	lastCnt  *Counts
}

func c14Base(tier string) int {
	if tier == "thorough" {
		return 20000
	}
	return 1200
}

func runC14(w *core.WorkerCtx, idx int) *core.CaseResult {
	if base := c14Base(w.Tier); idx >= base {
		return runC14Real(w, idx-base)
	}
	r := core.NewRng(w.Seed, 0xC14, uint64(idx))
	res := &core.CaseResult{}
	rs := RuleSets[idx%len(RuleSets)]
	dir := filepath.Join(w.Scratch, fmt.Sprintf("c14-%d", idx))
	promHead := r.Pick64(0, 0, 5, 50, 100000)
	rg, err := newRigHead(dir, rigLongTimeout, rs.YAML, func() (int64, error) { return promHead, nil })
	if err != nil {
		res.Inconcl = "rig: " + err.Error()
		return res
	}
	defer rg.close()
	nT := 2 + r.Intn(4)
	big := idx%50 == 7 // multi-block payloads now and then (also the -race workload)
	model := map[uint64]*c14Model{}
	est := map[uint64][2]int64{}
	var trace []string
	var lastAssign map[string][]*target.Target
	assign := func() bool {
		m := map[string][]*target.Target{}
		for h := uint64(1); h <= uint64(nT); h++ {
			if r.Intn(4) == 0 && len(model) > 0 {
				continue // not assigned this time
			}
			t := rigTarget(h, r.PickS("", "", "in_transfer"))
			t.Series, t.TotalSeries = int64(r.Intn(500)), int64(r.Intn(900))
			est[h] = [2]int64{t.Series, t.TotalSeries}
			job := c14JobOf(h)
			m[job] = append(m[job], t)
		}
		if err := rg.in.UpdateTargets(m); err != nil {
			res.Inconcl = "assign: " + err.Error()
			return false
		}
		lastAssign = m
		now := map[uint64]bool{}
		for _, ts := range m {
			for _, t := range ts {
				now[t.Hash] = true
				if model[t.Hash] == nil || !model[t.Hash].assigned {
					model[t.Hash] = &c14Model{assigned: true, series: t.Series, total: t.TotalSeries}
				}
			}
		}
		for h, mm := range model {
			if !now[h] {
				mm.assigned = false
				delete(model, h)
			}
		}
		trace = append(trace, fmt.Sprintf("assign %v", keysOf(now)))
		return true
	}
	if !assign() {
		return res
	}
	check := func(after string) {
		st, err := rg.in.Status()
		if err != nil {
			res.Inconcl = "status: " + err.Error()
			return
		}
		var sumS, sumT int64
		for h, mm := range model {
			s := st[h]
			if s == nil {
				res.Violate("C14/status-entry-missing", "after %s: no status entry for assigned target %d", after, h)
				continue
			}
			sumS += mm.series
			sumT += mm.total
			if s.Series != mm.series {
				res.Violate("C14/series-mean", "after %s: target %d series %d, expected %d = floor(mean of last successful kept counts %v)", after, h, s.Series, mm.series, mm.window)
			}
			if s.TotalSeries != mm.total {
				res.Violate("C14/total-series", "after %s: target %d totalSeries %d, expected %d (last successful scrape)", after, h, s.TotalSeries, mm.total)
			}
			// per-scrape statistics (not exported through JSON: read in-process at a quiescent point)
			if mm.lastCnt != nil {
				ls := rg.in.TM.TargetsInfo().Status[h].LastScrapeStatistics
				if int(ls.Total) != mm.lastCnt.Total || int(ls.ScrapedTotal) != mm.lastCnt.Kept {
					res.Violate("C14/scrape-totals", "after %s: target %d last scrape recorded total=%v kept=%v, payload has total=%d kept=%d (rules %s)", after, h, ls.Total, ls.ScrapedTotal, mm.lastCnt.Total, mm.lastCnt.Kept, rs.Name)
				}
				var pt, pk float64
				for name, mi := range ls.MetricsTotal {
					pt += mi.Total
					pk += mi.Scraped
					if int(mi.Total) != mm.lastCnt.PerTotal[name] || int(mi.Scraped) != mm.lastCnt.PerKept[name] {
						res.Violate("C14/per-metric", "after %s: target %d metric %s recorded %v/%v, payload has %d/%d", after, h, name, mi.Total, mi.Scraped, mm.lastCnt.PerTotal[name], mm.lastCnt.PerKept[name])
					}
				}
				if pt != ls.Total || pk != ls.ScrapedTotal || len(ls.MetricsTotal) != len(mm.lastCnt.PerTotal) {
					res.Violate("C14/per-metric-sum", "after %s: target %d per-metric counts add up to %v/%v over %d metrics, totals are %v/%v over %d metrics", after, h, pt, pk, len(ls.MetricsTotal), ls.Total, ls.ScrapedTotal, len(mm.lastCnt.PerTotal))
				}
			}
		}
		rt, err := rg.in.Runtime()
		if err != nil {
			res.Inconcl = "runtimeinfo: " + err.Error()
			return
		}
		wantHead := promHead
		if sumS > wantHead {
			wantHead = sumS
		}
		if rt.ProcessSeries != sumT {
			res.Violate("C14/process-series-sum", "after %s: shard reports process series %d, sum of target totals is %d", after, rt.ProcessSeries, sumT)
		}
		if rt.HeadSeries != wantHead {
			res.Violate("C14/head-series-floor", "after %s: shard reports head series %d, expected max(prometheus head %d, sum of series %d)", after, rt.HeadSeries, promHead, sumS)
		}
		// /samples/ aggregates the last scrapes of the job's targets
		// with and without the job filter
		for _, filter := range []string{"", "j1", "j2"} {
			sm, err := rg.in.Samples(filter, true)
			if err != nil {
				res.Inconcl = "samples: " + err.Error()
				return
			}
			for _, job := range []string{"j1", "j2"} {
				wantKept, wantPerT, wantPerK, has := 0, map[string]int{}, map[string]int{}, false
				for h, mm := range model {
					if c14JobOf(h) != job {
						continue
					}
					has = true
					if mm.lastCnt != nil {
						wantKept += mm.lastCnt.Kept
						for k, v := range mm.lastCnt.PerTotal {
							wantPerT[k] += v
						}
						for k, v := range mm.lastCnt.PerKept {
							wantPerK[k] += v
						}
					}
				}
				j := sm[job]
				if filter != "" && filter != job {
					if j != nil {
						res.Violate("C14/samples-filter", "after %s: /samples/?job=%s also returns job %s", after, filter, job)
					}
					continue
				}
				if !has {
					continue
				}
				if j == nil {
					res.Violate("C14/samples-job-missing", "after %s: /samples/?job=%s has no entry for job %s", after, filter, job)
					continue
				}
				if int(j.ScrapedTotal) != wantKept {
					res.Violate("C14/samples-total", "after %s: /samples/ job %s scrapedTotal %v, expected %d", after, job, j.ScrapedTotal, wantKept)
				}
				for name, mi := range j.MetricsTotal {
					if int(mi.Total) != wantPerT[name] || int(mi.Scraped) != wantPerK[name] {
						res.Violate("C14/samples-per-metric", "after %s: /samples/ job %s metric %s %v/%v, expected %d/%d", after, job, name, mi.Total, mi.Scraped, wantPerT[name], wantPerK[name])
					}
				}
				for name, v := range wantPerT {
					if v > 0 && j.MetricsTotal[name] == nil {
						res.Violate("C14/samples-per-metric", "after %s: /samples/ job %s lacks metric %s (expected %d)", after, job, name, v)
					}
				}
			}
		}
	}
	check("initial assignment")
	nOps := 4 + r.Intn(20)
	for k := 0; k < nOps && res.Inconcl == ""; k++ {
		if r.Intn(7) == 0 {
			if !assign() {
				break
			}
			check(trace[len(trace)-1])
			continue
		}
		if r.Intn(9) == 0 {
			// the coordinator pushes a new configuration in which only the job's metric relabel rules differ
			rs = RuleSets[r.Intn(len(RuleSets))]
			if err := rg.in.PushConfig(fmt.Sprintf(rigConfigTmpl, rigLongTimeout, rs.YAML)); err != nil {
				res.Inconcl = "reload: " + err.Error()
				break
			}
			rg.hookClients()
			trace = append(trace, "reload: metric relabel rules of j1 are now "+rs.Name)
			res.AddStat("rule_reloads", 1)
			continue
		}
		h := uint64(1 + r.Intn(nT))
		n := r.PickI(0, 1, 3, 10, 40, 200)
		if big {
			n = 3000 + r.Intn(3000)
		}
		ss := GenSamples(r, n)
		body := Render(ss, r.Intn(2) == 0)
		fail := r.Intn(4) == 0
		host := fmt.Sprintf("t%d.example:9100", h)
		bs := &bodyScript{Body: body, Gzip: r.Intn(2) == 0}
		failKind := ""
		if fail {
			switch r.Intn(3) {
			case 0:
				bs = &bodyScript{Status: 500, Body: []byte("boom")}
				failKind = "status 500"
			case 1:
				bs = &bodyScript{DialErr: "dial tcp: connection refused"}
				failKind = "dial"
			case 2:
				bs.Err, bs.ErrAt = "unexpected EOF", len(bs.wire())/2
				failKind = "body cut"
			}
		}
		rg.mt.set(host, bs)
		var o scrapeOutcome
		// always through a direct ServeHTTP call: with a real HTTP hop the proxy's bookkeeping runs in a
		// server goroutine whose ordering with this goroutine goes through a socket, which the race
		// detector cannot see (the harness' own reads would then show up as races)
		_ = r.Intn(3)
		overlap := r.Intn(5) == 0 && !fail && !w.Race && model[h] != nil
		if overlap {
			// the coordinator re-posts the SAME assignment while this scrape is in flight (the target is
			// held inside the harness transport): the target stays, so the scrape must count as any other
			bs.Gate, bs.Entered = make(chan struct{}), make(chan struct{})
			ch := make(chan scrapeOutcome, 1)
			go func() { ch <- rg.scrapeDirect(c14JobOf(h), h, 0) }()
			var uerr error
			select {
			case <-bs.Entered:
				uerr = rg.in.UpdateTargets(lastAssign)
			case <-time.After(60 * time.Second):
				uerr = fmt.Errorf("gated request not made within 60 s")
			}
			close(bs.Gate)
			o = <-ch
			if uerr != nil {
				res.Inconcl = "update during scrape: " + uerr.Error()
				break
			}
			res.AddStat("scrapes_overlapped_by_an_identical_assignment", 1)
		} else {
			o = rg.scrapeDirect(c14JobOf(h), h, 0)
		}
		res.Execs++
		res.AddStat("scrapes", 1)
		cnt := Expect(ss, c14RulesOf(h, rs))
		mm := model[h]
		op := fmt.Sprintf("scrape target %d with %d samples (kept %d) fail=%q", h, cnt.Total, cnt.Kept, failKind)
		if overlap {
			op += " [identical assignment re-posted while in flight]"
		}
		trace = append(trace, op)
		if fail {
			res.AddStat("scrapes_failed", 1)
			if mm != nil {
				mm.lastCnt = &Counts{PerTotal: map[string]int{}, PerKept: map[string]int{}}
			}
		} else {
			if o.Status != 200 || o.Aborted {
				st, _ := rg.in.Status()
				le := ""
				if st[h] != nil {
					le = st[h].LastError
				}
				res.Inconcl = fmt.Sprintf("healthy scrape failed: status %d aborted %v %s lastError=%q op=%s", o.Status, o.Aborted, o.ReadErr, le, op)
				break
			}
			res.AddStat("samples_counted", int64(cnt.Total))
			res.AddStat("samples_dropped_by_rules", int64(cnt.Total-cnt.Kept))
			if mm != nil {
				mm.window = append(mm.window, int64(cnt.Kept))
				if len(mm.window) > 3 {
					mm.window = mm.window[1:]
				}
				var sum int64
				for _, v := range mm.window {
					sum += v
				}
				mm.series = int64(math.Floor(float64(sum) / float64(len(mm.window))))
				mm.total = int64(cnt.Total)
				c2 := cnt
				mm.lastCnt = &c2
			} else {
				res.AddStat("scrapes_of_unassigned_target", 1)
			}
		}
		check(op)
	}
	res.Sig = fmt.Sprintf("%s|t%d|head%d|ops%d|big%v|%x", rs.Name, nT, promHead, nOps, big, core.HashString(fmt.Sprint(trace))&0xffff)
	res.Nontrivial = res.Execs >= 2
	res.Viol = dedupeV(res.Viol)
	if len(res.Viol) > 0 {
		res.Witness = map[string]interface{}{"rules": rs.Name, "rules_yaml": rs.YAML, "prometheus_head": promHead, "trace": trace}
	}
	if idx < 3 {
		res.Sample = map[string]interface{}{"rules": rs.Name, "prometheus_head": promHead, "trace": trace}
	}
	return res
}

func keysOf(m map[uint64]bool) []uint64 {
	var ks []uint64
	for h := uint64(0); h < 64; h++ {
		if m[h] {
			ks = append(ks, h)
		}
	}
	return ks
}

func init() {
	core.Register(&core.Prop{
		ID:    "C14",
		Level: "exploration",
		Rule: "case = one real sidecar (service + proxy + targets manager) with one of 6 metric_relabel_configs programs whose per-sample outcome is known by construction, a scripted Prometheus head count, 2-5 targets spread over two jobs (one with the rule set, one without), and a seed-determined sequence of 4-24 operations (scrape with a generated payload of 0-200 samples - sometimes 3000-6000, i.e. several parser blocks - duplicates included, gzip or identity, through Proxy.ServeHTTP; failing scrapes of three kinds; re-assignments with new estimates; configuration reloads that change only the job's metric relabel rules); after every operation /targets/status/, /runtimeinfo/, /samples/?with_metrics_detail=true (unfiltered and filtered by either job) and the in-process LastScrapeStatistics are compared with an arithmetic reference; runs from the -race binary; " +
			"one scrape in five of an assigned target is held in the harness transport while the identical assignment is re-posted (normal binary only; the -race pass re-runs the first 600/6000 cases sequentially scheduled); " +
			"plus 3/24 cases on the REAL sidecar process (head count through prom.Client as wired in cmd/kvass/sidecar.go): 7-12 back-to-back runtimeinfo polls while the stub Prometheus' head grows or is truncated: reported head >= Prometheus' head at the time of the request and >= the sum of target series; " +
			"non-trivial = at least two scrapes executed; distinct = (rule set, #targets, head value, operation trace hash)",
		Assumptions: []string{
			"expected kept/dropped outcome of each sample is evaluated by plain string predicates written next to each rule set, not by the relabel package",
			"LastScrapeStatistics is read in-process between operations (it is not exposed through the JSON API)",
		},
		NumCases:      func(tier string) int { return c14Base(tier) + c14RealCases(tier) },
		Run:           runC14,
		MinNontrivial: 100,
		// every case runs from the normal binary (with assignments re-posted while a scrape is in flight);
		// a prefix of the cases (incl. the multi-block payloads) runs once more from the -race binary,
		// there without the overlapping re-post (the harness would only add its own concurrency)
		RacePass: func(tier string) []int {
			n := 600
			if tier == "thorough" {
				n = 6000
			}
			l := make([]int, n)
			for i := range l {
				l[i] = i
			}
			return l
		},
		RaceAttribute: func(rep core.RaceReport) (string, bool) {
			if rep.Sides("scrape.StatisticSeries", "scrape.StatisticSeries") {
				return "C14/race-in-statistics", true
			}
			return "", false
		},
	})
}

// targets with an even id belong to job j1 (which carries the case's metric relabel program),
// odd ones to job j2 (no rules: everything is kept)
func c14JobOf(h uint64) string {
	if h%2 == 0 {
		return "j1"
	}
	return "j2"
}

func c14RulesOf(h uint64, rs RuleSet) RuleSet {
	if h%2 == 0 {
		return rs
	}
	return RuleSets[0]
}
