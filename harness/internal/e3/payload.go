package e3

import (
	"fmt"
	"sort"
	"strings"

	"kvassverif/internal/core"
)

// Sample is one exposition line with everything the oracle needs known by construction.
type Sample struct {
	Metric string
	Labels [][2]string
	Value  string
}

// RuleSet is a metric_relabel_configs program whose outcome per sample is known by construction
// (evaluated below with plain string operations, independent of the relabel package).
type RuleSet struct {
	Name string
	YAML string // indented for insertion under a job
	Keep func(s Sample) bool
}

func label(s Sample, k string) string {
	for _, l := range s.Labels {
		if l[0] == k {
			return l[1]
		}
	}
	return ""
}

// RuleSets is the catalogue.
var RuleSets = []RuleSet{
	{Name: "none", YAML: "", Keep: func(Sample) bool { return true }},
	{Name: "drop-by-name", YAML: `  metric_relabel_configs:
  - source_labels: [__name__]
    regex: drop_.*
    action: drop
`, Keep: func(s Sample) bool { return !strings.HasPrefix(s.Metric, "drop_") }},
	{Name: "keep-by-label", YAML: `  metric_relabel_configs:
  - source_labels: [keep]
    regex: "yes"
    action: keep
`, Keep: func(s Sample) bool { return label(s, "keep") == "yes" }},
	{Name: "drop-env-dev+labeldrop", YAML: `  metric_relabel_configs:
  - regex: tmp_.*
    action: labeldrop
  - source_labels: [env]
    regex: dev
    action: drop
  - source_labels: [code]
    target_label: code_class
    regex: (.).*
    replacement: ${1}xx
`, Keep: func(s Sample) bool { return label(s, "env") != "dev" }},
	{Name: "drop-name-and-code", YAML: `  metric_relabel_configs:
  - source_labels: [__name__, code]
    regex: http_requests_total;5..
    action: drop
  - source_labels: [__name__]
    regex: (go|process)_.*
    action: drop
`, Keep: func(s Sample) bool {
		if s.Metric == "http_requests_total" && len(label(s, "code")) == 3 && label(s, "code")[0] == '5' {
			return false
		}
		return !(strings.HasPrefix(s.Metric, "go_") || strings.HasPrefix(s.Metric, "process_"))
	}},
	// rule PIPELINES: a keep/drop rule that reads a label an earlier rule wrote
	{Name: "rewrite-then-drop", YAML: `  metric_relabel_configs:
  - source_labels: [code]
    target_label: __tmp_class
    regex: (.).*
    replacement: ${1}xx
  - source_labels: [__tmp_class]
    regex: 5xx
    action: drop
`, Keep: func(s Sample) bool { c := label(s, "code"); return !(len(c) > 0 && c[0] == '5') }},
	{Name: "copy-then-keep", YAML: `  metric_relabel_configs:
  - source_labels: [env]
    target_label: stage
    regex: (prod|devel)
    replacement: live-$1
  - source_labels: [stage]
    regex: live-.*
    action: keep
`, Keep: func(s Sample) bool { e := label(s, "env"); return e == "prod" || e == "devel" }},
	{Name: "keep-nothing", YAML: `  metric_relabel_configs:
  - source_labels: [__name__]
    regex: no_such_metric
    action: keep
`, Keep: func(s Sample) bool { return false }},
}

var metricNames = []string{"http_requests_total", "drop_me_total", "drop_other", "go_goroutines", "process_cpu_seconds_total", "node_load1", "up", "x", "rpc_duration_seconds_bucket"}

// GenSamples draws n samples (duplicates allowed on purpose).
func GenSamples(r *core.Rng, n int) []Sample {
	var out []Sample
	for i := 0; i < n; i++ {
		s := Sample{Metric: metricNames[r.Intn(len(metricNames))], Value: fmt.Sprint(r.Intn(100000))}
		if r.Intn(4) > 0 {
			s.Labels = append(s.Labels, [2]string{"code", r.PickS("200", "404", "500", "503", "302")})
		}
		if r.Intn(3) == 0 {
			s.Labels = append(s.Labels, [2]string{"keep", r.PickS("yes", "no", "yes!")})
		}
		if r.Intn(3) == 0 {
			s.Labels = append(s.Labels, [2]string{"env", r.PickS("dev", "prod", "devel")})
		}
		if r.Intn(5) == 0 {
			s.Labels = append(s.Labels, [2]string{"tmp_id", fmt.Sprint(r.Intn(1000))})
		}
		if r.Intn(6) == 0 {
			s.Labels = append(s.Labels, [2]string{"path", r.PickS(`/a "quoted" path`, `C:\\dir`, "with,comma", "with space", "le=\"0.5\"")})
		}
		if r.Intn(8) == 0 && len(out) > 0 {
			s = out[r.Intn(len(out))] // exact duplicate line
		}
		out = append(out, s)
	}
	return out
}

func escapeLabelValue(v string) string {
	v = strings.ReplaceAll(v, `\`, `\\`)
	v = strings.ReplaceAll(v, `"`, `\"`)
	v = strings.ReplaceAll(v, "\n", `\n`)
	return v
}

// Render writes the samples in exposition format with some comment and blank lines.
func Render(ss []Sample, decorate bool) []byte {
	var sb strings.Builder
	seen := map[string]bool{}
	for i, s := range ss {
		if decorate && !seen[s.Metric] {
			seen[s.Metric] = true
			fmt.Fprintf(&sb, "# HELP %s some help text.\n# TYPE %s untyped\n", s.Metric, s.Metric)
		}
		sb.WriteString(s.Metric)
		if len(s.Labels) > 0 {
			sb.WriteByte('{')
			for k, l := range s.Labels {
				if k > 0 {
					sb.WriteByte(',')
				}
				fmt.Fprintf(&sb, `%s="%s"`, l[0], escapeLabelValue(l[1]))
			}
			sb.WriteByte('}')
		}
		sb.WriteByte(' ')
		sb.WriteString(s.Value)
		sb.WriteByte('\n')
		if decorate && i%7 == 3 {
			sb.WriteByte('\n')
		}
	}
	return []byte(sb.String())
}

// Counts is the expected accounting of a payload under a rule set.
type Counts struct {
	Total, Kept int
	PerTotal    map[string]int
	PerKept     map[string]int
}

// Expect computes the counts by construction.
func Expect(ss []Sample, rs RuleSet) Counts {
	c := Counts{PerTotal: map[string]int{}, PerKept: map[string]int{}}
	for _, s := range ss {
		c.Total++
		c.PerTotal[s.Metric]++
		if rs.Keep(s) {
			c.Kept++
			c.PerKept[s.Metric]++
		}
	}
	return c
}

func fmtCounts(m map[string]int) string {
	var ks []string
	for k := range m {
		ks = append(ks, k)
	}
	sort.Strings(ks)
	var sb strings.Builder
	for _, k := range ks {
		fmt.Fprintf(&sb, "%s=%d ", k, m[k])
	}
	return sb.String()
}
