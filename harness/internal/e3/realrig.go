package e3

import (
	"bytes"
	"encoding/json"
	"fmt"
	"io"
	"net/http"
	"net/http/httptest"
	"net/url"
	"os"
	"path/filepath"
	"strings"
	"sync"
	"sync/atomic"
	"time"

	"kvassverif/internal/core"
	"tkestack.io/kvass/pkg/prom"
	"tkestack.io/kvass/pkg/shard"
	"tkestack.io/kvass/pkg/target"
)

// realRig: the real `kvass sidecar` process (its proxy is started by Proxy.Run, its head count comes from the real
// Prometheus client as wired in cmd/kvass/sidecar.go), a stub Prometheus whose head count the harness sets, and a
// loopback target whose answer is scripted per request.
type realRig struct {
	rs   *RealSidecar
	prom *httptest.Server
	tgt  *httptest.Server
	head int64
	tsdb int64
	// reloadFail > 0: the stub Prometheus answers POST /-/reload with 500 (it refuses the file or is restarting)
	reloadFail int32
	reloads    int64
	mu         sync.Mutex
	// script of the target: header delay, body parts with a delay before each
	hdrDelay time.Duration
	parts    [][]byte
	delays   []time.Duration
	ctype    string
}

const realRigConfig = `global:
  scrape_interval: 300s
  scrape_timeout: 120s
scrape_configs:
- job_name: j1
  static_configs:
  - targets: ['unused.example:1']
`

func newRealRig(w *core.WorkerCtx, name string) (*realRig, string) {
	bin := filepath.Join(os.Getenv("VERIF_ROOT"), "bin", "kvass")
	if _, err := os.Stat(bin); err != nil {
		return nil, "kvass binary not built: " + err.Error()
	}
	r := &realRig{ctype: "text/plain; version=0.0.4"}
	r.prom = httptest.NewServer(http.HandlerFunc(func(rw http.ResponseWriter, rq *http.Request) {
		rw.Header().Set("Content-Type", "application/json")
		if strings.HasSuffix(rq.URL.Path, "/status/tsdb") {
			atomic.AddInt64(&r.tsdb, 1)
			fmt.Fprintf(rw, `{"status":"success","data":{"headStats":{"numSeries":%d}}}`, atomic.LoadInt64(&r.head))
			return
		}
		if strings.HasSuffix(rq.URL.Path, "/-/reload") {
			atomic.AddInt64(&r.reloads, 1)
			if atomic.LoadInt32(&r.reloadFail) > 0 {
				rw.WriteHeader(500)
				io.WriteString(rw, `{"status":"error","error":"couldn't load configuration"}`)
				return
			}
		}
		io.WriteString(rw, `{"status":"success"}`)
	}))
	r.tgt = httptest.NewServer(http.HandlerFunc(func(rw http.ResponseWriter, rq *http.Request) {
		r.mu.Lock()
		hd, parts, delays, ct := r.hdrDelay, r.parts, r.delays, r.ctype
		r.mu.Unlock()
		time.Sleep(hd)
		rw.Header().Set("Content-Type", ct)
		rw.WriteHeader(200)
		fl, _ := rw.(http.Flusher)
		for i, p := range parts {
			if i < len(delays) {
				time.Sleep(delays[i])
			}
			if _, err := rw.Write(p); err != nil {
				return
			}
			if fl != nil {
				fl.Flush()
			}
		}
	}))
	dir := filepath.Join(w.Scratch, name)
	rs, err := StartRealSidecar(bin, dir, r.prom.URL, func() int64 { return atomic.LoadInt64(&r.tsdb) })
	if err != nil {
		r.prom.Close()
		r.tgt.Close()
		return nil, "real sidecar: " + err.Error()
	}
	r.rs = rs
	if err := r.post("/api/v1/status/config/", &shard.UpdateConfigRequest{RawContent: realRigConfig}); err != nil {
		r.close()
		return nil, "push config: " + err.Error()
	}
	return r, ""
}

func (r *realRig) close() {
	if r.rs != nil {
		r.rs.Kill()
	}
	r.prom.Close()
	r.tgt.Close()
}

func (r *realRig) post(path string, body interface{}) error {
	b, _ := json.Marshal(body)
	resp, err := http.Post(r.rs.API()+path, "application/json", bytes.NewReader(b))
	if err != nil {
		return err
	}
	defer resp.Body.Close()
	out, _ := io.ReadAll(resp.Body)
	if resp.StatusCode != 200 || !strings.Contains(string(out), `"success"`) {
		return fmt.Errorf("code %d: %s", resp.StatusCode, clipS(string(out), 300))
	}
	return nil
}

func (r *realRig) assign(hs ...uint64) error {
	m := map[string][]*target.Target{}
	for _, h := range hs {
		m["j1"] = append(m["j1"], rigTarget(h, ""))
	}
	return r.post("/api/v1/shard/targets/", &shard.UpdateTargetsRequest{Targets: m})
}

// scrape sends what Prometheus sends: a GET for the target's URL through the sidecar's proxy.
func (r *realRig) scrape(h uint64) (out scrapeOutcome) {
	pu, _ := url.Parse(r.rs.ProxyURL())
	cli := &http.Client{Transport: &http.Transport{Proxy: http.ProxyURL(pu), DisableCompression: true}, Timeout: 150 * time.Second}
	q := url.Values{}
	q.Set("_jobName", "j1")
	q.Set("_hash", fmt.Sprint(h))
	q.Set("_scheme", "http")
	resp, err := cli.Get(r.tgt.URL + "/metrics?" + q.Encode())
	if err != nil {
		out.Aborted, out.ReadErr = true, err.Error()
		return
	}
	defer resp.Body.Close()
	out.Status, out.Header = resp.StatusCode, resp.Header
	b, err := io.ReadAll(resp.Body)
	out.Body = b
	if err != nil {
		out.Aborted, out.ReadErr = true, err.Error()
	}
	return
}

func (r *realRig) runtime() (*shard.RuntimeInfo, error) {
	resp, err := http.Get(r.rs.API() + "/api/v1/shard/runtimeinfo/")
	if err != nil {
		return nil, err
	}
	defer resp.Body.Close()
	var out struct {
		Data shard.RuntimeInfo `json:"data"`
	}
	if err := json.NewDecoder(resp.Body).Decode(&out); err != nil {
		return nil, err
	}
	return &out.Data, nil
}

func (r *realRig) status() (map[uint64]*target.ScrapeStatus, error) {
	resp, err := http.Get(r.rs.API() + "/api/v1/shard/targets/status/")
	if err != nil {
		return nil, err
	}
	defer resp.Body.Close()
	var out struct {
		Data map[uint64]*target.ScrapeStatus `json:"data"`
	}
	if err := json.NewDecoder(resp.Body).Decode(&out); err != nil {
		return nil, err
	}
	return out.Data, nil
}

// ---------------------------------------------------------------------------
// C12: scrapes that take longer than any fixed server-side deadline would allow

const c12RealCasesQuick, c12RealCasesThorough = 3, 12

func c12RealCases(tier string) int {
	if tier == "thorough" {
		return c12RealCasesThorough
	}
	return c12RealCasesQuick
}

func runC12Real(w *core.WorkerCtx, k int) *core.CaseResult {
	kind := []string{"late-header", "late-tail", "trickle"}[k%3]
	slow := []time.Duration{11 * time.Second, 16 * time.Second, 31 * time.Second, 12 * time.Second}[(k/3)%4]
	assigned := (k/3)%2 == 0
	res := &core.CaseResult{Sig: fmt.Sprintf("real-proxy/%s/%v/assigned=%v", kind, slow, assigned), Nontrivial: true, Execs: 1}
	rg, msg := newRealRig(w, fmt.Sprintf("c12real-%d", k))
	if msg != "" {
		res.Inconcl = msg
		return res
	}
	defer rg.close()
	const h = uint64(7)
	if assigned {
		if err := rg.assign(h); err != nil {
			res.Inconcl = "assign: " + err.Error()
			return res
		}
	}
	r := core.NewRng(w.Seed, 0xC12E, uint64(k))
	body := Render(GenSamples(r, 4000+r.Intn(3000)), false)
	rg.mu.Lock()
	switch kind {
	case "late-header":
		rg.hdrDelay, rg.parts = slow, [][]byte{body}
	case "late-tail":
		cut := len(body) - 1 - r.Intn(2000)
		rg.parts, rg.delays = [][]byte{body[:cut], body[cut:]}, []time.Duration{0, slow}
	case "trickle":
		n := 8
		for i := 0; i < n; i++ {
			rg.parts = append(rg.parts, body[i*len(body)/n:(i+1)*len(body)/n])
			rg.delays = append(rg.delays, slow/time.Duration(n-1))
		}
		rg.delays[0] = 0
	}
	rg.mu.Unlock()
	// control: the same body served at once
	t0 := time.Now()
	out := rg.scrape(h)
	took := time.Since(t0)
	res.AddStat("slow_scrapes_through_the_real_proxy_process", 1)
	res.AddSet("slow_scrape_durations", slow.String())
	switch {
	case out.Status != 200 || out.Aborted:
		res.Violate("C12/real-proxy/slow-scrape-not-delivered/"+kind, "%s (the target needs %v to finish a %d-byte body, scrape_timeout is 120 s, took %v): Prometheus side status %d, error %q, %d body bytes received", kind, slow, len(body), took.Round(time.Millisecond), out.Status, out.ReadErr, len(out.Body))
	case !bytes.Equal(out.Body, body):
		res.Violate("C12/real-proxy/slow-scrape-not-identical/"+kind, "%s (the target needs %v): %d of %d body bytes received with status 200", kind, slow, len(out.Body), len(body))
	case out.Header.Get("Content-Type") != rg.ctype:
		res.Violate("C12/real-proxy/content-type", "content type %q, the target sent %q", out.Header.Get("Content-Type"), rg.ctype)
	}
	if len(res.Viol) > 0 {
		res.Witness = map[string]interface{}{"kind": kind, "slow": slow.String(), "assigned": assigned, "sidecar_log": clipS(rg.rs.Stderr(), 2000)}
	}
	return res
}

// ---------------------------------------------------------------------------
// C14: the head count the shard reports, next to Prometheus' own head count, poll after poll

func c14RealCases(tier string) int {
	if tier == "thorough" {
		return 24
	}
	return 3
}

func runC14Real(w *core.WorkerCtx, k int) *core.CaseResult {
	res := &core.CaseResult{Sig: fmt.Sprintf("real-head/%d", k), Nontrivial: true}
	rg, msg := newRealRig(w, fmt.Sprintf("c14real-%d", k))
	if msg != "" {
		res.Inconcl = msg
		return res
	}
	defer rg.close()
	r := core.NewRng(w.Seed, 0xC14E, uint64(k))
	const h = uint64(5)
	if err := rg.assign(h); err != nil {
		res.Inconcl = "assign: " + err.Error()
		return res
	}
	n := 20 + r.Intn(60)
	body := Render(GenSamples(r, n), false)
	rg.mu.Lock()
	rg.parts = [][]byte{body}
	rg.mu.Unlock()
	var trace []string
	poll := func(what string, head int64) bool {
		atomic.StoreInt64(&rg.head, head)
		rt, err := rg.runtime()
		if err != nil {
			res.Inconcl = "runtimeinfo: " + err.Error()
			return false
		}
		st, err := rg.status()
		if err != nil {
			res.Inconcl = "status: " + err.Error()
			return false
		}
		var sum int64
		for _, s := range st {
			sum += s.Series
		}
		res.Execs++
		res.AddStat("real_process_head_polls", 1)
		trace = append(trace, fmt.Sprintf("%s: Prometheus head %d, sum of target series %d -> reported %d", what, head, sum, rt.HeadSeries))
		if rt.HeadSeries < head {
			res.Violate("C14/real-process/head-below-prometheus", "%s: the shard reports head series %d, Prometheus' own head count is %d (it has answered %d since before this request)", what, rt.HeadSeries, head, head)
		}
		if rt.HeadSeries < sum {
			res.Violate("C14/real-process/head-below-sum", "%s: the shard reports head series %d, its targets' series add up to %d", what, rt.HeadSeries, sum)
		}
		return len(res.Viol) == 0
	}
	ok := poll("first poll", int64(r.Intn(200)))
	if ok {
		if out := rg.scrape(h); out.Status != 200 {
			res.Inconcl = fmt.Sprintf("scrape: status %d %s", out.Status, out.ReadErr)
			return res
		}
	}
	head := int64(0)
	for i := 0; ok && i < 6+r.Intn(6); i++ {
		switch r.Intn(3) {
		case 0, 1: // the head grows (new targets' series were ingested)
			head += int64(1 + r.Intn(5000))
		default: // Prometheus restarted or truncated its head
			head = int64(r.Intn(int(head/2 + 1)))
		}
		if r.Intn(3) == 0 {
			time.Sleep(time.Duration(r.Intn(40)) * time.Millisecond)
		}
		ok = poll(fmt.Sprintf("poll %d", i+2), head)
	}
	// second part: a configuration that changes the job's metric relabel rules is pushed while Prometheus refuses
	// POST /-/reload; later Prometheus is fine again. The counts recorded for the following scrapes must be those
	// under the rules of the configuration the sidecar REPORTS (its hash), whichever that is.
	if ok && len(res.Viol) == 0 {
		var pb strings.Builder
		nKeep, nDrop := 20+r.Intn(20), 5+r.Intn(20)
		for i := 0; i < nKeep; i++ {
			fmt.Fprintf(&pb, "kept_metric{i=\"%d\"} 1\n", i)
		}
		for i := 0; i < nDrop; i++ {
			fmt.Fprintf(&pb, "dropme_metric{i=\"%d\"} 1\n", i)
		}
		rg.mu.Lock()
		rg.parts = [][]byte{[]byte(pb.String())}
		rg.mu.Unlock()
		cfgY := realRigConfig + "  metric_relabel_configs:\n  - source_labels: [__name__]\n    regex: dropme.*\n    action: drop\n"
		hashOf := func(text string) string {
			cm := prom.NewConfigManager()
			if err := cm.ReloadFromRaw([]byte(text)); err != nil {
				return ""
			}
			return cm.ConfigInfo().ConfigHash
		}
		hX, hY := hashOf(realRigConfig), hashOf(cfgY)
		atomic.StoreInt32(&rg.reloadFail, 1)
		perr := rg.post("/api/v1/status/config/", &shard.UpdateConfigRequest{RawContent: cfgY})
		atomic.StoreInt32(&rg.reloadFail, 0)
		trace = append(trace, fmt.Sprintf("configuration with a drop rule pushed while Prometheus refuses the reload: %v", perr))
		if perr == nil {
			res.Inconcl = "the injected reload failure did not surface"
			return res
		}
		// what the coordinator does every cycle: push again if the shard does not report the hash, post the targets
		rt, err := rg.runtime()
		if err != nil {
			res.Inconcl = "runtimeinfo: " + err.Error()
			return res
		}
		if rt.ConfigHash != hY && r.Intn(2) == 0 {
			if err := rg.post("/api/v1/status/config/", &shard.UpdateConfigRequest{RawContent: cfgY}); err != nil {
				res.Inconcl = "second push: " + err.Error()
				return res
			}
			rt, _ = rg.runtime()
		}
		if err := rg.assign(h); err != nil {
			res.Inconcl = "assign after the failed reload: " + err.Error()
			return res
		}
		for i := 0; i < 3; i++ {
			if out := rg.scrape(h); out.Status != 200 {
				res.Inconcl = fmt.Sprintf("scrape after the failed reload: status %d %s", out.Status, out.ReadErr)
				return res
			}
		}
		rt, err = rg.runtime()
		st, err2 := rg.status()
		if err != nil || err2 != nil || st[h] == nil {
			res.Inconcl = fmt.Sprintf("status after the failed reload: %v %v", err, err2)
			return res
		}
		want := int64(-1)
		switch rt.ConfigHash {
		case hY:
			want = int64(nKeep)
		case hX:
			want = int64(nKeep + nDrop)
		}
		res.Execs++
		res.AddStat("real_process_rule_changes_with_a_failing_prometheus_reload", 1)
		trace = append(trace, fmt.Sprintf("three scrapes of %d+%d samples later: reported hash %s (without rule %s, with rule %s), series %d, total %d", nKeep, nDrop, rt.ConfigHash, hX, hY, st[h].Series, st[h].TotalSeries))
		if want < 0 {
			res.Violate("C14/real-process/unknown-configuration-reported", "after a push that failed in Prometheus' reload the sidecar reports hash %q, neither the previous (%s) nor the pushed (%s) configuration", rt.ConfigHash, hX, hY)
		} else if st[h].Series != want || st[h].TotalSeries != int64(nKeep+nDrop) {
			res.Violate("C14/real-process/counts-follow-other-rules", "the sidecar reports the configuration %s (the one %s the drop rule) after a push during which Prometheus refused the reload; three scrapes of a payload with %d samples, %d of which that configuration's rules keep, are recorded as series %d / total %d", rt.ConfigHash, map[bool]string{true: "with", false: "without"}[rt.ConfigHash == hY], nKeep+nDrop, want, st[h].Series, st[h].TotalSeries)
		}
	}
	if len(res.Viol) > 0 {
		res.Witness = map[string]interface{}{"trace": trace}
	}
	if k == 0 {
		res.Sample = map[string]interface{}{"trace": trace}
	}
	return res
}

// ---------------------------------------------------------------------------
// C12: a scrape_timeout that is not a whole number of seconds, and a target that answers within it

const c12FracCases = 6

// runC12Frac: the job's scrape_timeout is 1.9 s (or 2.5 s) and the target answers completely after 1.3 s (2.2 s).
// A delivery that breaks off BEFORE the configured timeout has passed is a violation (the proxy gave up early);
// one that breaks off later is the timeout doing its work on a loaded machine and decides nothing (three tries).
func runC12Frac(w *core.WorkerCtx, k int) *core.CaseResult {
	if k >= 4 {
		return runC12Raised(w, k-4)
	}
	timeout, delay, floor := "1s900ms", 1300, 1700*time.Millisecond
	if k%2 == 1 {
		timeout, delay, floor = "2s500ms", 2200, 2400*time.Millisecond
	}
	gz := k/2%2 == 1
	res := &core.CaseResult{Sig: fmt.Sprintf("fractional-timeout/%s/gzip%v", timeout, gz), Execs: 1}
	r := core.NewRng(w.Seed, 0xC12F, uint64(k))
	body := Render(GenSamples(r, 1500+r.Intn(1500)), false)
	for try := 0; try < 3; try++ {
		dir := filepath.Join(w.Scratch, fmt.Sprintf("c12frac-%d-%d", k, try))
		rg, err := newRig(dir, timeout, "")
		if err != nil {
			res.Inconcl = "rig: " + err.Error()
			return res
		}
		const h = uint64(9)
		if err := rg.assign("j1", h); err != nil {
			rg.close()
			res.Inconcl = "assign: " + err.Error()
			return res
		}
		rg.mt.set(fmt.Sprintf("t%d.example:9100", h), &bodyScript{Body: body, Gzip: gz, DelayMs: delay})
		t0 := time.Now()
		o := rg.scrapeDirect("j1", h, 0)
		elapsed := time.Since(t0)
		rg.close()
		os.RemoveAll(dir)
		if o.Status == 200 && !o.Aborted && bytes.Equal(o.Body, body) {
			res.Nontrivial = true
			res.AddStat("scrapes_under_a_fractional_timeout_delivered", 1)
			return res
		}
		if elapsed < floor {
			res.Nontrivial = true
			res.Violate("C12/fractional-timeout/gave-up-early", "scrape_timeout %s, the target answers completely after %d ms: the proxy ended the scrape after %v (status %d, aborted %v, %d of %d bytes) - before the configured timeout had passed", timeout, delay, elapsed.Round(time.Millisecond), o.Status, o.Aborted, len(o.Body), len(body))
			return res
		}
		res.AddStat("scrapes_under_a_fractional_timeout_that_really_timed_out_on_a_loaded_machine", 1)
	}
	return res // three real timeouts: the machine is too loaded for this case to say anything
}

// runC12Raised: the job starts with scrape_timeout 1 s; a reload raises it to 120 s (nothing else changes); a target
// that then answers completely after 1.6 s is within the timeout now in force, whatever the machine's load.
func runC12Raised(w *core.WorkerCtx, k int) *core.CaseResult {
	gz := k%2 == 1
	res := &core.CaseResult{Sig: fmt.Sprintf("timeout-raised-by-reload/gzip%v", gz), Execs: 1, Nontrivial: true}
	r := core.NewRng(w.Seed, 0xC12A, uint64(k))
	body := Render(GenSamples(r, 1000+r.Intn(1000)), false)
	dir := filepath.Join(w.Scratch, fmt.Sprintf("c12raised-%d", k))
	defer os.RemoveAll(dir)
	rg, err := newRig(dir, "1s", "")
	if err != nil {
		res.Inconcl = "rig: " + err.Error()
		return res
	}
	defer rg.close()
	const h = uint64(11)
	if err := rg.assign("j1", h); err != nil {
		res.Inconcl = "assign: " + err.Error()
		return res
	}
	host := fmt.Sprintf("t%d.example:9100", h)
	rg.mt.set(host, &bodyScript{Body: body, Gzip: gz})
	_ = rg.scrapeDirect("j1", h, 0) // the job has been used under the old timeout
	if err := rg.in.PushConfig(fmt.Sprintf(rigConfigTmpl, rigLongTimeout, "")); err != nil {
		res.Inconcl = "reload with a higher scrape_timeout: " + err.Error()
		return res
	}
	rg.hookClients()
	rg.mt.set(host, &bodyScript{Body: body, Gzip: gz, DelayMs: 1600})
	t0 := time.Now()
	o := rg.scrapeDirect("j1", h, 0)
	res.AddStat("scrapes_after_a_reload_that_raised_the_timeout", 1)
	if o.Status != 200 || o.Aborted || !bytes.Equal(o.Body, body) {
		res.Violate("C12/timeout-raised-by-reload/not-delivered", "scrape_timeout raised from 1 s to %s by a reload, the target answers completely after 1.6 s: the proxy ended the scrape after %v (status %d, aborted %v, %d of %d bytes)", rigLongTimeout, time.Since(t0).Round(time.Millisecond), o.Status, o.Aborted, len(o.Body), len(body))
	}
	return res
}
