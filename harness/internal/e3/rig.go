package e3

import (
	"bytes"
	"compress/gzip"
	"compress/zlib"
	"context"
	"errors"
	"fmt"
	"io"
	"log"
	"net/http"
	"net/http/httptest"
	"net/url"
	"os"
	"strings"
	"sync"
	"time"

	"kvassverif/internal/sc"
	"tkestack.io/kvass/pkg/target"
)

// bodyScript scripts what one in-memory target answers.
type bodyScript struct {
	DialErr     string // non-empty: the round trip fails with this error
	Status      int    // default 200
	ContentType string // default text/plain; version=0.0.4
	Gzip        bool   // wire body is gzip(Body)
	Negotiate   bool   // the target picks the coding from the request's Accept-Encoding: deflate if offered, else gzip if offered, else identity
	deflate     bool   // (set by the transport) wire body is zlib(Body), Content-Encoding: deflate
	Members     int    // > 1 with Gzip: the body is sent as that many concatenated gzip members (RFC 1952 2.2)
	Body        []byte // exposition payload (before compression)
	Chunks      []int  // sizes of successive Read results over the wire bytes (nil: one Read per 32 KiB)
	ErrAt       int    // >=0: after this many WIRE bytes the body returns Err (repeatedly)
	Err         string // error text; "unexpected EOF" maps to io.ErrUnexpectedEOF
	Stall       bool   // the body blocks after StallAt wire bytes until the request context ends
	StallAt     int
	DelayMs     int           // wait this long before answering (the request context can end the wait)
	StallBefore bool          // block before the response headers until the request context ends
	Gate        chan struct{} // non-nil: the round trip waits (after signalling Entered) until the harness closes it
	Entered     chan struct{} // closed by the transport when the gated round trip has started
}

func (b *bodyScript) wire() []byte {
	if b.deflate {
		var buf bytes.Buffer
		zw := zlib.NewWriter(&buf)
		_, _ = zw.Write(b.Body)
		_ = zw.Close()
		return buf.Bytes()
	}
	if !b.Gzip {
		return b.Body
	}
	var buf bytes.Buffer
	parts := [][]byte{b.Body}
	if b.Members > 1 {
		parts = nil
		step := len(b.Body)/b.Members + 1
		for i := 0; i < len(b.Body); i += step {
			end := i + step
			if end > len(b.Body) {
				end = len(b.Body)
			}
			parts = append(parts, b.Body[i:end])
		}
		if len(parts) == 0 {
			parts = [][]byte{nil, nil}
		}
	}
	for _, p := range parts {
		zw := gzip.NewWriter(&buf)
		zw.Write(p)
		zw.Close()
	}
	return buf.Bytes()
}

type scriptedBody struct {
	ctx    context.Context
	data   []byte
	pos    int
	chunks []int
	ci     int
	errAt  int
	err    error
	stall  int
	closed bool
}

func (s *scriptedBody) Read(p []byte) (int, error) {
	if s.closed {
		return 0, errors.New("read on closed body")
	}
	if err := s.ctx.Err(); err != nil {
		return 0, err
	}
	limit := len(s.data)
	if s.errAt >= 0 && s.errAt < limit {
		limit = s.errAt
	}
	if s.stall >= 0 && s.stall < limit {
		limit = s.stall
	}
	if s.pos >= limit {
		switch {
		case s.stall >= 0 && s.pos >= s.stall && (s.errAt < 0 || s.stall <= s.errAt):
			<-s.ctx.Done()
			return 0, s.ctx.Err()
		case s.errAt >= 0 && s.pos >= s.errAt:
			return 0, s.err
		}
		return 0, io.EOF
	}
	n := 32 << 10
	if s.ci < len(s.chunks) {
		n = s.chunks[s.ci]
		s.ci++
	}
	if n < 1 {
		n = 1
	}
	if n > len(p) {
		n = len(p)
	}
	if s.pos+n > limit {
		n = limit - s.pos
	}
	copy(p, s.data[s.pos:s.pos+n])
	s.pos += n
	return n, nil
}

func (s *scriptedBody) Close() error { s.closed = true; return nil }

// memTransport answers requests by host from scripts and records what it was asked.
type memTransport struct {
	mu      sync.Mutex
	scripts map[string]*bodyScript // by URL host
	seen    []*http.Request
}

func (m *memTransport) set(host string, bs *bodyScript) {
	m.mu.Lock()
	m.scripts[host] = bs
	m.mu.Unlock()
}

func (m *memTransport) RoundTrip(r *http.Request) (*http.Response, error) {
	m.mu.Lock()
	m.seen = append(m.seen, r)
	bs := m.scripts[r.URL.Host]
	m.mu.Unlock()
	if bs == nil {
		return nil, fmt.Errorf("dial tcp %s: connect: connection refused", r.URL.Host)
	}
	if bs.DialErr != "" {
		return nil, errors.New(bs.DialErr)
	}
	if bs.StallBefore {
		<-r.Context().Done()
		return nil, r.Context().Err()
	}
	if bs.DelayMs > 0 {
		select {
		case <-time.After(time.Duration(bs.DelayMs) * time.Millisecond):
		case <-r.Context().Done():
			return nil, r.Context().Err()
		}
	}
	if bs.Gate != nil {
		if bs.Entered != nil {
			close(bs.Entered)
		}
		<-bs.Gate
	}
	if bs.Negotiate {
		c := *bs
		ae := strings.ToLower(strings.Join(r.Header.Values("Accept-Encoding"), ","))
		c.Gzip, c.deflate = false, false
		switch {
		case strings.Contains(ae, "deflate"):
			c.deflate = true
		case strings.Contains(ae, "gzip"):
			c.Gzip = true
		}
		bs = &c
	}
	st := bs.Status
	if st == 0 {
		st = 200
	}
	ct := bs.ContentType
	if ct == "" {
		ct = "text/plain; version=0.0.4"
	}
	h := http.Header{"Content-Type": []string{ct}}
	if bs.Gzip {
		h.Set("Content-Encoding", "gzip")
	}
	if bs.deflate {
		h.Set("Content-Encoding", "deflate")
	}
	var e error
	switch bs.Err {
	case "":
		e = nil
	case "unexpected EOF":
		e = io.ErrUnexpectedEOF
	default:
		e = errors.New(bs.Err)
	}
	errAt, stall := -1, -1
	if bs.Err != "" {
		errAt = bs.ErrAt
	}
	if bs.Stall {
		stall = bs.StallAt
	}
	body := &scriptedBody{ctx: r.Context(), data: bs.wire(), chunks: bs.Chunks, errAt: errAt, err: e, stall: stall}
	return &http.Response{Status: fmt.Sprintf("%d %s", st, http.StatusText(st)), StatusCode: st, Proto: "HTTP/1.1", ProtoMajor: 1, ProtoMinor: 1,
		Header: h, Body: body, ContentLength: -1, Request: r}, nil
}

// recWriter is the Prometheus side of a direct ServeHTTP call.
type recWriter struct {
	hdr        http.Header
	status     int         // first WriteHeader argument, 0 = none
	hdrAtFirst http.Header // snapshot when the response was committed
	writes     [][]byte
	short      int // >0: Write accepts at most this many bytes per call
	lateHeader []int
	onHeader   func() // harness hook: called on every Header() call
}

func newRec(short int) *recWriter { return &recWriter{hdr: http.Header{}, short: short} }

func (r *recWriter) Header() http.Header {
	if r.onHeader != nil {
		r.onHeader()
	}
	return r.hdr
}
func (r *recWriter) commit(code int) {
	if r.status == 0 {
		r.status = code
		r.hdrAtFirst = r.hdr.Clone()
	}
}
func (r *recWriter) WriteHeader(code int) {
	if r.status != 0 {
		r.lateHeader = append(r.lateHeader, code)
		return
	}
	r.commit(code)
}
func (r *recWriter) Write(p []byte) (int, error) {
	r.commit(200)
	n := len(p)
	if r.short > 0 && n > r.short {
		n = r.short
	}
	r.writes = append(r.writes, append([]byte{}, p[:n]...))
	return n, nil
}
func (r *recWriter) body() []byte {
	var b bytes.Buffer
	for _, w := range r.writes {
		b.Write(w)
	}
	return b.Bytes()
}

// rig is one sidecar plus the in-memory target farm.
type rig struct {
	failReload bool // the next "Prometheus reload" callbacks fail while set
	in         *sc.Instance
	mt         *memTransport
	dir        string
	srv        *httptest.Server // real HTTP server in front of the proxy (lazy)
	cli        *http.Client
}

// The scrape timeout is a wall-clock deadline inside kvass; only the C13 stall faults want it to
// fire. Everything else uses a timeout that a heavily loaded machine does not reach either.
const rigLongTimeout = "120s"

const rigConfigTmpl = `global:
  scrape_interval: 300s
  scrape_timeout: 120s
scrape_configs:
- job_name: j1
  scrape_interval: 300s
  scrape_timeout: %s
  static_configs:
  - targets: ['unused.example:1']
%s
- job_name: j2
  static_configs:
  - targets: ['unused.example:2']
`

func newRig(dir, timeout, metricRelabel string) (*rig, error) {
	return newRigHead(dir, timeout, metricRelabel, nil)
}

// build (re)creates the sidecar objects on the rig's store directory: the state a restarted pod has.
func (r *rig) build(head func() (int64, error)) error {
	in, err := sc.New(sc.Options{StoreDir: r.dir, HeadSeries: head, OnPromReload: func() error {
		if r.failReload {
			return errors.New("injected: prometheus reload failed")
		}
		return nil
	}})
	r.in = in
	return err
}

func newRigHead(dir, timeout, metricRelabel string, head func() (int64, error)) (*rig, error) {
	_ = os.MkdirAll(dir, 0755)
	r := &rig{dir: dir, mt: &memTransport{scripts: map[string]*bodyScript{}}}
	if err := r.build(head); err != nil {
		return nil, err
	}
	in := r.in
	if err := in.PushConfig(fmt.Sprintf(rigConfigTmpl, timeout, metricRelabel)); err != nil {
		return nil, err
	}
	r.hookClients()
	return r, nil
}

// hookClients points every job's HTTP client at the in-memory farm (JobInfo.Cli is an exported field).
func (r *rig) hookClients() {
	for _, j := range []string{"j1", "j2"} {
		if ji := r.in.SM.GetJob(j); ji != nil {
			ji.Cli = &http.Client{Transport: r.mt}
		}
	}
}

func rigTarget(h uint64, state string) *target.Target {
	t := mkTarget(h, state)
	t.Labels[0].Value = fmt.Sprintf("t%d.example:9100", h)
	return t
}

func (r *rig) assign(job string, hs ...uint64) error {
	m := map[string][]*target.Target{}
	for _, h := range hs {
		m[job] = append(m[job], rigTarget(h, ""))
	}
	return r.in.UpdateTargets(m)
}

func proxyURLFor(job string, h uint64) string {
	q := url.Values{}
	q.Set("_jobName", job)
	q.Set("_hash", fmt.Sprint(h))
	q.Set("_scheme", "http")
	return fmt.Sprintf("http://t%d.example:9100/metrics?%s", h, q.Encode())
}

type scrapeOutcome struct {
	Status  int
	Header  http.Header
	Body    []byte
	Aborted bool   // handler aborted the response (direct) / client saw a transport error (tcp)
	ReadErr string // client-side error text
	Panic   string // any other panic of the handler
	LateHdr []int
	NWrites int
}

// scrapeDirect calls Proxy.ServeHTTP with an instrumented writer.
func (r *rig) scrapeDirect(job string, h uint64, short int) (out scrapeOutcome) {
	req := httptest.NewRequest("GET", proxyURLFor(job, h), nil)
	req.Header.Set("Accept-Encoding", "gzip")
	rw := newRec(short)
	func() {
		defer func() {
			if p := recover(); p != nil {
				if p == http.ErrAbortHandler {
					out.Aborted = true
				} else {
					out.Panic = fmt.Sprint(p)
				}
			}
		}()
		r.in.Proxy.ServeHTTP(rw, req)
	}()
	out.Status = rw.status
	if out.Status == 0 {
		out.Status = 200 // net/http sends 200 when the handler returns without writing
		rw.hdrAtFirst = rw.hdr.Clone()
	}
	out.Header = rw.hdrAtFirst
	out.Body = rw.body()
	out.LateHdr = rw.lateHeader
	out.NWrites = len(rw.writes)
	return
}

// scrapeTCP goes through a real net/http server and client, the way Prometheus talks to the proxy.
func (r *rig) scrapeTCP(job string, h uint64) (out scrapeOutcome) {
	r.ensureSrv()
	req, _ := http.NewRequest("GET", proxyURLFor(job, h), nil)
	req.Header.Set("Accept-Encoding", "gzip")
	resp, err := r.cli.Do(req)
	if err != nil {
		out.Aborted = true
		out.ReadErr = err.Error()
		return
	}
	defer resp.Body.Close()
	out.Status = resp.StatusCode
	out.Header = resp.Header
	b, err := io.ReadAll(resp.Body)
	out.Body = b
	if err != nil {
		out.Aborted = true
		out.ReadErr = err.Error()
	}
	return
}

func (r *rig) ensureSrv() {
	if r.srv == nil {
		r.srv = httptest.NewUnstartedServer(r.in.Proxy)
		r.srv.Config.ErrorLog = log.New(io.Discard, "", 0)
		r.srv.Start()
		pu, _ := url.Parse(r.srv.URL)
		r.cli = &http.Client{Transport: &http.Transport{Proxy: http.ProxyURL(pu), DisableCompression: true, DisableKeepAlives: true}, Timeout: 150 * time.Second}
	}
}

func (r *rig) close() {
	if r.srv != nil {
		r.srv.Close()
	}
}

func isTimeoutish(s string) bool {
	return strings.Contains(s, "deadline") || strings.Contains(s, "timeout") || strings.Contains(s, "canceled")
}
