package e4

import (
	"context"
	"fmt"
	"io"
	"net/http"
	"net/http/httptest"
	"net/url"
	"os"
	"path/filepath"
	"sort"
	"strings"
	"sync"
	"sync/atomic"
	"time"

	"github.com/go-kit/log"
	"github.com/prometheus/prometheus/config"
	"github.com/prometheus/prometheus/discovery"
	"github.com/prometheus/prometheus/discovery/targetgroup"
	"github.com/prometheus/prometheus/scrape"

	"github.com/prometheus/client_golang/prometheus"
	"kvassverif/internal/cfggen"
	"kvassverif/internal/core"
	"kvassverif/internal/e7"
	"kvassverif/internal/sc"

	kdisc "tkestack.io/kvass/pkg/discovery"
	"tkestack.io/kvass/pkg/explore"
	"tkestack.io/kvass/pkg/prom"
	kscrape "tkestack.io/kvass/pkg/scrape"
	"tkestack.io/kvass/pkg/target"
)

// recTransport records the request that really leaves the proxy.
type recTransport struct {
	mu   sync.Mutex
	last *http.Request
}

func (t *recTransport) RoundTrip(r *http.Request) (*http.Response, error) {
	t.mu.Lock()
	t.last = r
	t.mu.Unlock()
	return &http.Response{StatusCode: 200, Status: "200 OK", Proto: "HTTP/1.1", ProtoMajor: 1, ProtoMinor: 1,
		Header: http.Header{"Content-Type": []string{"text/plain"}}, Body: io.NopCloser(strings.NewReader("up 1\n")), Request: r}, nil
}

func normURL(u *url.URL) string {
	q := u.Query()
	var ks []string
	for k := range q {
		ks = append(ks, k)
	}
	sort.Strings(ks)
	var sb strings.Builder
	for _, k := range ks {
		fmt.Fprintf(&sb, "%s=%q;", k, q[k])
	}
	p := u.Path
	return fmt.Sprintf("%s://%s%s ? %s", u.Scheme, u.Host, p, sb.String())
}

func staticGroups(c *config.ScrapeConfig) []*targetgroup.Group {
	var out []*targetgroup.Group
	for _, sd := range c.ServiceDiscoveryConfigs {
		if st, ok := sd.(discovery.StaticConfig); ok {
			out = append(out, st...)
		}
	}
	return out
}

// refTargets: what one plain Prometheus obtains for a job from the original configuration.
func refTargets(cfg *config.ScrapeConfig, groups []TG) (set map[string]bool, dropped int, failures int) {
	set = map[string]bool{}
	for _, g := range groups {
		ts, errs := scrape.TargetsFromGroup(g.toProm(), cfg)
		failures += len(errs)
		for _, t := range ts {
			if t.Labels().Len() == 0 {
				dropped++
				continue
			}
			set[t.Labels().String()+" @ "+normURL(t.URL())] = true
		}
	}
	return
}

type c02Features struct {
	ParamRelabelInParams bool // a relabel rule writes __param_<k> with k also in the job's params
	ParamRelabel         bool
	SDParamLabel         bool // discovery data carries __param_* itself
	InvalidName          bool
	GroupFailure         bool // the reference reported a per-target failure in some group
}

// persistent discovery: one TargetsDiscovery that lives across configuration reloads
// together with the coordinator's scrape manager and explorer, wired as cmd/kvass/coordinator.go does
// (all three get the same *ConfigInfo from the reload callbacks)
type persistentDisc struct {
	cm   *prom.ConfigManager
	sm   *kscrape.Manager
	exp  *explore.Explore
	d    *kdisc.TargetsDiscovery
	ch   chan map[string][]*targetgroup.Group
	memo map[*TG][]*targetgroup.Group
	// the coordinator's view of the shards: where each target (hash) lives, and what each shard was last sent
	shardOf  map[uint64]int
	lastSent map[int]string
	curSpec  *cfggen.Spec // the configuration loaded last (set by the reload phase)
	sticky   bool         // keep targets on their shards and post a shard's list only when it changed (as shard.needUpdate does)
	ctx      context.Context
	cancel   context.CancelFunc
}

func newPersistentDisc() *persistentDisc {
	p := &persistentDisc{cm: prom.NewConfigManager(), d: kdisc.New(sc.Quiet), ch: make(chan map[string][]*targetgroup.Group)}
	p.sm = kscrape.New(false, sc.Quiet)
	p.exp = explore.New(p.sm, prometheus.NewRegistry(), sc.Quiet)
	p.cm.AddReloadCallbacks(p.sm.ApplyConfig, p.exp.ApplyConfig, p.d.ApplyConfig)
	p.ctx, p.cancel = context.WithCancel(context.Background())
	go func() { _ = p.d.Run(p.ctx, p.ch) }()
	go func() { _ = p.exp.Run(p.ctx, 2) }()
	return p
}

// exploreAll lets the coordinator's explorer scrape every active target once (against a stub
// exporter), as the first coordination cycle after a discovery result does. Returns the number of
// requests the explorer made, or -1 when it did not finish.
func (p *persistentDisc) exploreAll(jobs []string) int {
	rt := &countTransport{}
	for _, j := range jobs {
		if ji := p.sm.GetJob(j); ji != nil {
			ji.Cli = &http.Client{Transport: rt}
		}
	}
	p.exp.UpdateTargets(p.d.ActiveTargets())
	active := p.d.ActiveTargetsByHash()
	for h := range active {
		p.exp.Get(h)
	}
	deadline := time.Now().Add(30 * time.Second)
	for {
		done := true
		for h := range active {
			if st := p.exp.Get(h); st == nil || st.Health == "unknown" {
				done = false
				break
			}
		}
		if done {
			return int(rt.n.Load())
		}
		if time.Now().After(deadline) {
			return -1
		}
		time.Sleep(200 * time.Microsecond)
	}
}

type countTransport struct{ n atomic.Int64 }

func (t *countTransport) RoundTrip(r *http.Request) (*http.Response, error) {
	t.n.Add(1)
	return &http.Response{StatusCode: 200, Status: "200 OK", Proto: "HTTP/1.1", ProtoMajor: 1, ProtoMinor: 1,
		Header: http.Header{"Content-Type": []string{"text/plain"}}, Body: io.NopCloser(strings.NewReader("up 1\n")), Request: r}, nil
}

func (p *persistentDisc) round(groups map[string][]TG) error {
	// like the Prometheus discovery manager, hand over the SAME *Group objects as long as a source has not
	// changed - and the same objects to every job that shares a provider (jobs with equal SD configs)
	if p.memo == nil {
		p.memo = map[*TG][]*targetgroup.Group{}
	}
	in := map[string][]*targetgroup.Group{}
	for j, gs := range groups {
		if len(gs) == 0 {
			continue
		}
		key := &gs[0]
		if p.memo[key] == nil {
			p.memo[key] = toPromGroups(gs)
		}
		in[j] = p.memo[key]
	}
	select {
	case p.ch <- in:
	case <-time.After(30 * time.Second):
		return fmt.Errorf("discovery did not accept the update")
	}
	select {
	case <-p.d.ActiveTargetsChan():
	case <-time.After(30 * time.Second):
		return fmt.Errorf("discovery did not publish the update")
	}
	return nil
}

func c02Base(tier string) int {
	if tier == "thorough" {
		return 40000
	}
	return 3000
}

func c02RealCases(tier string) int {
	if tier == "thorough" {
		return 8
	}
	return 2
}

func runC02(w *core.WorkerCtx, idx int) *core.CaseResult {
	r := core.NewRng(w.Seed, 0xC02, uint64(idx))
	res := &core.CaseResult{}
	spec := cfggen.Gen(r, true)
	for i := range spec.Jobs {
		spec.Jobs[i].ProxyURL = "" // the generated file sets its own proxy; the original must not need one to compare URLs
	}
	groups := map[string][]TG{}
	for _, j := range spec.Jobs {
		groups[j.Name] = GenGroups(r, j.Name)
	}
	if len(spec.Jobs) > 1 && r.Intn(3) == 0 {
		// two jobs with the same service discovery section (blackbox with two modules over one static list,
		// several role: pod jobs): the discovery manager gives them one provider and the same group objects
		groups[spec.Jobs[1].Name] = groups[spec.Jobs[0].Name]
		res.AddStat("cases_with_two_jobs_sharing_discovery_groups", 1)
	}
	text := cfggen.Render(spec, cfggen.Style{Indent: 2})
	res.Sig = fmt.Sprintf("%x", core.HashString(text+fmt.Sprint(groups)))
	pd := newPersistentDisc()
	defer pd.cancel()
	nShards := 1 + r.Intn(3)
	var sidecars []*sc.Instance
	for s := 0; s < nShards; s++ {
		dir := filepath.Join(w.Scratch, fmt.Sprintf("c02-%d-%d", idx, s))
		in, err := sc.New(sc.Options{StoreDir: dir})
		if err != nil {
			res.Inconcl = "sidecar: " + err.Error()
			return res
		}
		defer os.RemoveAll(dir)
		sidecars = append(sidecars, in)
	}
	if !c02Phase(res, r, "first configuration", text, true, groups, pd, sidecars) {
		return res
	}
	// phase 1b: the coordinator's explorer looks at every target (first coordination cycle), then the
	// discovery manager re-sends the same groups (it always re-sends everything); no reload in between
	if len(res.Viol) == 0 {
		if !c02Explore(res, pd, spec) {
			return res
		}
		c02Phase(res, r, "after exploration, same groups re-sent", text, false, groups, pd, sidecars)
	}
	// phase 2: the configuration is reloaded with edited relabel programs / path / scheme, the discovery
	// manager re-sends the same groups; discovery and sidecars are the same objects as before
	if len(res.Viol) == 0 {
		spec2 := clone(spec)
		for i := range spec2.Jobs {
			spec2.Jobs[i].Relabel = append(spec2.Jobs[i].Relabel, cfggen.Relabel{Target: "phase", Replacement: "two"})
		}
		spec2.Jobs[0].MetricsPath = "/reloaded/path"
		for i := range spec2.Jobs {
			// a changed value of a configured param: it reaches the URL only through the job section of the generated file
			var ks []string
			for k := range spec2.Jobs[i].Params {
				ks = append(ks, k)
			}
			sort.Strings(ks)
			if len(ks) > 0 && len(spec2.Jobs[i].Params[ks[0]]) > 0 {
				p2 := map[string][]string{}
				for k, v := range spec2.Jobs[i].Params {
					p2[k] = append([]string{}, v...)
				}
				p2[ks[0]][0] = "reloaded_value"
				spec2.Jobs[i].Params = p2
			}
		}
		last := &spec2.Jobs[len(spec2.Jobs)-1]
		if last.Scheme == "https" {
			last.Scheme = "http"
		} else {
			last.Scheme = "https"
		}
		if len(spec2.Jobs) > 1 && r.Intn(2) == 0 {
			spec2.Jobs = spec2.Jobs[:len(spec2.Jobs)-1]
		}
		text2 := cfggen.Render(spec2, cfggen.Style{Indent: 2})
		pd.curSpec = spec2
		c02Phase(res, r, "after a reload", text2, true, groups, pd, sidecars)
		if len(res.Viol) == 0 && c02Explore(res, pd, spec2) {
			c02Phase(res, r, "after a reload and exploration, same groups re-sent", text2, false, groups, pd, sidecars)
		}
	}
	// phases 3a/3b: reloads that change ONLY a job's metrics path - first to the path some of its targets pin
	// themselves through __metrics_path__ (/from/sd), then away from it. Targets with a pinned path keep their
	// hash; the coordinator does not re-post lists that did not change.
	if len(res.Viol) == 0 && res.Inconcl == "" {
		cur := spec
		if pd.curSpec != nil {
			cur = pd.curSpec
		}
		s3 := clone(cur)
		s3.Jobs[0].MetricsPath = "/from/sd"
		if c02Phase(res, r, "after a reload to the path some targets pin", cfggen.Render(s3, cfggen.Style{Indent: 2}), true, groups, pd, sidecars) && len(res.Viol) == 0 {
			pd.sticky = true
			s4 := clone(s3)
			s4.Jobs[0].MetricsPath = "/path/three"
			c02Phase(res, r, "after a path-only reload, unchanged lists not re-posted", cfggen.Render(s4, cfggen.Style{Indent: 2}), true, groups, pd, sidecars)
			pd.sticky = false
		}
	}
	res.Viol = dedupeV(res.Viol)
	if idx < 2 {
		res.Sample = map[string]interface{}{"config": text, "groups": groups}
	}
	return res
}

// c02Phase loads the configuration everywhere, runs one discovery round and compares the sharded
// pipeline with the reference. Returns false when the phase could not be set up.
func c02Explore(res *core.CaseResult, pd *persistentDisc, spec *cfggen.Spec) bool {
	var jobs []string
	for _, j := range spec.Jobs {
		jobs = append(jobs, j.Name)
	}
	n := pd.exploreAll(jobs)
	if n < 0 {
		res.Inconcl = "the explorer did not finish all active targets within 30 s"
		return false
	}
	res.AddStat("explorer_requests", int64(n))
	return true
}

func c02Phase(res *core.CaseResult, r *core.Rng, phase, text string, reload bool, groups map[string][]TG, pd *persistentDisc, sidecars []*sc.Instance) bool {
	orig, err := config.Load(text, false, log.NewNopLogger())
	if err != nil {
		res.Inconcl = "generated configuration rejected: " + err.Error()
		return false
	}
	// ---- reference
	ref := map[string]map[string]bool{}
	feat := map[string]*c02Features{}
	for _, jc := range orig.ScrapeConfigs {
		set, dropped, failures := refTargets(jc, groups[jc.JobName])
		ref[jc.JobName] = set
		res.AddStat("reference_targets", int64(len(set)))
		res.AddStat("reference_dropped_by_relabeling", int64(dropped))
		res.AddStat("reference_target_failures", int64(failures))
		f := &c02Features{GroupFailure: failures > 0}
		for _, rc := range jc.RelabelConfigs {
			if strings.HasPrefix(rc.TargetLabel, "__param_") {
				f.ParamRelabel = true
				if _, ok := jc.Params[strings.TrimPrefix(rc.TargetLabel, "__param_")]; ok {
					f.ParamRelabelInParams = true
				}
			}
		}
		for _, g := range groups[jc.JobName] {
			for _, t := range g.Targets {
				for k := range t {
					if strings.HasPrefix(k, "__param_") {
						f.SDParamLabel = true
						if _, ok := jc.Params[strings.TrimPrefix(k, "__param_")]; ok {
							f.ParamRelabelInParams = true
						}
					}
					if strings.Contains(k, "_1app") {
						f.InvalidName = true
					}
				}
			}
		}
		feat[jc.JobName] = f
	}

	// ---- kvass: discovery -> shards -> sidecar -> generated file -> Prometheus loader -> proxy
	if reload {
		if err := pd.cm.ReloadFromRaw([]byte(text)); err != nil {
			res.Inconcl = "coordinator rejected configuration: " + err.Error()
			return false
		}
	}
	live := map[string][]TG{}
	for _, jc := range orig.ScrapeConfigs {
		live[jc.JobName] = groups[jc.JobName]
	}
	if err := pd.round(live); err != nil {
		res.Inconcl = "discovery: " + err.Error()
		return false
	}
	active := pd.d.ActiveTargetsByHash()
	nShards := len(sidecars)
	assign := make([]map[string][]*target.Target, nShards)
	for i := range assign {
		assign[i] = map[string][]*target.Target{}
	}
	var hashes []uint64
	for h := range active {
		hashes = append(hashes, h)
	}
	sort.Slice(hashes, func(i, j int) bool { return hashes[i] < hashes[j] })
	if pd.shardOf == nil {
		pd.shardOf, pd.lastSent = map[uint64]int{}, map[int]string{}
	}
	newShardOf := map[uint64]int{}
	sent := make([][]string, nShards)
	for _, h := range hashes {
		t := active[h]
		s := r.Intn(nShards)
		if old, ok := pd.shardOf[h]; ok && pd.sticky {
			s = old // a target that is being scraped stays where it is
		}
		newShardOf[h] = s
		assign[s][t.Job] = append(assign[s][t.Job], t.ShardTarget)
		sent[s] = append(sent[s], fmt.Sprintf("%d/%s", h, t.ShardTarget.TargetState))
	}
	pd.shardOf = newShardOf
	kv := map[string]map[string]bool{}
	for _, jc := range orig.ScrapeConfigs {
		kv[jc.JobName] = map[string]bool{}
	}
	for s, in := range sidecars {
		if s == 0 && phase == "after a reload" && len(text)%3 == 0 {
			// the write of the generated file fails once while this sidecar applies the reloaded configuration;
			// the coordinator pushes again only if the shard does not report the new hash, then posts targets
			out := in.Opt.OutFile
			_ = os.Rename(out, out+".saved")
			_ = os.Mkdir(out, 0755)
			perr := in.PushConfig(text)
			_ = os.Remove(out)
			_ = os.Rename(out+".saved", out)
			if perr == nil {
				res.Inconcl = "the injected write failure did not surface"
				return false
			}
			res.AddStat("reloads_applied_with_a_failing_file_write", 1)
			if rt, err := in.Runtime(); err != nil || rt.ConfigHash == pd.cm.ConfigInfo().ConfigHash {
				goto pushed
			}
		}
		if err := in.PushConfig(text); err != nil {
			res.Inconcl = "sidecar rejected configuration: " + err.Error()
			return false
		}
	pushed:
		// the coordinator posts a shard's target list only when the set of hashes or a state differs from
		// what the shard reports (shard.needUpdate); a reload that leaves them alike sends the configuration only
		sig := strings.Join(sent[s], ",")
		if pd.sticky && pd.lastSent[s] == sig {
			res.AddStat("shards_not_reposted_after_a_reload", 1)
		} else if err := in.UpdateTargets(assign[s]); err != nil {
			res.Inconcl = "sidecar rejected assignment: " + err.Error()
			return false
		}
		pd.lastSent[s] = sig
		gen, err := in.GeneratedConfig()
		if err != nil {
			res.Inconcl = "no generated file: " + err.Error()
			return false
		}
		gcfg, err := config.Load(string(gen), false, log.NewNopLogger())
		if err != nil {
			res.Violate("C02/generated-config-invalid", "%s: Prometheus rejects the generated configuration: %v", phase, err)
			res.Witness = map[string]interface{}{"config": text, "generated": string(gen)}
			return false
		}
		rt := &recTransport{}
		for _, jc := range orig.ScrapeConfigs {
			if ji := in.SM.GetJob(jc.JobName); ji != nil {
				ji.Cli = &http.Client{Transport: rt}
			}
		}
		for _, gj := range gcfg.ScrapeConfigs {
			if _, ok := kv[gj.JobName]; !ok {
				continue
			}
			for _, g := range staticGroups(gj) {
				ts, errs := scrape.TargetsFromGroup(g, gj)
				if len(errs) > 0 {
					res.Violate("C02/generated-target-invalid", "%s: job %s: Prometheus cannot build a target from the generated static entry: %v", phase, gj.JobName, errs[0])
				}
				for _, t := range ts {
					if t.Labels().Len() == 0 {
						res.Violate("C02/generated-target-dropped", "%s: job %s: a generated static entry is dropped by the generated job's relabeling", phase, gj.JobName)
						continue
					}
					// Prometheus sends this URL through the configured proxy
					req := httptest.NewRequest("GET", t.URL().String(), nil)
					rw := httptest.NewRecorder()
					rt.mu.Lock()
					rt.last = nil
					rt.mu.Unlock()
					func() {
						defer func() { _ = recover() }()
						in.Proxy.ServeHTTP(rw, req)
					}()
					res.Execs++
					rt.mu.Lock()
					out := rt.last
					rt.mu.Unlock()
					if out == nil {
						res.Violate("C02/proxy-sent-nothing", "%s: job %s: proxy answered %d and made no real request for %s", phase, gj.JobName, rw.Code, t.URL().String())
						continue
					}
					kv[gj.JobName][t.Labels().String()+" @ "+normURL(out.URL)] = true
				}
			}
		}
	}

	// ---- compare
	// A target is identified everywhere by (final labels, URL) (C15): the same pair obtained by two
	// different jobs is ONE target for kvass. Such pairs are compared across the jobs that share them:
	// the target must be scraped under at least one of these jobs and under no other.
	owners := map[string][]string{}
	for j, set := range ref {
		for k := range set {
			owners[k] = append(owners[k], j)
		}
	}
	for k, js := range owners {
		if len(js) < 2 {
			continue
		}
		res.AddStat("targets_shared_by_two_jobs", 1)
		n := 0
		for _, j := range js {
			if kv[j][k] {
				n++
			}
			delete(ref[j], k)
			delete(kv[j], k)
		}
		if n == 0 {
			res.Violate("C02/missing-targets/shared-by-jobs", "%s: target %s is obtained by jobs %v in plain Prometheus and by none of them in the sharded pipeline", phase, k, js)
		}
	}
	for _, jc := range orig.ScrapeConfigs {
		j := jc.JobName
		f := feat[j]
		a, b := ref[j], kv[j]
		var missing, extra []string
		for k := range a {
			if !b[k] {
				missing = append(missing, k)
			}
		}
		for k := range b {
			if !a[k] {
				extra = append(extra, k)
			}
		}
		sort.Strings(missing)
		sort.Strings(extra)
		res.AddStat("kvass_targets", int64(len(b)))
		if len(a) > 0 {
			res.Nontrivial = true
		}
		if len(missing) == 0 && len(extra) == 0 {
			res.AddStat("jobs_equivalent", 1)
			continue
		}
		class := classify(missing, extra)
		cause := "other"
		switch {
		case f.ParamRelabelInParams && class == "url-query":
			cause = "param-label-also-in-config-params"
		case f.GroupFailure && class == "missing-targets":
			cause = "group-with-invalid-target"
		case f.InvalidName:
			cause = "invalid-label-name"
		case f.ParamRelabel || f.SDParamLabel:
			cause = "param-label"
		}
		res.Violate("C02/"+class+"/"+cause, "%s: job %s: plain Prometheus and the sharded pipeline disagree (%s). only Prometheus: %v ; only kvass: %v", phase, j, class, clipList(missing, 3), clipList(extra, 3))
		if res.Witness == nil {
			res.Witness = map[string]interface{}{"phase": phase, "config": text, "groups": groups[j], "job": j, "only_prometheus": missing, "only_kvass": extra, "features": f}
		}
	}
	return true
}

func keys(m map[string]map[string]bool) map[string][]string {
	out := map[string][]string{}
	for j, s := range m {
		for k := range s {
			out[j] = append(out[j], k)
		}
		sort.Strings(out[j])
	}
	return out
}

func clipList(l []string, n int) []string {
	if len(l) > n {
		return append(append([]string{}, l[:n]...), fmt.Sprintf("... %d more", len(l)-n))
	}
	return l
}

// classify tells how the two sets differ.
func classify(missing, extra []string) string {
	if len(extra) == 0 {
		return "missing-targets"
	}
	if len(missing) == 0 {
		return "extra-targets"
	}
	strip := func(l []string) string {
		var o []string
		for _, s := range l {
			o = append(o, s[:strings.Index(s, " ? ")])
		}
		sort.Strings(o)
		return fmt.Sprint(o)
	}
	if strip(missing) == strip(extra) {
		return "url-query"
	}
	lab := func(l []string) string {
		var o []string
		for _, s := range l {
			o = append(o, s[:strings.Index(s, " @ ")])
		}
		sort.Strings(o)
		return fmt.Sprint(o)
	}
	if lab(missing) == lab(extra) {
		return "url"
	}
	return "labels"
}

var _ = kdisc.SDTargets{}

func init() {
	core.Register(&core.Prop{
		ID:    "C02",
		Level: "exploration",
		Rule: "differential against the vendored Prometheus library: case = generated configuration (1-4 jobs; scheme, metrics path, params incl. multi-valued and match[], relabel programs: replace into plain labels / __address__ / __metrics_path__ / __scheme__ / __param_<k> with k inside and outside params, keep/drop, labelmap from meta labels incl. digit-leading names, labeldrop, hashmod) + generated target groups (ports present/absent, IPv6 literals, group vs target labels, __param_/__scheme__/__metrics_path__ from discovery, duplicates, dropped targets); " +
			"reference = config.Load + scrape.TargetsFromGroup on the original; kvass = real TargetsDiscovery -> random split over 1-3 real sidecars (JSON API) -> generated file -> config.Load -> TargetsFromGroup -> request through the real Proxy.ServeHTTP -> URL observed at JobInfo.Cli; oracle = per job the sets of (final labels, scheme://host/path ? sorted query) are equal; then the configuration is reloaded with edited relabel programs, metrics path and scheme (one job possibly removed) on the SAME discovery and sidecar objects, the groups are re-sent, and the comparison is repeated; the coordinator side is scrape manager + explorer + discovery sharing one ConfigInfo as in cmd/kvass/coordinator.go: after each of the two configurations the explorer probes every active target (stub exporter) and the same groups are re-sent without a reload, then compared again (4 phases); " +
			"metrics paths (job setting and discovery-provided label) include empty, dot and dot-dot segments and a trailing slash; " +
			"plus 2/8 cases on the REAL coordinator and sidecar binaries (engine E7): a job with multi-valued params, a non-canonical path and relabel rules that rewrite path, a param and a label per target; after convergence (and after a reload that adds or removes targets) the labels the shard's Prometheus gets from the generated file and the request that arrives at each target are compared with config.Load + TargetsFromGroup on the coordinator's file; " +
			"non-trivial = the reference has at least one target; distinct = hash of configuration text and groups",
		Assumptions: []string{
			"the generator does not emit relabel programs that delete job or instance, params named _hash/_jobName/_scheme, or values needing YAML block scalars",
			"targets are compared as sets of (public labels, URL): two Prometheus targets equal in both are one; a pair obtained by two different jobs (same labels incl. the job label, same URL) is one target by C15 and must be scraped under at least one of them",
		},
		NumCases: func(tier string) int { return c02Base(tier) + c02RealCases(tier) },
		Run: func(w *core.WorkerCtx, idx int) *core.CaseResult {
			if base := c02Base(w.Tier); idx >= base {
				// the real coordinator and sidecar binaries: params with several values, a non-canonical path, relabeling
				// that rewrites path, a param and a label; compared at the wire with the vendored Prometheus
				return e7.Run(w, idx-base, "C02")
			}
			return runC02(w, idx)
		},
		MinNontrivial: 100,
	})
}
