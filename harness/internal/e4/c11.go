package e4

import (
	"bytes"
	"errors"
	"fmt"
	"github.com/prometheus/common/model"
	"os"
	"path/filepath"
	"reflect"
	"sort"
	"strings"

	"github.com/go-kit/log"
	config_util "github.com/prometheus/common/config"
	"github.com/prometheus/prometheus/config"
	"github.com/prometheus/prometheus/model/labels"
	"gopkg.in/yaml.v2"

	"kvassverif/internal/cfggen"
	"kvassverif/internal/core"
	"kvassverif/internal/e2"
	"kvassverif/internal/sc"
	"tkestack.io/kvass/pkg/prom"
	"tkestack.io/kvass/pkg/target"
)

// collectSecrets walks a value and returns path -> secret value for every config_util.Secret.
func collectSecrets(v reflect.Value, path string, out map[string]string, depth int) {
	if depth > 12 {
		return
	}
	secretT := reflect.TypeOf(config_util.Secret(""))
	switch v.Kind() {
	case reflect.Ptr, reflect.Interface:
		if !v.IsNil() {
			collectSecrets(v.Elem(), path, out, depth+1)
		}
	case reflect.Struct:
		for i := 0; i < v.NumField(); i++ {
			f := v.Type().Field(i)
			if f.PkgPath != "" {
				continue
			}
			collectSecrets(v.Field(i), path+"."+f.Name, out, depth+1)
		}
	case reflect.Slice, reflect.Array:
		for i := 0; i < v.Len(); i++ {
			collectSecrets(v.Index(i), fmt.Sprintf("%s[%d]", path, i), out, depth+1)
		}
	case reflect.String:
		if v.Type() == secretT && v.String() != "" {
			out[path] = v.String()
		}
	}
}

func yamlOf(v interface{}) string {
	b, err := yaml.Marshal(v)
	if err != nil {
		return "ERR " + err.Error()
	}
	return string(b)
}

type c11Section struct {
	name string
	get  func(c *config.Config) interface{}
}

var c11Sections = []c11Section{
	{"global", func(c *config.Config) interface{} { return c.GlobalConfig }},
	{"rule_files", func(c *config.Config) interface{} { return c.RuleFiles }},
	{"alerting", func(c *config.Config) interface{} { return c.AlertingConfig }},
	{"remote_write", func(c *config.Config) interface{} { return c.RemoteWriteConfigs }},
	{"remote_read", func(c *config.Config) interface{} { return c.RemoteReadConfigs }},
}

func secretKind(path string) string {
	switch {
	case strings.Contains(path, "BasicAuth"):
		return "basic_auth-password"
	case strings.Contains(path, "Authorization"):
		return "authorization-credentials"
	case strings.Contains(path, "BearerToken"):
		return "bearer_token"
	case strings.Contains(path, "OAuth2"):
		return "oauth2-client_secret"
	}
	return "secret"
}

func runC11(w *core.WorkerCtx, idx int) *core.CaseResult {
	r := core.NewRng(w.Seed, 0xC11, uint64(idx))
	res := &core.CaseResult{}
	spec := cfggen.Gen(r, false)
	text := cfggen.Render(spec, cfggen.Style{Indent: 2})
	orig, err := config.Load(text, false, log.NewNopLogger())
	if err != nil {
		res.Inconcl = "generated configuration rejected: " + err.Error()
		return res
	}
	selfMon := r.Intn(2) == 0
	proxyURL := "http://127.0.0.1:8008"
	dir := filepath.Join(w.Scratch, fmt.Sprintf("c11-%d", idx))
	defer os.RemoveAll(dir)
	reloadFails := false
	in, err := sc.New(sc.Options{StoreDir: dir, ProxyURL: proxyURL, PromURL: "http://127.0.0.1:9090", SelfMonitor: selfMon, OnPromReload: func() error {
		if reloadFails {
			return errors.New("prometheus answered 500 to POST /-/reload")
		}
		return nil
	}})
	if err != nil {
		res.Inconcl = "sidecar: " + err.Error()
		return res
	}
	// before the first real configuration: a placeholder that Prometheus accepts
	if b, err := in.GeneratedConfig(); err == nil {
		if _, err := config.Load(string(b), false, log.NewNopLogger()); err != nil {
			res.Violate("C11/placeholder-invalid", "the placeholder written before the first configuration does not load: %v", err)
		}
		res.AddStat("placeholder_checked", 1)
	}
	if err := in.PushConfig(text); err != nil {
		res.Inconcl = "sidecar rejected configuration: " + err.Error()
		return res
	}
	// assignment: some jobs get targets, some none, plus a job that does not exist
	assign := map[string][]*target.Target{}
	want := map[string]map[uint64]bool{}
	byHash := map[uint64]*target.Target{}
	h := uint64(1000)
	for _, j := range spec.Jobs {
		want[j.Name] = map[uint64]bool{}
		n := r.PickI(0, 1, 2, 5)
		for k := 0; k < n; k++ {
			h++
			t := &target.Target{Hash: h, Series: 10}
			t.Labels = append(t.Labels, lbl("__address__", fmt.Sprintf("10.1.0.%d:9100", h%250)), lbl("__scheme__", r.PickS("http", "https")),
				lbl("__metrics_path__", "/metrics"), lbl("instance", fmt.Sprintf("i%d", h)), lbl("job", j.Name))
			// labels the coordinator ships beyond address, scheme and path: names that are not valid label names and
			// params changed by relabeling travel under a reserved prefix, a target may carry its own interval and
			// timeout, further params, and temporary labels
			if r.Intn(3) == 0 {
				for _, x := range [][2]string{{"__invalid_label_1app", "digit-leading"}, {"__invalid_label___param_module", "tcp_connect"}, {"__scrape_interval__", "5m"},
					{"__scrape_timeout__", "1m"}, {"__param_extra", "v-" + fmt.Sprint(h)}, {"team", "t" + fmt.Sprint(h%3)}, {"__tmp_keep", "1"}} {
					if r.Intn(2) == 0 {
						t.Labels = append(t.Labels, lbl(x[0], x[1]))
					}
				}
			}
			assign[j.Name] = append(assign[j.Name], t)
			byHash[h] = t
			want[j.Name][h] = true
		}
	}
	if r.Intn(2) == 0 {
		assign["job_that_no_longer_exists"] = []*target.Target{{Hash: 99999, Labels: []lblT{lbl("__address__", "gone.example:1")}}}
	}
	if err := in.UpdateTargets(assign); err != nil {
		res.Inconcl = "sidecar rejected assignment: " + err.Error()
		return res
	}
	genBytes, err := in.GeneratedConfig()
	if err != nil {
		res.Inconcl = "no generated file: " + err.Error()
		return res
	}
	res.Sig = fmt.Sprintf("%x", core.HashString(text+fmt.Sprint(selfMon, len(assign))))
	res.Nontrivial = true
	var curText string
	var curGen []byte
	witness := func() {
		if res.Witness == nil {
			res.Witness = map[string]interface{}{"original": curText, "generated": string(curGen), "self_monitor": selfMon}
		}
	}
	compare := func(phase, text string, orig *config.Config, genBytes []byte, want map[string]map[uint64]bool) {
		curText, curGen = text, genBytes
		res.Execs++
		gen, err := config.Load(string(genBytes), false, log.NewNopLogger())
		if err != nil {
			res.Violate("C11/generated-invalid", "%s: Prometheus rejects the generated file: %v", phase, err)
			witness()
			return
		}
		// jobs: same names, same order, plus the optional self-monitoring job
		var on, gn []string
		for _, j := range orig.ScrapeConfigs {
			on = append(on, j.JobName)
		}
		for _, j := range gen.ScrapeConfigs {
			gn = append(gn, j.JobName)
		}
		expect := append([]string{}, on...)
		if selfMon {
			expect = append(expect, "prometheus_shards")
		}
		if fmt.Sprint(expect) != fmt.Sprint(gn) {
			res.Violate("C11/jobs-differ", "jobs in the generated file %v, expected %v", gn, expect)
			witness()
		}
		// per job
		for i, oj := range orig.ScrapeConfigs {
			if i >= len(gen.ScrapeConfigs) || gen.ScrapeConfigs[i].JobName != oj.JobName {
				continue
			}
			gj := gen.ScrapeConfigs[i]
			res.AddStat("jobs_compared", 1)
			// discovery: only static entries, one per assigned target
			got := map[uint64]bool{}
			nonStatic := false
			for _, sd := range gj.ServiceDiscoveryConfigs {
				if sd.Name() != "static" {
					nonStatic = true
				}
			}
			for _, g := range staticGroups(gj) {
				hs := string(g.Labels["__param__hash"])
				var hv uint64
				fmt.Sscan(hs, &hv)
				if got[hv] {
					res.Violate("C11/job-targets", "job %s: target %d appears twice", oj.JobName, hv)
				}
				got[hv] = true
				if string(g.Labels["__param__jobName"]) != oj.JobName {
					res.Violate("C11/job-targets", "job %s: static entry routed to job %q", oj.JobName, g.Labels["__param__jobName"])
				}
				// the static entry carries every label the coordinator assigned (the scheme travels as a param)
				if at := byHash[hv]; at != nil {
					for _, l := range at.Labels {
						if l.Name == "__scheme__" {
							continue
						}
						res.AddStat("assigned_labels_compared", 1)
						if got, ok := g.Labels[model.LabelName(l.Name)]; !ok || string(got) != l.Value {
							res.Violate("C11/job-target-labels", "%s: job %s target %d: assigned label %s=%q, the static entry has %q (present: %v)", phase, oj.JobName, hv, l.Name, l.Value, got, ok)
							witness()
						}
					}
				}
			}
			if nonStatic {
				res.Violate("C11/job-discovery-kept", "job %s still has a non-static discovery section", oj.JobName)
				witness()
			}
			if fmt.Sprint(sortedU(got)) != fmt.Sprint(sortedU(want[oj.JobName])) {
				res.Violate("C11/job-targets", "job %s discovers %v, assigned %v", oj.JobName, sortedU(got), sortedU(want[oj.JobName]))
				witness()
			}
			res.AddStat("static_entries_matched", int64(len(got)))
			if gj.Scheme != "http" {
				res.Violate("C11/job-scheme", "job %s scheme %q, expected http", oj.JobName, gj.Scheme)
			}
			if gj.HTTPClientConfig.ProxyURL.URL == nil || gj.HTTPClientConfig.ProxyURL.String() != proxyURL {
				res.Violate("C11/job-proxy", "job %s proxy_url %v, expected %s", oj.JobName, gj.HTTPClientConfig.ProxyURL, proxyURL)
			}
			if gj.HTTPClientConfig.BasicAuth != nil {
				res.Violate("C11/job-basic-auth-kept", "job %s keeps basic_auth", oj.JobName)
				witness()
			}
			if !reflect.DeepEqual(gj.HTTPClientConfig.TLSConfig, config_util.TLSConfig{}) {
				res.Violate("C11/job-tls-kept", "job %s keeps tls_config %+v", oj.JobName, gj.HTTPClientConfig.TLSConfig)
				witness()
			}
			kept := []struct {
				name string
				a, b interface{}
			}{
				{"scrape_interval", oj.ScrapeInterval, gj.ScrapeInterval}, {"scrape_timeout", oj.ScrapeTimeout, gj.ScrapeTimeout},
				{"params", oj.Params, gj.Params}, {"honor_labels", oj.HonorLabels, gj.HonorLabels}, {"honor_timestamps", oj.HonorTimestamps, gj.HonorTimestamps},
				{"sample_limit", oj.SampleLimit, gj.SampleLimit}, {"target_limit", oj.TargetLimit, gj.TargetLimit}, {"label_limit", oj.LabelLimit, gj.LabelLimit},
				{"label_name_length_limit", oj.LabelNameLengthLimit, gj.LabelNameLengthLimit}, {"label_value_length_limit", oj.LabelValueLengthLimit, gj.LabelValueLengthLimit},
				{"body_size_limit", oj.BodySizeLimit, gj.BodySizeLimit}, {"metric_relabel_configs", oj.MetricRelabelConfigs, gj.MetricRelabelConfigs},
				{"metrics_path", oj.MetricsPath, gj.MetricsPath},
			}
			for _, k := range kept {
				if yamlOf(k.a) != yamlOf(k.b) {
					res.Violate("C11/job-setting-changed/"+k.name, "job %s: %s is %s in the generated file, %s in the original", oj.JobName, k.name, strings.TrimSpace(yamlOf(k.b)), strings.TrimSpace(yamlOf(k.a)))
					witness()
				}
			}
			// no secret of the scrape job in the file
			secs := map[string]string{}
			collectSecrets(reflect.ValueOf(oj.HTTPClientConfig), "", secs, 0)
			collectSecrets(reflect.ValueOf(oj.ServiceDiscoveryConfigs), "sd", secs, 0) // credentials of the job's discovery clients are job secrets too
			for p, s := range secs {
				res.AddStat("job_secrets_scanned", 1)
				if bytes.Contains(genBytes, []byte(s)) {
					res.Violate("C11/job-secret-leaked/"+secretKind(p), "job %s: secret %s (%s) appears in the generated file", oj.JobName, s, p)
					witness()
				}
			}
		}
		// global, rules, alerting, remote write/read incl. secrets
		for _, sec := range c11Sections {
			a, b := sec.get(orig), sec.get(gen)
			if yamlOf(a) != yamlOf(b) {
				res.Violate("C11/section-changed/"+sec.name, "section %s differs:\n--- original\n%s--- generated\n%s", sec.name, yamlOf(a), yamlOf(b))
				witness()
			}
			sa, sb := map[string]string{}, map[string]string{}
			collectSecrets(reflect.ValueOf(a), sec.name, sa, 0)
			collectSecrets(reflect.ValueOf(b), sec.name, sb, 0)
			var paths []string
			for p := range sa {
				paths = append(paths, p)
			}
			for p := range sb {
				if _, ok := sa[p]; !ok {
					paths = append(paths, p)
				}
			}
			sort.Strings(paths)
			for _, p := range paths {
				res.AddStat("section_secrets_compared", 1)
				if sa[p] != sb[p] {
					res.Violate("C11/secret-not-preserved/"+sec.name+"/"+secretKind(p), "%s: original %q, generated file %q", p, sa[p], sb[p])
					witness()
				}
			}
		}
	}
	compare("first configuration + assignment", text, orig, genBytes, want)

	// read requests in between (what the coordinator's /api/v1/samples?job=..., dashboards and operators send):
	// reads must not change what the next rendering produces
	if len(spec.Jobs) > 0 {
		_, _ = in.Samples(spec.Jobs[r.Intn(len(spec.Jobs))].Name, true)
		_, _ = in.Samples("", false)
		_, _ = in.Status()
		_, _ = in.Runtime()
		res.AddStat("api_reads_between_renderings", 4)
	}
	// phase 1b: a new configuration that differs ONLY in the external labels (which the configuration hash ignores)
	curText, curOrig := text, orig
	if len(res.Viol) == 0 {
		specE := clone(spec)
		specE.ExternalLabels = map[string]string{"cluster": "relabelled-" + fmt.Sprint(idx%7), "region": "eu", "replica": "z"}
		textE := cfggen.Render(specE, cfggen.Style{Indent: 2})
		if origE, err := config.Load(textE, false, log.NewNopLogger()); err == nil {
			if err := in.PushConfig(textE); err != nil {
				res.Inconcl = "sidecar rejected the external-label change: " + err.Error()
				return res
			}
			curText, curOrig = textE, origE
			if gb, err := in.GeneratedConfig(); err == nil {
				compare("after a change of external labels only", textE, origE, gb, want)
			}
		}
	}

	// phase 1c: an operator stops and resumes scraping (POST .../status/extra_config with a changed reason, what the
	// coordinator forwards to every shard): the file rendered after each of the two changes, and after the next
	// ordinary targets update, is still the whole configuration
	if len(res.Viol) == 0 && idx%2 == 0 {
		for _, reason := range []string{"maintenance window " + fmt.Sprint(idx), ""} {
			if code, _, err := in.Call("POST", "/api/v1/status/extra_config/", &prom.ExtraConfig{StopScrapeReason: reason}, nil); err != nil || code != 200 {
				res.Inconcl = fmt.Sprintf("extra config update refused: %d %v", code, err)
				return res
			}
			res.AddStat("extra_config_changes", 1)
			if gb, err := in.GeneratedConfig(); err == nil {
				compare(fmt.Sprintf("after the stop-scrape reason changed to %q", reason), curText, curOrig, gb, want)
			}
			if len(res.Viol) == 0 {
				if err := in.UpdateTargets(assign); err == nil {
					if gb, err := in.GeneratedConfig(); err == nil {
						compare(fmt.Sprintf("after the stop-scrape reason changed to %q and the assignment was sent again", reason), curText, curOrig, gb, want)
					}
				}
			}
		}
	}

	// phase 1d: another version (one more job) is pushed while Prometheus refuses the reload - the push fails - and
	// the operator reverts the coordinator to the current version before it ever succeeded. The coordinator pushes its
	// configuration if the shard reports another hash, and posts targets. A shard that then reports the
	// coordinator's hash must have the file of the coordinator's configuration.
	if len(res.Viol) == 0 && idx%2 == 1 {
		specR := clone(spec)
		if curText != text {
			specR.ExternalLabels = map[string]string{"cluster": "relabelled-" + fmt.Sprint(idx%7), "region": "eu", "replica": "z"}
		}
		specR.Jobs = append(specR.Jobs, cfggen.GenJob(r, "refused_job", false))
		textR := cfggen.Render(specR, cfggen.Style{Indent: 2})
		if _, err := config.Load(textR, false, log.NewNopLogger()); err == nil {
			reloadFails = true
			perr := in.PushConfig(textR)
			reloadFails = false
			hCur, herr := hashOf(curText)
			if perr != nil && herr == nil {
				res.AddStat("pushes_refused_by_prometheus_then_reverted", 1)
				if rt, err := in.Runtime(); err == nil && rt.ConfigHash != hCur {
					if err := in.PushConfig(curText); err != nil {
						res.Inconcl = "sidecar rejected the reverted configuration: " + err.Error()
						return res
					}
				}
				if err := in.UpdateTargets(assign); err != nil {
					res.Inconcl = "targets update after the refused push: " + err.Error()
					return res
				}
				if rt, err := in.Runtime(); err == nil && rt.ConfigHash == hCur {
					if gb, err := in.GeneratedConfig(); err == nil {
						compare("after a push that Prometheus refused, a revert and an ordinary targets update (the shard reports the coordinator's hash)", curText, curOrig, gb, want)
					}
				}
			}
		}
	}

	// phase 2: a new configuration arrives while targets are assigned (a job added, the last job removed when
	// there are several, a setting changed): the assignment of surviving jobs must still be in the file
	if len(res.Viol) == 0 {
		spec2 := clone(spec)
		if len(spec2.Jobs) > 1 {
			gone := spec2.Jobs[len(spec2.Jobs)-1].Name
			spec2.Jobs = spec2.Jobs[:len(spec2.Jobs)-1]
			delete(want, gone)
		}
		spec2.Jobs = append(spec2.Jobs, cfggen.GenJob(r, "late_job", false))
		want["late_job"] = map[uint64]bool{}
		spec2.Jobs[0].Interval, spec2.Jobs[0].Timeout = "41s", "7s"
		text2 := cfggen.Render(spec2, cfggen.Style{Indent: 2})
		if orig2, err := config.Load(text2, false, log.NewNopLogger()); err == nil {
			if r.Intn(3) == 0 {
				// the write of the generated file fails ONCE, exactly while the second configuration is applied
				// (the path is a directory for a moment); afterwards the coordinator does what it always does:
				// it pushes the configuration again if the shard does not report its hash, and posts targets
				out := in.Opt.OutFile
				_ = os.Rename(out, out+".saved")
				_ = os.Mkdir(out, 0755)
				perr := in.PushConfig(text2)
				_ = os.Remove(out)
				_ = os.Rename(out+".saved", out)
				if perr == nil {
					res.Inconcl = "the injected write failure did not surface"
					return res
				}
				res.AddStat("configurations_applied_with_a_failing_file_write", 1)
				h2, _ := hashOf(text2)
				if rt, err := in.Runtime(); err == nil && rt.ConfigHash != h2 {
					if err := in.PushConfig(text2); err != nil {
						res.Inconcl = "sidecar rejected the second configuration: " + err.Error()
						return res
					}
				}
				a1 := map[string][]*target.Target{}
				for j, ts := range assign {
					if _, ok := want[j]; ok {
						a1[j] = ts
					}
				}
				if err := in.UpdateTargets(a1); err != nil {
					res.Inconcl = "targets update after the failed write: " + err.Error()
					return res
				}
				if gb, err := in.GeneratedConfig(); err == nil {
					compare("after a configuration whose file write failed once, followed by an ordinary targets update", text2, orig2, gb, want)
				}
				if len(res.Viol) > 0 {
					res.Viol = dedupeV(res.Viol)
					return res
				}
			}
			if err := in.PushConfig(text2); err != nil {
				res.Inconcl = "sidecar rejected the second configuration: " + err.Error()
				return res
			}
			if gb, err := in.GeneratedConfig(); err == nil {
				compare("after a second configuration", text2, orig2, gb, want)
			}
			// phase 3: the assignment changes under the second configuration
			if len(res.Viol) == 0 {
				a2 := map[string][]*target.Target{}
				w2 := map[string]map[uint64]bool{}
				for j := range want {
					w2[j] = map[uint64]bool{}
				}
				for j, ts := range assign {
					if _, ok := want[j]; !ok {
						continue
					}
					for k, t := range ts {
						if k%2 == 0 {
							a2[j] = append(a2[j], t)
							w2[j][t.Hash] = true
						}
					}
				}
				nt := &target.Target{Hash: 777777, Labels: []lblT{lbl("__address__", "10.7.7.7:9100"), lbl("__scheme__", "http"), lbl("__metrics_path__", "/metrics"), lbl("job", "late_job")}}
				a2["late_job"] = append(a2["late_job"], nt)
				byHash[nt.Hash] = nt
				w2["late_job"][nt.Hash] = true
				if err := in.UpdateTargets(a2); err == nil {
					if gb, err := in.GeneratedConfig(); err == nil {
						compare("after a changed assignment", text2, orig2, gb, w2)
					}
				}
			}
		}
	}
	res.Viol = dedupeV(res.Viol)
	if idx < 2 {
		res.Sample = map[string]interface{}{"original": text, "generated": string(genBytes)}
	}
	return res
}

func sortedU(m map[uint64]bool) []uint64 {
	var o []uint64
	for k := range m {
		o = append(o, k)
	}
	sort.Slice(o, func(i, j int) bool { return o[i] < o[j] })
	return o
}

func init() {
	core.Register(&core.Prop{
		ID:    "C11",
		Level: "exploration",
		Rule: "differential against the vendored Prometheus loader: case = generated configuration (1-4 jobs, every auth kind: basic, bearer_token, authorization, tls (files or inline), oauth2; SD kinds static/file/kubernetes/dns/http; global, rule files, alerting with and without credentials, 0-2 remote_write and remote_read entries with bearer tokens / passwords / authorization, all secrets unique recognisable strings) + an assignment (jobs with 0/1/2/5 targets, optionally targets of a job that does not exist) + self-monitoring on/off, pushed through a real sidecar's API; then a configuration differing only in external labels, then a second configuration (a job added, the last job removed, a setting changed) while targets are assigned, then a changed assignment under it - the file is re-checked after each phase; in a third of the cases the write of the generated file fails once while the second configuration is applied, after which the coordinator's usual actions must bring the file to that configuration; plus 4/24 cases on the REAL `kvass sidecar` process restarted twice on its volume (the file must list the resumed assignment); plus overlap cases: a slow call (40-job configuration / 2400-target assignment) and a fast call of the other kind reach one sidecar 0-15 ms apart in 8 rounds, after both returned the file must show the pushed configuration and the posted assignment; " +
			"the generated file is loaded with config.Load and compared field-wise with the loaded original (jobs and order, static entries <-> assigned hashes, scheme/proxy/auth removal, kept settings, byte scan for job secrets, global/rules/alerting/remote sections via YAML rendering plus a reflective walk over every Secret value); " +
			"every other case pushes a version with one more job while Prometheus refuses the reload, reverts, lets the coordinator push if the hash differs, and - if the shard then reports the coordinator's hash - compares the file with the coordinator's version; " +
			"every second case sets and clears the stop-scrape reason through /api/v1/status/extra_config/ and re-checks the file after each change and after the next targets update; " +
			"non-trivial = every case the sidecar accepts; distinct = hash of the text, self-monitor flag and assignment size",
		Assumptions: []string{"secrets use a YAML-plain alphabet (no quoting needed)", "sections are compared through yaml.Marshal of the loaded structs plus the reflective secret walk"},
		NumCases: func(tier string) int {
			if tier == "thorough" {
				return 20000 + c11OverlapThorough + 24
			}
			return 1500 + c11OverlapQuick + 4
		},
		Run: func(w *core.WorkerCtx, idx int) *core.CaseResult {
			n := 1500
			if w.Tier == "thorough" {
				n = 20000
			}
			ov := c11OverlapQuick
			if w.Tier == "thorough" {
				ov = c11OverlapThorough
			}
			if idx >= n+ov {
				// the REAL `kvass sidecar` restarted on its volume: the file it generates must list the resumed assignment
				return e2.RealRestartCase(w, idx-n-ov, "C11")
			}
			if idx >= n {
				return runC11Overlap(w, idx-n)
			}
			return runC11(w, idx)
		},
		MinNontrivial: 100,
	})
}

type lblT = labels.Label

func lbl(n, v string) labels.Label { return labels.Label{Name: n, Value: v} }
