package e4

import (
	"fmt"
	"os"
	"path/filepath"
	"strconv"
	"strings"
	"sync"
	"time"

	"github.com/go-kit/log"
	"github.com/prometheus/prometheus/config"

	"kvassverif/internal/core"
	"kvassverif/internal/sc"
	"tkestack.io/kvass/pkg/target"
)

// Overlapping updates: a configuration push and an assignment update reach one sidecar at the same
// time (two API requests, two goroutines; each manager is still used by one goroutine only). Both
// are acknowledged; when both have returned the generated file must show the configuration pushed
// last AND the assignment posted last - whichever of the two calls regenerated the file last.

const c11OverlapQuick, c11OverlapThorough = 16, 240

func c11OvConfig(nJobs int, tag string) (string, []string) {
	var sb strings.Builder
	sb.WriteString("global:\n  scrape_interval: 30s\n  external_labels:\n    tag: " + tag + "\nscrape_configs:\n")
	var jobs []string
	for i := 0; i < nJobs; i++ {
		n := fmt.Sprintf("job%02d", i)
		jobs = append(jobs, n)
		fmt.Fprintf(&sb, "- job_name: %s\n  metrics_path: /m%d\n  params:\n    module: [m%s%d]\n  relabel_configs:\n  - source_labels: [__address__]\n    target_label: node\n  static_configs:\n  - targets: ['unused%d.example:1']\n", n, i, tag, i, i)
	}
	return sb.String(), jobs
}

func c11OvAssign(jobs []string, perJob int, base uint64) (map[string][]*target.Target, map[string]map[uint64]bool) {
	a := map[string][]*target.Target{}
	want := map[string]map[uint64]bool{}
	h := base
	for _, j := range jobs {
		want[j] = map[uint64]bool{}
		for k := 0; k < perJob; k++ {
			h++
			t := &target.Target{Hash: h, Series: 10}
			t.Labels = append(t.Labels, lbl("__address__", fmt.Sprintf("10.%d.%d.%d:9100", h>>16&255, h>>8&255, h&255)), lbl("__scheme__", "http"),
				lbl("__metrics_path__", "/metrics"), lbl("instance", fmt.Sprintf("i%d", h)), lbl("job", j), lbl("zone", "z"+strconv.Itoa(int(h%7))))
			a[j] = append(a[j], t)
			want[j][h] = true
		}
	}
	return a, want
}

func runC11Overlap(w *core.WorkerCtx, k int) *core.CaseResult {
	r := core.NewRng(w.Seed, 0xC110, uint64(k))
	res := &core.CaseResult{Sig: fmt.Sprintf("overlap-%d", k), Nontrivial: true}
	dir := filepath.Join(w.Scratch, fmt.Sprintf("c11ov-%d", k))
	defer os.RemoveAll(dir)
	in, err := sc.New(sc.Options{StoreDir: dir, ProxyURL: "http://127.0.0.1:8008", PromURL: "http://127.0.0.1:9090"})
	if err != nil {
		res.Inconcl = "sidecar: " + err.Error()
		return res
	}
	bigCfg, bigJobs := c11OvConfig(40, "big")
	smallCfg, smallJobs := c11OvConfig(2, "small")
	bigAsg, bigWant := c11OvAssign(bigJobs, 60, 100000)
	smallAsg, smallWant := c11OvAssign(smallJobs[:1], 1, 500)
	type round struct {
		slow  string // which call renders slowly and starts first: "config" (big configuration) or "assignment" (big assignment)
		delay time.Duration
	}
	delays := []time.Duration{0, 100 * time.Microsecond, 500 * time.Microsecond, 2 * time.Millisecond, 5 * time.Millisecond, 15 * time.Millisecond}
	for rd := 0; rd < 8; rd++ {
		ro := round{slow: r.PickS("config", "assignment"), delay: delays[r.Intn(len(delays))]}
		var finalJobs []string
		var finalWant map[string]map[uint64]bool
		var slowCall, fastCall func() error
		// state before the overlap: the opposite of what the two calls bring
		if ro.slow == "config" {
			// a big configuration arrives (slow to render while many targets are assigned); slightly later a small assignment
			if err := in.PushConfig(smallCfg); err != nil {
				res.Inconcl = "push: " + err.Error()
				return res
			}
			if err := in.UpdateTargets(bigAsg); err != nil {
				res.Inconcl = "assign: " + err.Error()
				return res
			}
			slowCall = func() error { return in.PushConfig(bigCfg) }
			fastCall = func() error { return in.UpdateTargets(smallAsg) }
			finalJobs, finalWant = bigJobs, smallWant
		} else {
			// a big assignment arrives under a big configuration; slightly later a small configuration
			if err := in.PushConfig(bigCfg); err != nil {
				res.Inconcl = "push: " + err.Error()
				return res
			}
			if err := in.UpdateTargets(smallAsg); err != nil {
				res.Inconcl = "assign: " + err.Error()
				return res
			}
			slowCall = func() error { return in.UpdateTargets(bigAsg) }
			fastCall = func() error { return in.PushConfig(smallCfg) }
			finalJobs, finalWant = smallJobs, bigWant
		}
		var wg sync.WaitGroup
		var e1, e2 error
		start := make(chan struct{})
		wg.Add(2)
		go func() { defer wg.Done(); <-start; e1 = slowCall() }()
		go func() { defer wg.Done(); <-start; time.Sleep(ro.delay); e2 = fastCall() }()
		close(start)
		wg.Wait()
		res.Execs++
		res.AddStat("overlapping_pairs", 1)
		res.AddSet("overlap_shapes", fmt.Sprintf("slow=%s delay=%v", ro.slow, ro.delay))
		if e1 != nil || e2 != nil {
			res.Inconcl = fmt.Sprintf("overlapping calls failed: %v / %v", e1, e2)
			return res
		}
		gen, err := in.GeneratedConfig()
		if err != nil {
			res.Inconcl = "no generated file: " + err.Error()
			return res
		}
		gcfg, err := config.Load(string(gen), false, log.NewNopLogger())
		if err != nil {
			res.Violate("C11/overlap/generated-config-invalid", "after overlapping updates (slow=%s, delay %v) Prometheus rejects the generated file: %v", ro.slow, ro.delay, err)
			break
		}
		var gotJobs []string
		bad := ""
		for _, gj := range gcfg.ScrapeConfigs {
			gotJobs = append(gotJobs, gj.JobName)
			got := map[uint64]bool{}
			for _, g := range staticGroups(gj) {
				if hv, err := strconv.ParseUint(string(g.Labels["__param__hash"]), 10, 64); err == nil {
					got[hv] = true
				}
			}
			if fmt.Sprint(sortedU(got)) != fmt.Sprint(sortedU(finalWant[gj.JobName])) && bad == "" {
				bad = fmt.Sprintf("job %s lists %d targets, the assignment acknowledged last has %d for it", gj.JobName, len(got), len(finalWant[gj.JobName]))
			}
		}
		if fmt.Sprint(gotJobs) != fmt.Sprint(finalJobs) {
			res.Violate("C11/overlap/superseded-configuration", "both calls acknowledged (slow=%s started first, the other %v later); the file holds %d jobs, the configuration acknowledged last has %d", ro.slow, ro.delay, len(gotJobs), len(finalJobs))
		} else if bad != "" {
			res.Violate("C11/overlap/superseded-assignment", "both calls acknowledged (slow=%s started first, the other %v later); %s", ro.slow, ro.delay, bad)
		}
		if len(res.Viol) > 0 {
			res.Witness = map[string]interface{}{"round": rd, "slow": ro.slow, "delay": ro.delay.String(), "file_jobs": gotJobs}
			break
		}
	}
	return res
}
