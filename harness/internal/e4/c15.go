package e4

import (
	"bytes"
	"encoding/json"
	"fmt"
	"github.com/go-kit/log"
	"github.com/prometheus/prometheus/config"
	"io"
	"os"
	"os/exec"
	"sort"
	"strconv"

	"kvassverif/internal/cfggen"
	"kvassverif/internal/core"
)

type c15Input struct {
	Config string          `json:"config"`
	Groups map[string][]TG `json:"groups"`
	Rounds int             `json:"rounds"`
}

type c15Out struct {
	Err    string              `json:"err,omitempty"`
	ByHash map[uint64]string   `json:"byHash"` // ActiveTargetsByHash: hash -> identity
	PerJob map[string][]hashID `json:"perJob"` // ActiveTargets: job -> list
	Drops  map[string]int      `json:"drops"`
}

type hashID struct {
	Hash uint64 `json:"hash"`
	ID   string `json:"id"`
}

func c15Observe(in *c15Input) *c15Out {
	out := &c15Out{ByHash: map[uint64]string{}, PerJob: map[string][]hashID{}, Drops: map[string]int{}}
	d, _, err := discover(in.Config, in.Groups, in.Rounds)
	if err != nil {
		out.Err = err.Error()
		return out
	}
	// what a target IS: its shipped labels and the URL that will really be requested for it - built from the
	// job section of the configuration AS LOADED BY THE HARNESS, not from whatever copy discovery keeps
	jobs := map[string]*config.ScrapeConfig{}
	if orig, err := config.Load(in.Config, false, log.NewNopLogger()); err == nil {
		for _, jc := range orig.ScrapeConfigs {
			jobs[jc.JobName] = jc
		}
	}
	for h, t := range d.ActiveTargetsByHash() {
		out.ByHash[h] = identityFor(t, jobs[t.Job])
	}
	for j, ts := range d.ActiveTargets() {
		for _, t := range ts {
			out.PerJob[j] = append(out.PerJob[j], hashID{t.ShardTarget.Hash, identityFor(t, jobs[j])})
		}
	}
	for j, ts := range d.DropTargets() {
		out.Drops[j] = len(ts)
	}
	return out
}

func c15Child(args []string) int {
	b, _ := io.ReadAll(os.Stdin)
	in := &c15Input{}
	if err := json.Unmarshal(b, in); err != nil {
		fmt.Println(`{"err":"bad input"}`)
		return 0
	}
	in.Groups = quoteGroups(in.Groups, true)
	o, _ := json.Marshal(c15Observe(in))
	os.Stdout.Write(o)
	return 0
}

// quoteGroups makes every string ASCII (encoding/json would replace invalid UTF-8, which some
// generated label values contain on purpose).
func quoteGroups(gs map[string][]TG, unq bool) map[string][]TG {
	f := func(s string) string {
		if unq {
			u, err := strconv.Unquote(s)
			if err != nil {
				return s
			}
			return u
		}
		return strconv.QuoteToASCII(s)
	}
	out := map[string][]TG{}
	for j, l := range gs {
		for _, g := range l {
			n := TG{Source: g.Source, Labels: map[string]string{}}
			for k, v := range g.Labels {
				n.Labels[k] = f(v)
			}
			for _, t := range g.Targets {
				m := map[string]string{}
				for k, v := range t {
					m[k] = f(v)
				}
				n.Targets = append(n.Targets, m)
			}
			out[j] = append(out[j], n)
		}
	}
	return out
}

func c15InChild(self string, in0 *c15Input) (*c15Out, error) {
	in := &c15Input{Config: in0.Config, Groups: quoteGroups(in0.Groups, false), Rounds: in0.Rounds}
	b, _ := json.Marshal(in)
	cmd := exec.Command(self, "c15child")
	cmd.Stdin = bytes.NewReader(b)
	var out bytes.Buffer
	cmd.Stdout = &out
	if err := cmd.Run(); err != nil {
		return nil, err
	}
	o := &c15Out{}
	if err := json.Unmarshal(out.Bytes(), o); err != nil {
		return nil, fmt.Errorf("child output: %v: %s", err, out.String())
	}
	return o, nil
}

// permuteGroups returns a semantically equal input: targets and groups reordered, labels common to
// all targets of a group moved to the group level and group labels pushed down to the targets.
func permuteGroups(r *core.Rng, gs []TG, mode int) []TG {
	var out []TG
	for _, g := range gs {
		n := TG{Source: g.Source, Labels: map[string]string{}}
		for k, v := range g.Labels {
			n.Labels[k] = v
		}
		for _, t := range g.Targets {
			c := map[string]string{}
			for k, v := range t {
				c[k] = v
			}
			n.Targets = append(n.Targets, c)
		}
		switch mode {
		case 1: // push group labels down (target labels win over group labels already)
			for k, v := range n.Labels {
				for _, t := range n.Targets {
					if _, ok := t[k]; !ok {
						t[k] = v
					}
				}
			}
			n.Labels = map[string]string{}
		case 2: // lift labels shared by all targets (and not set at group level) to the group
			if len(n.Targets) > 0 {
				for k, v := range n.Targets[0] {
					if k == "__address__" {
						continue
					}
					all := true
					for _, t := range n.Targets {
						if t[k] != v {
							all = false
						}
					}
					if _, has := n.Labels[k]; all && !has {
						n.Labels[k] = v
						for _, t := range n.Targets {
							delete(t, k)
						}
					}
				}
			}
		}
		p := r.Perm(len(n.Targets))
		ts := make([]map[string]string, len(n.Targets))
		for i, j := range p {
			ts[i] = n.Targets[j]
		}
		n.Targets = ts
		out = append(out, n)
	}
	p := r.Perm(len(out))
	o2 := make([]TG, len(out))
	for i, j := range p {
		o2[i] = out[j]
	}
	return o2
}

func runC15(w *core.WorkerCtx, idx int) *core.CaseResult {
	r := core.NewRng(w.Seed, 0xC15, uint64(idx))
	res := &core.CaseResult{}
	spec := cfggen.Gen(r, true)
	groups := map[string][]TG{}
	for _, j := range spec.Jobs {
		groups[j.Name] = GenGroups(r, j.Name)
	}
	if r.Intn(3) == 0 {
		// two jobs whose targets end up with identical labels (the discovery data sets the job label) and whose
		// URLs differ only in a LATER value of a multi-valued param (federation match[]): different targets
		for i, last := range []string{`{__name__=~"job:.*"}`, `{__name__=~"node:.*"}`} {
			j := cfggen.Job{Name: fmt.Sprintf("fed%d", i), MetricsPath: "/federate", Params: map[string][]string{"match[]": {`{job="prometheus"}`, last}},
				SDs: []cfggen.SD{{Kind: "static", Targets: []string{"unused.example:1"}}}}
			spec.Jobs = append(spec.Jobs, j)
			groups[j.Name] = []TG{{Source: "fed/0", Targets: []map[string]string{{"__address__": "fed.example:9090", "job": "fed"}, {"__address__": "fed2.example:9090", "job": "fed"}}}}
		}
	}
	if r.Intn(3) == 0 {
		// two scrape jobs with identical settings that discover the same endpoints, whose targets carry a job label
		// set by discovery: equal final labels, equal URL - ONE target, whatever the scrape job is called
		for _, n := range []string{"pinned-one", "pinned-two"} {
			j := cfggen.Job{Name: n, MetricsPath: "/metrics", SDs: []cfggen.SD{{Kind: "static", Targets: []string{"unused.example:1"}}}}
			spec.Jobs = append(spec.Jobs, j)
			groups[j.Name] = []TG{{Source: "pinned/0", Targets: []map[string]string{{"__address__": "pinned.example:9100", "job": "app"}, {"__address__": "pinned2.example:9100", "job": "app", "zone": "b"}}}}
		}
	}
	text := cfggen.Render(spec, cfggen.Style{Indent: 2})
	base := c15Observe(&c15Input{Config: text, Groups: groups, Rounds: 1})
	if base.Err != "" {
		res.Inconcl = "discovery set-up failed: " + base.Err
		return res
	}
	res.Sig = fmt.Sprintf("%x", core.HashString(text+fmt.Sprint(groups)))
	nGroups := map[string]int{}
	for j, gs := range groups {
		nGroups[j] = len(gs)
	}
	idToHash := map[string]uint64{}
	hashToID := map[uint64]string{}
	var trace []string
	note := func(where string, o *c15Out) {
		res.Execs++
		for _, ts := range o.PerJob {
			for _, t := range ts {
				res.AddStat("hashes_observed", 1)
				if h, ok := idToHash[t.ID]; ok && h != t.Hash {
					res.Violate("C15/hash-not-stable", "%s: target %q has hash %d, seen earlier with hash %d", where, t.ID, t.Hash, h)
				}
				if id, ok := hashToID[t.Hash]; ok && id != t.ID {
					res.Violate("C15/different-targets-same-hash", "%s: hash %d stands for %q and for %q", where, t.Hash, t.ID, id)
				}
				idToHash[t.ID] = t.Hash
				hashToID[t.Hash] = t.ID
			}
		}
		// entries of one group that are equal in final labels and URL collapse: a job's list may repeat a hash
		// at most once per group of that job
		for j, ts := range o.PerJob {
			cnt := map[uint64]int{}
			for _, t := range ts {
				cnt[t.Hash]++
			}
			for h, n := range cnt {
				if n > nGroups[j] {
					res.Violate("C15/duplicate-entries-not-collapsed", "%s: job %s lists target %d (%s) %d times although it has only %d group(s)", where, j, h, hashToID[h], n, nGroups[j])
					break
				}
			}
		}
		// ActiveTargetsByHash: one key per identity
		ids := map[string]bool{}
		for _, ts := range o.PerJob {
			for _, t := range ts {
				ids[t.ID] = true
			}
		}
		if len(o.ByHash) != len(ids) {
			res.Violate("C15/no-collapse", "%s: %d distinct targets (labels+URL) but %d hash keys", where, len(ids), len(o.ByHash))
		}
		for h, id := range o.ByHash {
			if idToHash[id] != h {
				res.Violate("C15/by-hash-inconsistent", "%s: by-hash table maps %d to %q whose hash is %d", where, h, id, idToHash[id])
			}
		}
		trace = append(trace, fmt.Sprintf("%s: %d distinct targets", where, len(ids)))
	}
	note("first round", base)
	if len(base.ByHash) >= 2 {
		res.Nontrivial = true
	}
	dupes := 0
	for _, ts := range base.PerJob {
		dupes += len(ts)
	}
	res.AddStat("duplicate_entries_collapsed", int64(dupes-len(base.ByHash)))
	baseSet := setOf(base)
	// (i) repeated rounds
	o := c15Observe(&c15Input{Config: text, Groups: groups, Rounds: 3})
	note("after 3 rounds", o)
	if setOf(o) != baseSet {
		res.Violate("C15/set-changes-across-rounds", "repeating the same discovery data changed the set of (hash, target) pairs")
	}
	// (ii) permutations and label placement
	for mode := 0; mode < 3; mode++ {
		g2 := map[string][]TG{}
		for j, gs := range groups {
			g2[j] = permuteGroups(r, gs, mode)
		}
		o := c15Observe(&c15Input{Config: text, Groups: g2, Rounds: 1})
		note(fmt.Sprintf("permutation mode %d", mode), o)
		if setOf(o) != baseSet {
			res.Violate("C15/depends-on-order-or-label-placement", "permutation mode %d (0 order, 1 group labels pushed down, 2 common labels lifted) changed the set of (hash, target) pairs", mode)
		}
		res.AddStat("permutations", 1)
	}
	// (iii) fresh processes
	np := 1
	if idx%4 == 0 {
		np = 3
	}
	for k := 0; k < np; k++ {
		o, err := c15InChild(w.Self, &c15Input{Config: text, Groups: groups, Rounds: 1})
		if err != nil || o.Err != "" {
			res.Inconcl = fmt.Sprintf("child process: %v %s", err, o.Err)
			return res
		}
		note(fmt.Sprintf("fresh process %d", k), o)
		if setOf(o) != baseSet {
			res.Violate("C15/differs-across-processes", "a fresh process computed a different set of (hash, target) pairs")
		}
		res.AddStat("fresh_processes", 1)
	}
	// (iv) single edits of one component of one target
	edits := 0
	for j, gs := range groups {
		for gi := range gs {
			for ti := range gs[gi].Targets {
				for e := 0; e < 6; e++ {
					g2 := map[string][]TG{}
					for jj, gg := range groups {
						g2[jj] = permuteGroups(core.NewRng(1), gg, 3) // deep copy, fixed order
					}
					// locate the copy of this target
					var tgt map[string]string
					for gk := range g2[j] {
						if g2[j][gk].Source == gs[gi].Source {
							// permuteGroups with a fixed rng permutes deterministically; find by content
							for _, t := range g2[j][gk].Targets {
								if sameMap(t, gs[gi].Targets[ti]) {
									tgt = t
								}
							}
						}
					}
					if tgt == nil {
						continue
					}
					switch e {
					case 0:
						tgt["edited_label"] = "v" // a label value nobody drops
					case 1:
						tgt["__param_target"] = tgt["__param_target"] + "x"
					case 2:
						tgt["__metrics_path__"] = "/edited" + tgt["__metrics_path__"]
					case 3:
						if tgt["__scheme__"] == "https" {
							tgt["__scheme__"] = "http"
						} else {
							tgt["__scheme__"] = "https"
						}
					case 4:
						tgt["__address__"] = "edited-host.example:7777"
					case 5:
						tgt["__tmp_edited"] = "x" // a reserved label outside the URL is still a label
					}
					o := c15Observe(&c15Input{Config: text, Groups: g2, Rounds: 1})
					if o.Err != "" {
						continue
					}
					note(fmt.Sprintf("edit %d of %s/%d/%d", e, j, gi, ti), o)
					edits++
				}
				if edits > 40 {
					break
				}
			}
		}
	}
	res.AddStat("single_component_edits", int64(edits))
	res.AddStat("distinct_targets_seen", int64(len(idToHash)))
	res.Viol = dedupeV(res.Viol)
	if len(res.Viol) > 0 {
		res.Witness = map[string]interface{}{"config": text, "groups": groups, "trace": trace}
	}
	if idx < 2 {
		var ids []string
		for id, h := range idToHash {
			ids = append(ids, fmt.Sprintf("%d <- %s", h, id))
		}
		sort.Strings(ids)
		if len(ids) > 6 {
			ids = ids[:6]
		}
		res.Sample = map[string]interface{}{"groups": groups, "hashes": ids}
	}
	return res
}

func sameMap(a, b map[string]string) bool {
	if len(a) != len(b) {
		return false
	}
	for k, v := range a {
		if b[k] != v {
			return false
		}
	}
	return true
}

func setOf(o *c15Out) string {
	var s []string
	for h, id := range o.ByHash {
		s = append(s, fmt.Sprintf("%d=%s", h, id))
	}
	sort.Strings(s)
	return fmt.Sprint(s)
}

func init() {
	core.RegisterSub("c15child", c15Child)
	core.Register(&core.Prop{
		ID:    "C15",
		Level: "exploration",
		Rule: "case = generated configuration (1-4 scrapeable jobs with relabel programs over meta labels) + generated target groups per job (ports present/absent, IPv6 literals, group vs target labels, duplicates inside and across groups, targets a rule drops, digit-leading label names) run through the real TargetsDiscovery; " +
			"observations: first round, 3 repeated rounds, 3 permutations (order; group labels pushed down; common labels lifted to the group), 1-3 fresh processes, and up to 40 single-component edits (a label value, a param, the path, the scheme, the address, a reserved __tmp label that is not part of the URL) of individual targets; " +
			"oracle: across ALL observations of the case the relation hash <-> (shipped labels, URL) is a bijection, the by-hash table has one key per distinct target, and the equal-input observations yield the same set; " +
			"non-trivial = at least 2 distinct active targets; distinct = hash of configuration text and groups",
		Assumptions: []string{"a target's identity is taken as (labels kvass ships for it, scrape URL of the Prometheus target object)"},
		NumCases: func(tier string) int {
			if tier == "thorough" {
				return 5000
			}
			return 300
		},
		Run:           runC15,
		MinNontrivial: 50,
	})
}
