// Package e4 is the configuration engine: configuration hash (C16), target hash (C15),
// label/URL equivalence with the vendored Prometheus (C02) and the generated file (C11).
package e4

import (
	"bytes"
	"encoding/base64"
	"encoding/json"
	"fmt"
	"io"
	"net/http"
	"net/http/httptest"
	"net/url"
	"os"
	"os/exec"
	"path/filepath"
	"strings"
	"sync"
	"sync/atomic"
	"time"

	config_util "github.com/prometheus/common/config"
	k8sd "github.com/prometheus/prometheus/discovery/kubernetes"

	"github.com/prometheus/prometheus/model/labels"
	"kvassverif/internal/cfggen"
	"kvassverif/internal/core"
	"kvassverif/internal/e3"
	"kvassverif/internal/sc"
	"tkestack.io/kvass/pkg/prom"
	"tkestack.io/kvass/pkg/shard"
	"tkestack.io/kvass/pkg/target"
)

func clipS(s string, n int) string {
	if len(s) > n {
		return s[:n] + "..."
	}
	return s
}

func hashOf(text string) (string, error) {
	m := prom.NewConfigManager()
	if err := m.ReloadFromRaw([]byte(text)); err != nil {
		return "", err
	}
	return m.ConfigInfo().ConfigHash, nil
}

func clone(s *cfggen.Spec) *cfggen.Spec {
	b, _ := json.Marshal(s)
	n := &cfggen.Spec{}
	_ = json.Unmarshal(b, n)
	return n
}

// edit is one single-setting change; ok=false when it does not apply to this spec.
type edit struct {
	Class string
	Apply func(s *cfggen.Spec) bool
}

func other(cur string, a, b string) string {
	if cur == a {
		return b
	}
	return a
}

func relabelEdits(prefix string, get func(s *cfggen.Spec) *[]cfggen.Relabel) []edit {
	return []edit{
		{prefix + "/regex", func(s *cfggen.Spec) bool {
			rs := get(s)
			if rs == nil || len(*rs) == 0 {
				return false
			}
			r := &(*rs)[0]
			if r.Regex == "" {
				r.Regex = "(.+)x"
			} else {
				r.Regex = r.Regex + "x?y"
			}
			return true
		}},
		{prefix + "/regex-last-rule", func(s *cfggen.Spec) bool {
			rs := get(s)
			if rs == nil || len(*rs) < 2 {
				return false
			}
			r := &(*rs)[len(*rs)-1]
			if r.Regex == "" {
				r.Regex = "prefix(.*)"
			} else {
				r.Regex = "(?:" + r.Regex + ")|zzz"
			}
			return true
		}},
		{prefix + "/source-labels", func(s *cfggen.Spec) bool {
			rs := get(s)
			if rs == nil || len(*rs) == 0 {
				return false
			}
			(*rs)[0].Source = append((*rs)[0].Source, "extra_source")
			return true
		}},
		{prefix + "/target-label", func(s *cfggen.Spec) bool {
			rs := get(s)
			if rs == nil {
				return false
			}
			for i := range *rs {
				if (*rs)[i].Target != "" {
					(*rs)[i].Target += "_2"
					return true
				}
			}
			return false
		}},
		{prefix + "/replacement", func(s *cfggen.Spec) bool {
			rs := get(s)
			if rs == nil {
				return false
			}
			for i := range *rs {
				if (*rs)[i].Action == "" {
					(*rs)[i].Replacement = "changed-$1"
					return true
				}
			}
			return false
		}},
		{prefix + "/action", func(s *cfggen.Spec) bool {
			rs := get(s)
			if rs == nil {
				return false
			}
			for i := range *rs {
				switch (*rs)[i].Action {
				case "keep":
					(*rs)[i].Action = "drop"
					return true
				case "drop":
					(*rs)[i].Action = "keep"
					return true
				}
			}
			return false
		}},
		{prefix + "/separator", func(s *cfggen.Spec) bool {
			rs := get(s)
			if rs == nil || len(*rs) == 0 {
				return false
			}
			(*rs)[0].Separator = other((*rs)[0].Separator, "|", "/")
			return true
		}},
		{prefix + "/add-rule", func(s *cfggen.Spec) bool {
			rs := get(s)
			if rs == nil {
				return false
			}
			*rs = append(*rs, cfggen.Relabel{Regex: "added_.*", Action: "labeldrop"})
			return true
		}},
		{prefix + "/remove-rule", func(s *cfggen.Spec) bool {
			rs := get(s)
			if rs == nil || len(*rs) == 0 {
				return false
			}
			*rs = (*rs)[1:]
			return true
		}},
	}
}

func authEdits(prefix string, get func(s *cfggen.Spec) *cfggen.Auth) []edit {
	return []edit{
		{prefix + "/secret", func(s *cfggen.Spec) bool {
			a := get(s)
			if a == nil || a.Secret == "" {
				return false
			}
			a.Secret += "-rotated"
			return true
		}},
		{prefix + "/username", func(s *cfggen.Spec) bool {
			a := get(s)
			if a == nil || !(a.Kind == "basic" || a.Kind == "basic+tls" || a.Kind == "oauth2" || a.Kind == "tls") {
				return false
			}
			a.User += "2"
			return true
		}},
		{prefix + "/add-credentials", func(s *cfggen.Spec) bool {
			a := get(s)
			if a == nil || a.Kind != "none" {
				return false
			}
			*a = cfggen.Auth{Kind: "basic", User: "newuser", Secret: "S3CR3T-added"}
			return true
		}},
		{prefix + "/remove-credentials", func(s *cfggen.Spec) bool {
			a := get(s)
			if a == nil || a.Kind == "none" {
				return false
			}
			*a = cfggen.Auth{Kind: "none"}
			return true
		}},
	}
}

func boolp(b bool) *bool { return &b }

func c16Edits() []edit {
	es := []edit{
		{"global/scrape_interval", func(s *cfggen.Spec) bool { s.Interval = other(s.Interval, "2m", "3m"); return true }},
		{"global/scrape_timeout", func(s *cfggen.Spec) bool { s.Timeout = other(s.Timeout, "7s", "8s"); return true }},
		{"global/evaluation_interval", func(s *cfggen.Spec) bool { s.EvalInterval = other(s.EvalInterval, "45s", "50s"); return true }},
		{"rule_files/add", func(s *cfggen.Spec) bool {
			s.RuleFiles = append(s.RuleFiles, "/etc/prometheus/more/*.yml")
			return true
		}},
		{"rule_files/remove", func(s *cfggen.Spec) bool {
			if len(s.RuleFiles) == 0 {
				return false
			}
			s.RuleFiles = s.RuleFiles[1:]
			return true
		}},
		{"alerting/add-section", func(s *cfggen.Spec) bool {
			if s.Alerting != nil {
				return false
			}
			s.Alerting = &cfggen.Alerting{Managers: []cfggen.AlertManager{{Targets: []string{"new-am.example:9093"}}}}
			return true
		}},
		{"alerting/manager-target", func(s *cfggen.Spec) bool {
			if s.Alerting == nil || len(s.Alerting.Managers) == 0 {
				return false
			}
			s.Alerting.Managers[0].Targets[0] = "moved-" + s.Alerting.Managers[0].Targets[0]
			return true
		}},
		{"alerting/manager-scheme", func(s *cfggen.Spec) bool {
			if s.Alerting == nil || len(s.Alerting.Managers) == 0 {
				return false
			}
			if s.Alerting.Managers[0].Scheme == "https" {
				s.Alerting.Managers[0].Scheme = "http"
			} else {
				s.Alerting.Managers[0].Scheme = "https"
			}
			return true
		}},
		{"alerting/manager-path-prefix", func(s *cfggen.Spec) bool {
			if s.Alerting == nil || len(s.Alerting.Managers) == 0 {
				return false
			}
			s.Alerting.Managers[0].PathPrefix = other(s.Alerting.Managers[0].PathPrefix, "/x", "/y")
			return true
		}},
		{"alerting/manager-timeout", func(s *cfggen.Spec) bool {
			if s.Alerting == nil || len(s.Alerting.Managers) == 0 {
				return false
			}
			s.Alerting.Managers[0].Timeout = other(s.Alerting.Managers[0].Timeout, "3s", "4s")
			return true
		}},
		{"remote_write/add", func(s *cfggen.Spec) bool {
			s.RemoteWrite = append(s.RemoteWrite, cfggen.Remote{URL: "https://added.example/write"})
			return true
		}},
		{"remote_write/remove", func(s *cfggen.Spec) bool {
			if len(s.RemoteWrite) == 0 {
				return false
			}
			s.RemoteWrite = s.RemoteWrite[1:]
			return true
		}},
		{"remote_write/url", func(s *cfggen.Spec) bool {
			if len(s.RemoteWrite) == 0 {
				return false
			}
			s.RemoteWrite[0].URL += "/v2"
			return true
		}},
		{"remote_write/url-host", func(s *cfggen.Spec) bool {
			if len(s.RemoteWrite) == 0 {
				return false
			}
			s.RemoteWrite[0].URL = strings.Replace(s.RemoteWrite[0].URL, "https://", "https://eu.", 1)
			return true
		}},
		{"remote_write/name", func(s *cfggen.Spec) bool {
			if len(s.RemoteWrite) == 0 {
				return false
			}
			s.RemoteWrite[0].Name = other(s.RemoteWrite[0].Name, "renamed", "renamed2")
			return true
		}},
		{"remote_write/remote_timeout", func(s *cfggen.Spec) bool {
			if len(s.RemoteWrite) == 0 {
				return false
			}
			s.RemoteWrite[0].Timeout = other(s.RemoteWrite[0].Timeout, "11s", "12s")
			return true
		}},
		{"remote_read/add", func(s *cfggen.Spec) bool {
			s.RemoteRead = append(s.RemoteRead, cfggen.Remote{URL: "https://added.example/read"})
			return true
		}},
		{"remote_read/url", func(s *cfggen.Spec) bool {
			if len(s.RemoteRead) == 0 {
				return false
			}
			s.RemoteRead[0].URL += "/v2"
			return true
		}},
		{"remote_read/read_recent", func(s *cfggen.Spec) bool {
			if len(s.RemoteRead) == 0 {
				return false
			}
			if s.RemoteRead[0].ReadRecent != nil && *s.RemoteRead[0].ReadRecent {
				s.RemoteRead[0].ReadRecent = boolp(false)
			} else {
				s.RemoteRead[0].ReadRecent = boolp(true)
			}
			return true
		}},
		{"remote_read/required_matchers", func(s *cfggen.Spec) bool {
			if len(s.RemoteRead) == 0 {
				return false
			}
			s.RemoteRead[0].RequiredMatch = map[string]string{"cluster": other(s.RemoteRead[0].RequiredMatch["cluster"], "cX", "cY")}
			return true
		}},
		{"job/add", func(s *cfggen.Spec) bool {
			s.Jobs = append(s.Jobs, cfggen.Job{Name: "added_job", SDs: []cfggen.SD{{Kind: "static", Targets: []string{"x.example:1"}}}})
			return true
		}},
		{"job/remove", func(s *cfggen.Spec) bool {
			if len(s.Jobs) < 2 {
				return false
			}
			s.Jobs = s.Jobs[:len(s.Jobs)-1]
			return true
		}},
	}
	es = append(es, relabelEdits("alerting/alert_relabel_configs", func(s *cfggen.Spec) *[]cfggen.Relabel {
		if s.Alerting == nil {
			return nil
		}
		return &s.Alerting.Relabel
	})...)
	es = append(es, authEdits("alerting/manager-auth", func(s *cfggen.Spec) *cfggen.Auth {
		if s.Alerting == nil || len(s.Alerting.Managers) == 0 {
			return nil
		}
		return &s.Alerting.Managers[0].Auth
	})...)
	es = append(es, relabelEdits("remote_write/write_relabel_configs", func(s *cfggen.Spec) *[]cfggen.Relabel {
		if len(s.RemoteWrite) == 0 {
			return nil
		}
		return &s.RemoteWrite[0].WriteRelabel
	})...)
	es = append(es, authEdits("remote_write/auth", func(s *cfggen.Spec) *cfggen.Auth {
		if len(s.RemoteWrite) == 0 {
			return nil
		}
		return &s.RemoteWrite[0].Auth
	})...)
	es = append(es, authEdits("remote_read/auth", func(s *cfggen.Spec) *cfggen.Auth {
		if len(s.RemoteRead) == 0 {
			return nil
		}
		return &s.RemoteRead[0].Auth
	})...)
	// per job (first and last job)
	for _, which := range []string{"first", "last"} {
		which := which
		jobOf := func(s *cfggen.Spec) *cfggen.Job {
			if which == "last" {
				if len(s.Jobs) < 2 {
					return nil
				}
				return &s.Jobs[len(s.Jobs)-1]
			}
			return &s.Jobs[0]
		}
		p := "job-" + which
		je := func(class string, f func(j *cfggen.Job) bool) edit {
			return edit{p + "/" + class, func(s *cfggen.Spec) bool {
				j := jobOf(s)
				if j == nil {
					return false
				}
				return f(j)
			}}
		}
		es = append(es,
			je("job_name", func(j *cfggen.Job) bool { j.Name += "_renamed"; return true }),
			je("scheme", func(j *cfggen.Job) bool {
				if j.Scheme == "https" {
					j.Scheme = "http"
				} else {
					j.Scheme = "https"
				}
				return true
			}),
			je("metrics_path", func(j *cfggen.Job) bool {
				if j.MetricsPath == "/other" {
					j.MetricsPath = "/other2"
				} else {
					j.MetricsPath = "/other"
				}
				return true
			}),
			je("params/value", func(j *cfggen.Job) bool {
				for k := range j.Params {
					j.Params[k][0] += "_changed"
					return true
				}
				return false
			}),
			je("params/add-key", func(j *cfggen.Job) bool {
				if j.Params == nil {
					j.Params = map[string][]string{}
				}
				j.Params["added"] = []string{"1"}
				return true
			}),
			je("params/add-value", func(j *cfggen.Job) bool {
				for k := range j.Params {
					j.Params[k] = append(j.Params[k], "second")
					return true
				}
				return false
			}),
			je("scrape_interval", func(j *cfggen.Job) bool { j.Interval, j.Timeout = other(j.Interval, "47s", "48s"), "5s"; return true }),
			je("scrape_timeout", func(j *cfggen.Job) bool {
				if j.Interval == "" {
					j.Interval = "47s"
				}
				j.Timeout = other(j.Timeout, "3s", "4s")
				return true
			}),
			je("honor_labels", func(j *cfggen.Job) bool {
				j.HonorLabels = boolp(!(j.HonorLabels != nil && *j.HonorLabels))
				return true
			}),
			je("honor_timestamps", func(j *cfggen.Job) bool {
				j.HonorTimestamps = boolp(j.HonorTimestamps != nil && !*j.HonorTimestamps)
				return true
			}),
			je("sample_limit", func(j *cfggen.Job) bool { j.SampleLimit += 17; return true }),
			je("target_limit", func(j *cfggen.Job) bool { j.TargetLimit += 3; return true }),
			je("label_limit", func(j *cfggen.Job) bool { j.LabelLimit += 1; return true }),
			je("label_name_length_limit", func(j *cfggen.Job) bool { j.LabelNameLen += 1; return true }),
			je("label_value_length_limit", func(j *cfggen.Job) bool { j.LabelValueLen += 1; return true }),
			je("body_size_limit", func(j *cfggen.Job) bool { j.BodySizeLimit = other(j.BodySizeLimit, "3MB", "4MB"); return true }),
			je("proxy_url", func(j *cfggen.Job) bool {
				j.ProxyURL = other(j.ProxyURL, "http://proxy-a.example:3128", "http://proxy-b.example:3128")
				return true
			}),
			je("follow_redirects", func(j *cfggen.Job) bool {
				j.FollowRedirects = boolp(j.FollowRedirects != nil && !*j.FollowRedirects)
				return true
			}),
			je("sd/option", func(j *cfggen.Job) bool {
				if len(j.SDs) == 0 || j.SDs[0].Kind == "static" {
					return false
				}
				switch j.SDs[0].Kind {
				case "kubernetes":
					j.SDs[0].Option = other(j.SDs[0].Option, "ingress", "pod")
				case "http":
					j.SDs[0].Option += "/v2"
				default:
					j.SDs[0].Option = "changed-" + j.SDs[0].Option
				}
				return true
			}),
			je("sd/k8s-namespaces", func(j *cfggen.Job) bool {
				if len(j.SDs) == 0 || j.SDs[0].Kind != "kubernetes" {
					return false
				}
				j.SDs[0].Refresh = other(j.SDs[0].Refresh, "ns-a", "ns-b")
				return true
			}),
			je("sd/file-refresh", func(j *cfggen.Job) bool {
				if len(j.SDs) == 0 || j.SDs[0].Kind != "file" {
					return false
				}
				j.SDs[0].Refresh = other(j.SDs[0].Refresh, "2m", "3m")
				return true
			}),
			je("sd/static-target", func(j *cfggen.Job) bool {
				if len(j.SDs) == 0 || j.SDs[0].Kind != "static" {
					return false
				}
				j.SDs[0].Targets[0] = "other-" + j.SDs[0].Targets[0]
				return true
			}),
			je("sd/static-add-target", func(j *cfggen.Job) bool {
				if len(j.SDs) == 0 || j.SDs[0].Kind != "static" {
					return false
				}
				j.SDs[0].Targets = append(j.SDs[0].Targets, "one-more.example:9100")
				return true
			}),
			je("sd/static-label", func(j *cfggen.Job) bool {
				if len(j.SDs) == 0 || j.SDs[0].Kind != "static" {
					return false
				}
				if j.SDs[0].Labels == nil {
					j.SDs[0].Labels = map[string]string{}
				}
				j.SDs[0].Labels["env"] = other(j.SDs[0].Labels["env"], "qa", "qa2")
				return true
			}),
			je("sd/client-secret", func(j *cfggen.Job) bool {
				if len(j.SDs) == 0 || j.SDs[0].Auth.Secret == "" {
					return false
				}
				j.SDs[0].Auth.Secret += "-rotated"
				return true
			}),
			je("sd/client-username", func(j *cfggen.Job) bool {
				if len(j.SDs) == 0 || !(j.SDs[0].Auth.Kind == "basic" || j.SDs[0].Auth.Kind == "oauth2") {
					return false
				}
				j.SDs[0].Auth.User += "2"
				return true
			}),
			je("sd/add-section", func(j *cfggen.Job) bool {
				j.SDs = append(j.SDs, cfggen.SD{Kind: "dns", Option: "added.example"})
				return true
			}),
		)
		es = append(es, relabelEdits(p+"/relabel_configs", func(s *cfggen.Spec) *[]cfggen.Relabel {
			j := jobOf(s)
			if j == nil {
				return nil
			}
			return &j.Relabel
		})...)
		es = append(es, relabelEdits(p+"/metric_relabel_configs", func(s *cfggen.Spec) *[]cfggen.Relabel {
			j := jobOf(s)
			if j == nil {
				return nil
			}
			return &j.MetricRelabel
		})...)
		es = append(es, authEdits(p+"/auth", func(s *cfggen.Spec) *cfggen.Auth {
			j := jobOf(s)
			if j == nil {
				return nil
			}
			return &j.Auth
		})...)
	}
	return es
}

var c16Styles = []cfggen.Style{
	{Indent: 4}, {Indent: 2, Quote: 1}, {Indent: 2, Quote: 2}, {Indent: 2, Comments: true}, {Indent: 2, ReverseKey: true},
	{Indent: 2, FlowLists: true}, {Indent: 4, Quote: 1, Comments: true, ReverseKey: true, FlowLists: true},
}

func c16HashChild(args []string) int {
	b, err := io.ReadAll(os.Stdin)
	if err != nil {
		return 3
	}
	h, err := hashOf(string(b))
	if err != nil {
		fmt.Println("ERR " + err.Error())
		return 0
	}
	fmt.Println("HASH " + h)
	return 0
}

func childHash(self, text string) (string, error) {
	cmd := exec.Command(self, "c16hash")
	cmd.Stdin = strings.NewReader(text)
	var out bytes.Buffer
	cmd.Stdout = &out
	if err := cmd.Run(); err != nil {
		return "", err
	}
	s := strings.TrimSpace(out.String())
	if strings.HasPrefix(s, "HASH ") {
		return s[5:], nil
	}
	return "", fmt.Errorf("child: %s", s)
}

func runC16(w *core.WorkerCtx, idx int) *core.CaseResult {
	r := core.NewRng(w.Seed, 0xC16, uint64(idx))
	res := &core.CaseResult{}
	spec := cfggen.Gen(r, false)
	if r.Intn(2) == 0 && len(spec.Jobs) > 0 {
		// a long scalar with blanks beyond column 80 (a federation selector): where a YAML renderer may fold lines
		j := &spec.Jobs[r.Intn(len(spec.Jobs))]
		p2 := map[string][]string{}
		for k, v := range j.Params {
			p2[k] = v
		}
		p2["selector"] = []string{`{__name__=~"job:.*|node:.*|instance:.*", cluster="prod eu west 1", note="a long value with blanks that runs well past column eighty of the line"}`}
		j.Params = p2
	}
	base := cfggen.Render(spec, cfggen.Style{Indent: 2})
	h0, err := hashOf(base)
	if err != nil {
		res.Inconcl = "generated configuration rejected by the loader (generator defect): " + err.Error() + "\n" + base
		return res
	}
	res.Sig = fmt.Sprintf("%x", core.HashString(base))
	res.Nontrivial = true
	witness := func(kind, text string) {
		if res.Witness == nil {
			res.Witness = map[string]interface{}{"kind": kind, "base_config": base, "other_config": text, "base_hash": h0}
		}
	}
	// must differ
	for _, e := range c16Edits() {
		s2 := clone(spec)
		if !e.Apply(s2) {
			continue
		}
		t2 := cfggen.Render(s2, cfggen.Style{Indent: 2})
		if t2 == base {
			continue
		}
		h2, err := hashOf(t2)
		if err != nil {
			res.AddStat("edits_rejected_by_loader", 1)
			continue
		}
		res.Execs++
		res.AddStat("edits_must_differ", 1)
		res.AddSet("edit_classes", generic(e.Class))
		if h2 == h0 {
			res.Violate("C16/edit-invisible/"+generic(e.Class), "edit %s changes the configuration but the hash stays %s", e.Class, h0)
			witness("edit "+e.Class, t2)
		}
	}
	// must differ: a password embedded in a URL (user:password@host) is a secret setting like any other
	for _, up := range []struct {
		class string
		set   func(s *cfggen.Spec, pw string) bool
	}{
		{"remote_write/url-password", func(s *cfggen.Spec, pw string) bool {
			if len(s.RemoteWrite) == 0 {
				s.RemoteWrite = append(s.RemoteWrite, cfggen.Remote{})
			}
			s.RemoteWrite[0].URL = "https://writer:" + pw + "@rw.example/api/v1/write"
			return true
		}},
		{"remote_read/url-password", func(s *cfggen.Spec, pw string) bool {
			if len(s.RemoteRead) == 0 {
				s.RemoteRead = append(s.RemoteRead, cfggen.Remote{})
			}
			s.RemoteRead[0].URL = "https://reader:" + pw + "@rr.example/api/v1/read"
			return true
		}},
		{"job/proxy_url-password", func(s *cfggen.Spec, pw string) bool {
			if len(s.Jobs) == 0 {
				return false
			}
			s.Jobs[0].ProxyURL = "http://puser:" + pw + "@proxy.example:3128"
			return true
		}},
	} {
		a, b := clone(spec), clone(spec)
		if !up.set(a, "pw-one") || !up.set(b, "pw-two") {
			continue
		}
		ha, errA := hashOf(cfggen.Render(a, cfggen.Style{Indent: 2}))
		hb, errB := hashOf(cfggen.Render(b, cfggen.Style{Indent: 2}))
		if errA != nil || errB != nil {
			res.AddStat("edits_rejected_by_loader", 1)
			continue
		}
		res.Execs++
		res.AddStat("edits_must_differ", 1)
		res.AddSet("edit_classes", up.class)
		if ha == hb {
			res.Violate("C16/edit-invisible/"+up.class, "two configurations that differ only in the password inside a URL (%s) have the same hash %s", up.class, ha)
			witness("edit "+up.class, cfggen.Render(b, cfggen.Style{Indent: 2}))
		}
	}
	// must be equal: formatting
	for si, st := range c16Styles {
		t2 := cfggen.Render(spec, st)
		h2, err := hashOf(t2)
		if err != nil {
			res.Inconcl = fmt.Sprintf("style %d rendering rejected by the loader (generator defect): %v\n%s", si, err, t2)
			return res
		}
		res.Execs++
		res.AddStat("reformattings_must_be_equal", 1)
		if h2 != h0 {
			res.Violate("C16/hash-depends-on-formatting", "re-rendering in style %+v changes the hash %s -> %s", st, h0, h2)
			witness(fmt.Sprintf("style %+v", st), t2)
		}
	}
	// must be equal: external labels
	for k := 0; k < 3; k++ {
		s2 := clone(spec)
		switch k {
		case 0:
			s2.ExternalLabels = map[string]string{"cluster": "zz", "replica": "r9", "extra": "x"}
		case 1:
			s2.ExternalLabels = nil
		case 2:
			if s2.ExternalLabels == nil {
				s2.ExternalLabels = map[string]string{}
			}
			s2.ExternalLabels["region"] = "eu"
		}
		t2 := cfggen.Render(s2, cfggen.Style{Indent: 2})
		h2, err := hashOf(t2)
		if err != nil {
			continue
		}
		res.Execs++
		res.AddStat("external_label_changes_must_be_equal", 1)
		if h2 != h0 {
			res.Violate("C16/hash-depends-on-external-labels", "changing only external labels changes the hash %s -> %s", h0, h2)
			witness("external labels", t2)
		}
	}
	// must be equal: a global section that holds nothing but external labels, no global section, an empty one
	{
		var hs []string
		var texts []string
		for k := 0; k < 4; k++ {
			s2 := clone(spec)
			s2.Interval, s2.Timeout, s2.EvalInterval, s2.ExternalLabels = "", "", "", nil
			switch k {
			case 0:
				s2.ExternalLabels = map[string]string{"cluster": "only-thing-in-global"}
			case 1:
				s2.GlobalForm = "omitted"
			case 2:
				s2.GlobalForm = "empty"
			case 3:
				s2.ExternalLabels = map[string]string{"replica": "r1", "zone": "z"}
			}
			t2 := cfggen.Render(s2, cfggen.Style{Indent: 2})
			h2, err := hashOf(t2)
			if err != nil {
				hs = nil
				break
			}
			hs, texts = append(hs, h2), append(texts, t2)
		}
		for k := 1; k < len(hs); k++ {
			res.Execs++
			res.AddStat("global_section_forms_must_be_equal", 1)
			if hs[k] != hs[0] {
				res.Violate("C16/hash-depends-on-external-labels", "a global section holding only external labels hashes to %s; the same configuration with %s hashes to %s", hs[0], []string{"", "no global section", "an empty global section", "other external labels only"}[k], hs[k])
				witness("global section form", texts[k])
			}
		}
	}
	// same content loaded from a FILE (as the coordinator does) and from raw bytes (as a sidecar gets it)
	if idx%2 == 0 {
		d := filepath.Join(w.Scratch, fmt.Sprintf("c16-file-%d", idx), "etc", "prometheus")
		_ = os.MkdirAll(d, 0755)
		f := filepath.Join(d, "prometheus.yml")
		if err := os.WriteFile(f, []byte(base), 0644); err == nil {
			m := prom.NewConfigManager()
			if err := m.ReloadFromFile(f); err != nil {
				res.Violate("C16/file-load-fails", "the configuration loads from raw bytes but not from a file: %v", err)
			} else {
				res.Execs++
				res.AddStat("file_vs_raw_hashes", 1)
				if hf := m.ConfigInfo().ConfigHash; hf != h0 {
					res.Violate("C16/hash-depends-on-load-path", "the same bytes hash to %s when loaded from %s and to %s when pushed as raw content", hf, f, h0)
					witness("file vs raw", base)
				}
			}
		}
		os.RemoveAll(filepath.Join(w.Scratch, fmt.Sprintf("c16-file-%d", idx)))
	}
	// same content hashed by several managers of one process AT THE SAME TIME (coordinator reloads and pushes
	// are served by concurrent HTTP handlers; a sidecar process may hold several managers): same hash
	if idx%4 == 0 {
		var wg sync.WaitGroup
		var badMu sync.Mutex
		bad := ""
		for g := 0; g < 8; g++ {
			wg.Add(1)
			go func() {
				defer wg.Done()
				m := prom.NewConfigManager()
				for i := 0; i < 12; i++ {
					if err := m.ReloadFromRaw([]byte(base)); err != nil {
						continue
					}
					if h := m.ConfigInfo().ConfigHash; h != h0 {
						badMu.Lock()
						bad = h
						badMu.Unlock()
					}
				}
			}()
		}
		wg.Wait()
		res.Execs++
		res.AddStat("concurrent_hash_rounds", 1)
		if bad != "" {
			res.Violate("C16/hash-differs-under-concurrent-reloads", "eight managers reloading the same text at the same time: one computed %s, the content hashes to %s", bad, h0)
			witness("concurrent reloads", base)
		}
	}
	// same content, other processes and a sidecar
	if idx%8 == 0 {
		for k := 0; k < 3; k++ {
			hc, err := childHash(w.Self, base)
			if err != nil {
				res.Inconcl = "hash child: " + err.Error()
				return res
			}
			res.Execs++
			res.AddStat("cross_process_hashes", 1)
			if hc != h0 {
				res.Violate("C16/hash-differs-across-processes", "another process computes %s for the same text, this one %s", hc, h0)
				witness("cross-process", base)
			}
		}
		dir := filepath.Join(w.Scratch, fmt.Sprintf("c16-%d", idx))
		in, err := sc.New(sc.Options{StoreDir: dir})
		if err == nil {
			if err := in.PushConfig(base); err != nil {
				res.Inconcl = "sidecar rejected the configuration: " + err.Error()
			} else if rt, err := in.Runtime(); err == nil {
				res.Execs++
				res.AddStat("sidecar_runtimeinfo_hashes", 1)
				if rt.ConfigHash != h0 {
					res.Violate("C16/sidecar-reports-other-hash", "sidecar reports %s for the configuration the coordinator hashes to %s", rt.ConfigHash, h0)
				}
			}
		}
		os.RemoveAll(dir)
	}
	if idx%8 == 4 {
		c16Credentials(w, idx, r, res)
	}
	c16Wired(w, idx, r, spec, res)
	res.Viol = dedupeV(res.Viol)
	if idx < 2 {
		res.Sample = map[string]interface{}{"config": base, "hash": h0}
	}
	return res
}

// c16Credentials: "reported in sync exactly when it runs the coordinator's configuration" - observed at the
// wire. A sidecar that reports the hash of configuration Y after a push that changed ONLY a secret of a job
// must scrape that job's targets with Y's credentials from then on.
func c16Credentials(w *core.WorkerCtx, idx int, r *core.Rng, res *core.CaseResult) {
	var mu sync.Mutex
	var seen []string
	srv := httptest.NewServer(http.HandlerFunc(func(rw http.ResponseWriter, rq *http.Request) {
		mu.Lock()
		seen = append(seen, rq.Header.Get("Authorization"))
		mu.Unlock()
		rw.Header().Set("Content-Type", "text/plain; version=0.0.4")
		io.WriteString(rw, "up 1\n")
	}))
	defer srv.Close()
	addr := strings.TrimPrefix(srv.URL, "http://")
	kind := []string{"bearer_token", "authorization", "basic_auth"}[r.Intn(3)]
	cfg := func(secret string) (string, string) {
		base := "global:\n  scrape_interval: 15s\nscrape_configs:\n- job_name: other\n- job_name: sec\n"
		switch kind {
		case "bearer_token":
			return base + "  bearer_token: " + secret + "\n", "Bearer " + secret
		case "authorization":
			return base + "  authorization:\n    type: Token\n    credentials: " + secret + "\n", "Token " + secret
		}
		return base + "  basic_auth:\n    username: scraper\n    password: " + secret + "\n", "Basic " + base64.StdEncoding.EncodeToString([]byte("scraper:"+secret))
	}
	dir := filepath.Join(w.Scratch, fmt.Sprintf("c16-cred-%d", idx))
	defer os.RemoveAll(dir)
	in, err := sc.New(sc.Options{StoreDir: dir})
	if err != nil {
		res.Inconcl = "sidecar: " + err.Error()
		return
	}
	const h = uint64(4242)
	tg := &target.Target{Hash: h, Series: 1, Labels: []labels.Label{{Name: "__address__", Value: addr}, {Name: "__metrics_path__", Value: "/metrics"}, {Name: "__scheme__", Value: "http"}, {Name: "instance", Value: addr}, {Name: "job", Value: "sec"}}}
	scrape := func() {
		q := url.Values{}
		q.Set("_jobName", "sec")
		q.Set("_hash", fmt.Sprint(h))
		q.Set("_scheme", "http")
		in.Proxy.ServeHTTP(httptest.NewRecorder(), httptest.NewRequest("GET", "http://"+addr+"/metrics?"+q.Encode(), nil))
	}
	for step, secret := range []string{"first-" + fmt.Sprint(idx), "second-" + fmt.Sprint(idx), "third-" + fmt.Sprint(idx)} {
		text, wantHeader := cfg(secret)
		if err := in.PushConfig(text); err != nil {
			res.Inconcl = "push: " + err.Error()
			return
		}
		if step == 0 {
			if err := in.UpdateTargets(map[string][]*target.Target{"sec": {tg}}); err != nil {
				res.Inconcl = "assign: " + err.Error()
				return
			}
		}
		want, _ := hashOf(text)
		rt, err := in.Runtime()
		if err != nil || rt.ConfigHash != want {
			continue // not reported in sync: judged elsewhere
		}
		mu.Lock()
		seen = nil
		mu.Unlock()
		scrape()
		res.Execs++
		res.AddStat("scrapes_after_a_secret_only_change", 1)
		mu.Lock()
		got := append([]string{}, seen...)
		mu.Unlock()
		if len(got) != 1 || got[0] != wantHeader {
			res.Violate("C16/in-sync-but-scraping-with-other-credentials/"+kind, "configuration version %d differs from the previous one only in the %s secret of job sec; the sidecar reports its hash (in sync), but the scrape of that job's target carried Authorization %q instead of %q", step+1, kind, got, wantHeader)
			if res.Witness == nil {
				res.Witness = map[string]interface{}{"kind": "credentials in use", "config": text}
			}
			return
		}
	}
}

const saDir = "/var/run/secrets/kubernetes.io/serviceaccount/"

// injectLikeCmd rewrites the parsed configuration in place the way the first reload callback of
// cmd/kvass (configInject / configInjectSidecar with --inject.kubernetes-sa-path, --inject.kubernetes-url) does.
func injectLikeCmd(info *prom.ConfigInfo) error {
	for _, job := range info.Config.ScrapeConfigs {
		for _, sd := range job.ServiceDiscoveryConfigs {
			if ksd, ok := sd.(*k8sd.SDConfig); ok && ksd.APIServer.URL == nil {
				u, _ := url.Parse("https://injected-apiserver.example:6443")
				ksd.APIServer = config_util.URL{URL: u}
			}
		}
		if job.HTTPClientConfig.BearerTokenFile == saDir+"token" {
			job.HTTPClientConfig.BearerTokenFile = "/custom/sa/token"
		}
		if a := job.HTTPClientConfig.Authorization; a != nil && a.CredentialsFile == saDir+"token" {
			a.CredentialsFile = "/custom/sa/token"
		}
	}
	return nil
}

// c16Wired: the hash inside processes wired as cmd/kvass wires them - a reload callback that rewrites
// the parsed configuration in place runs before everything else - over reloads and extra-config
// updates (stop-scrape reason set and cleared). The hash must stay the one of the content.
func c16Wired(w *core.WorkerCtx, idx int, r *core.Rng, spec *cfggen.Spec, res *core.CaseResult) {
	s2 := clone(spec)
	// make sure the callback has something to rewrite in half of the cases
	mode := r.Intn(4)
	if mode < 2 && len(s2.Jobs) > 0 {
		s2.Jobs[r.Intn(len(s2.Jobs))].Auth = cfggen.Auth{Kind: []string{"satoken", "sacreds"}[mode]}
	}
	text := cfggen.Render(s2, cfggen.Style{Indent: 2})
	want, err := hashOf(text)
	if err != nil {
		res.AddStat("wired_configs_rejected_by_loader", 1)
		return
	}
	m := prom.NewConfigManager()
	m.AddReloadCallbacks(injectLikeCmd)
	type step struct {
		name string
		do   func() error
	}
	steps := []step{
		{"reload", func() error { return m.ReloadFromRaw([]byte(text)) }},
		{"stop reason set", func() error {
			return m.UpdateExtraConfig(prom.ExtraConfig{StopScrapeReason: "disk of prometheus is full"})
		}},
		{"same stop reason again", func() error {
			return m.UpdateExtraConfig(prom.ExtraConfig{StopScrapeReason: "disk of prometheus is full"})
		}},
		{"stop reason cleared", func() error { return m.UpdateExtraConfig(prom.ExtraConfig{}) }},
		{"reload of the same content", func() error { return m.ReloadFromRaw([]byte(text)) }},
		{"stop reason set after the second reload", func() error { return m.UpdateExtraConfig(prom.ExtraConfig{StopScrapeReason: "x"}) }},
	}
	for _, st := range steps {
		if err := st.do(); err != nil {
			res.Violate("C16/wired/step-fails", "%s: %v", st.name, err)
			return
		}
		res.Execs++
		res.AddStat("wired_in_process_hashes", 1)
		if got := m.ConfigInfo().ConfigHash; got != want {
			res.Violate("C16/wired/hash-changes-without-content-change", "manager with an in-place rewriting reload callback (as cmd/kvass registers), after %q: hash %s, the content hashes to %s", st.name, got, want)
			if res.Witness == nil {
				res.Witness = map[string]interface{}{"kind": "wired in-process", "config": text, "step": st.name}
			}
			break
		}
	}
	// two overlapping pushes (HTTP handler goroutines, no lock in the manager): the push of the OLD content has
	// published it and is held inside the first reload callback; the push of the NEW content runs to
	// completion; the old push resumes. Whatever hash the manager reports afterwards must be the hash of
	// the configuration the components downstream were last given - otherwise the shard is reported in
	// sync while it runs something else.
	{
		oldText := cfggen.Render(spec, cfggen.Style{Indent: 2})
		if _, err := hashOf(oldText); err == nil && oldText != text {
			m2 := prom.NewConfigManager()
			gate, entered := make(chan struct{}), make(chan struct{})
			var hold atomic.Bool
			var lastMu sync.Mutex
			var lastHash, lastRaw string
			m2.AddReloadCallbacks(
				func(ci *prom.ConfigInfo) error {
					if hold.CompareAndSwap(true, false) {
						close(entered)
						<-gate
					}
					return nil
				},
				func(ci *prom.ConfigInfo) error { // stands for scrape manager / injector: what the process really runs
					lastMu.Lock()
					lastHash, lastRaw = ci.ConfigHash, string(ci.RawContent)
					lastMu.Unlock()
					return nil
				})
			hold.Store(true)
			done := make(chan error, 1)
			go func() { done <- m2.ReloadFromRaw([]byte(oldText)) }()
			select {
			case <-entered:
				err2 := m2.ReloadFromRaw([]byte(text))
				close(gate)
				err1 := <-done
				if err1 == nil && err2 == nil {
					res.Execs++
					res.AddStat("overlapping_pushes", 1)
					lastMu.Lock()
					rep := m2.ConfigInfo()
					if rep.ConfigHash != lastHash || string(rep.RawContent) != lastRaw {
						res.Violate("C16/wired/reported-hash-is-not-of-the-running-configuration", "two overlapping pushes (old content held in the first reload callback, new content pushed meanwhile): the manager reports hash %s, the components downstream were last given the configuration with hash %s", rep.ConfigHash, lastHash)
						if res.Witness == nil {
							res.Witness = map[string]interface{}{"kind": "overlapping pushes", "old": oldText, "new": text}
						}
					}
					lastMu.Unlock()
				}
			case <-time.After(30 * time.Second):
				close(gate)
				res.Inconcl = "held reload callback was not reached"
				return
			}
		}
	}
	// the real sidecar process with --inject.kubernetes-sa-path
	if idx%16 != 0 {
		return
	}
	bin := filepath.Join(os.Getenv("VERIF_ROOT"), "bin", "kvass")
	if _, err := os.Stat(bin); err != nil {
		res.Inconcl = "kvass binary not built: " + err.Error()
		return
	}
	var tsdb int64
	var reloadFail int32
	fake := httptest.NewServer(http.HandlerFunc(func(rw http.ResponseWriter, rq *http.Request) {
		rw.Header().Set("Content-Type", "application/json")
		if strings.HasSuffix(rq.URL.Path, "/-/reload") && atomic.LoadInt32(&reloadFail) > 0 {
			rw.WriteHeader(500)
			io.WriteString(rw, `{"status":"error","error":"couldn't load configuration"}`)
			return
		}
		if strings.HasSuffix(rq.URL.Path, "/status/tsdb") {
			atomic.AddInt64(&tsdb, 1)
			io.WriteString(rw, `{"status":"success","data":{"headStats":{"numSeries":0}}}`)
			return
		}
		io.WriteString(rw, `{"status":"success"}`)
	}))
	defer fake.Close()
	dir := filepath.Join(w.Scratch, fmt.Sprintf("c16-real-%d", idx))
	defer os.RemoveAll(dir)
	rs, err := e3.StartRealSidecar(bin, dir, fake.URL, func() int64 { return atomic.LoadInt64(&tsdb) }, "--inject.kubernetes-sa-path=/custom/sa")
	if err != nil {
		res.Inconcl = "real sidecar: " + err.Error()
		return
	}
	defer rs.Kill()
	post := func(path string, body interface{}) error {
		b, _ := json.Marshal(body)
		resp, err := http.Post(rs.API()+path, "application/json", bytes.NewReader(b))
		if err != nil {
			return err
		}
		defer resp.Body.Close()
		out, _ := io.ReadAll(resp.Body)
		if resp.StatusCode != 200 || !strings.Contains(string(out), `"success"`) {
			return fmt.Errorf("code %d: %s", resp.StatusCode, clipS(string(out), 300))
		}
		return nil
	}
	hash := func() (string, error) {
		resp, err := http.Get(rs.API() + "/api/v1/shard/runtimeinfo/")
		if err != nil {
			return "", err
		}
		defer resp.Body.Close()
		var out struct {
			Data shard.RuntimeInfo `json:"data"`
		}
		if err := json.NewDecoder(resp.Body).Decode(&out); err != nil {
			return "", err
		}
		return out.Data.ConfigHash, nil
	}
	// the reference is what a process that has done nothing but hash computes (the coordinator never renders
	// a generated file; this worker process, which also runs in-process sidecars, might share hidden global state with them)
	if hc, err := childHash(w.Self, text); err == nil {
		want = hc
	}
	s3 := clone(s2)
	if len(s3.Jobs) > 0 {
		s3.Jobs[0].Interval, s3.Jobs[0].Timeout = "43s", "9s"
	}
	text3 := cfggen.Render(s3, cfggen.Style{Indent: 2})
	want3, err3 := childHash(w.Self, text3)
	rsteps := []step{
		{"configuration pushed", func() error { return post("/api/v1/status/config/", &shard.UpdateConfigRequest{RawContent: text}) }},
		{"stop reason set", func() error {
			return post("/api/v1/status/extra_config/", &prom.ExtraConfig{StopScrapeReason: "disk of prometheus is full"})
		}},
		{"stop reason cleared", func() error { return post("/api/v1/status/extra_config/", &prom.ExtraConfig{}) }},
		{"same configuration pushed again", func() error { return post("/api/v1/status/config/", &shard.UpdateConfigRequest{RawContent: text}) }},
		{"stop reason set again", func() error { return post("/api/v1/status/extra_config/", &prom.ExtraConfig{StopScrapeReason: "x"}) }},
	}
	if err3 == nil {
		// a later configuration version reaches a sidecar process that has already rendered generated files
		rsteps = append(rsteps, step{"a second configuration version pushed", func() error {
			want = want3
			return post("/api/v1/status/config/", &shard.UpdateConfigRequest{RawContent: text3})
		}})
	}
	for _, st := range rsteps {
		if err := st.do(); err != nil {
			res.Inconcl = fmt.Sprintf("real sidecar, %s: %v", st.name, err)
			return
		}
		got, err := hash()
		if err != nil {
			res.Inconcl = "real sidecar runtimeinfo: " + err.Error()
			return
		}
		res.Execs++
		res.AddStat("real_sidecar_process_hashes", 1)
		if got != want {
			res.Violate("C16/real-sidecar/hash-differs-from-content-hash", "real `kvass sidecar --inject.kubernetes-sa-path=...`, after %q: runtimeinfo reports hash %s; the coordinator hashes the same content to %s, so the shard is reported out of sync although it runs the coordinator's configuration", st.name, got, want)
			if res.Witness == nil {
				res.Witness = map[string]interface{}{"kind": "real sidecar process", "config": text, "step": st.name}
			}
			return
		}
	}
	// "reported in sync exactly when it runs the coordinator's configuration": the shard runs version 2 (text3) and is
	// in sync. An operator's version 1 (text) is pushed while Prometheus refuses the reload - the push fails - and the
	// operator reverts the coordinator to version 2 before it ever succeeded. The coordinator does what it does every
	// cycle: it pushes its configuration if the shard reports another hash. Afterwards a shard that reports the
	// coordinator's hash must run the coordinator's configuration: its generated file is the one of version 2.
	if err3 == nil && len(s3.Jobs) > 0 && text != text3 {
		outFile := filepath.Join(dir, "out.yaml")
		file3, err := os.ReadFile(outFile)
		if err != nil {
			return
		}
		atomic.StoreInt32(&reloadFail, 1)
		perr := post("/api/v1/status/config/", &shard.UpdateConfigRequest{RawContent: text})
		atomic.StoreInt32(&reloadFail, 0)
		if perr == nil {
			return // the reload is not what this version exercises
		}
		got, err := hash()
		if err != nil {
			res.Inconcl = "real sidecar runtimeinfo: " + err.Error()
			return
		}
		pushed := false
		if got != want3 {
			if err := post("/api/v1/status/config/", &shard.UpdateConfigRequest{RawContent: text3}); err != nil {
				res.Inconcl = "real sidecar, push after the failed one: " + err.Error()
				return
			}
			pushed = true
			if got, err = hash(); err != nil {
				res.Inconcl = "real sidecar runtimeinfo: " + err.Error()
				return
			}
		}
		res.Execs++
		res.AddStat("real_sidecar_pushes_refused_by_prometheus_then_reverted", 1)
		fileNow, _ := os.ReadFile(outFile)
		if got == want3 && string(fileNow) != string(file3) {
			res.Violate("C16/real-sidecar/in-sync-but-runs-another-configuration", "real sidecar: a push of another version failed in Prometheus' reload; afterwards the shard reports the coordinator's hash %s (configuration pushed again: %v) but its generated file is not the one it had when it ran the coordinator's configuration (%d vs %d bytes)", got, pushed, len(fileNow), len(file3))
			if res.Witness == nil {
				res.Witness = map[string]interface{}{"kind": "real sidecar process", "coordinator_config": text3, "refused_config": text, "generated_now": clipS(string(fileNow), 3000)}
			}
		} else if got != want3 {
			res.Violate("C16/real-sidecar/hash-differs-from-content-hash", "real sidecar: after the coordinator's configuration was pushed again (following a push that failed in Prometheus' reload) runtimeinfo reports hash %s, the coordinator's is %s", got, want3)
		}
	}
}

// generic strips the job position so that findings are keyed by the kind of setting.
func generic(class string) string {
	class = strings.Replace(class, "job-first/", "job/", 1)
	class = strings.Replace(class, "job-last/", "job/", 1)
	return class
}

func dedupeV(vs []core.Violation) []core.Violation {
	seen := map[string]bool{}
	var out []core.Violation
	for _, v := range vs {
		if seen[v.Sig] {
			continue
		}
		seen[v.Sig] = true
		out = append(out, v)
	}
	return out
}

func init() {
	core.RegisterSub("c16hash", c16HashChild)
	core.Register(&core.Prop{
		ID:    "C16",
		Level: "exploration",
		Rule: "case = one generated configuration (1-4 jobs with scheme/path/params/intervals/honor flags/limits/relabel and metric-relabel programs/auth kinds/SD kinds, global section, rule files, alerting, remote write/read with secrets) hashed by the real prom.ConfigManager; " +
			"for it every applicable entry of a catalogue of ~150 single-setting edits (each scalar, list entry added/removed, regex of scrape/metric/alert/write relabel rules, secrets, usernames, SD options, remote URLs) must change the hash; 7 re-renderings (indentation, quoting style, comments, key order, flow lists) and 3 external-label changes must not; every second case also loads the same bytes from a file in a nested directory (as the coordinator does; the generator emits relative rule-file and file-discovery paths) and compares with the raw-content hash (as a sidecar computes it); every 8th case also hashes the same text in 3 fresh processes and through a sidecar's /runtimeinfo/; " +
			"plus processes wired as cmd/kvass wires them: a ConfigManager whose first reload callback rewrites the parsed configuration in place (service-account paths, kubernetes api_server) goes through reload / stop reason set / same again / cleared / reload / set, and every 16th case the real `kvass sidecar --inject.kubernetes-sa-path` process goes through the same steps over HTTP - the hash must stay the hash of the content; " +
			"a global section that holds nothing but external labels, no global section and an empty one must hash alike; " +
			"on the real sidecar process also: a push of another version that fails in Prometheus' reload, after which the coordinator (still at its version) pushes if the reported hash differs - a shard that then reports the coordinator's hash must have the generated file of the coordinator's version; " +
			"non-trivial = every case whose base configuration loads; distinct = hash of the base text",
		Assumptions: []string{
			"pure re-ordering of lists is not asserted either way",
			"the generator stays inside what config.Load of the vendored Prometheus accepts; an edit the loader rejects is skipped and counted",
		},
		NumCases: func(tier string) int {
			if tier == "thorough" {
				return 6000
			}
			return 400
		},
		Run:           runC16,
		MinNontrivial: 100,
	})
}
