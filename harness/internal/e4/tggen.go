package e4

import (
	"context"
	"fmt"
	"github.com/prometheus/prometheus/config"
	"sort"
	"strings"
	"time"

	"github.com/prometheus/common/model"
	"github.com/prometheus/prometheus/discovery/targetgroup"

	"kvassverif/internal/cfggen"
	"kvassverif/internal/core"
	"kvassverif/internal/sc"
	"tkestack.io/kvass/pkg/discovery"
	"tkestack.io/kvass/pkg/prom"
)

// TG is a serialisable target group.
type TG struct {
	Source  string              `json:"source"`
	Targets []map[string]string `json:"targets"`
	Labels  map[string]string   `json:"labels"`
}

func (g TG) toProm() *targetgroup.Group {
	tg := &targetgroup.Group{Source: g.Source, Labels: model.LabelSet{}}
	for k, v := range g.Labels {
		tg.Labels[model.LabelName(k)] = model.LabelValue(v)
	}
	for _, t := range g.Targets {
		ls := model.LabelSet{}
		for k, v := range t {
			ls[model.LabelName(k)] = model.LabelValue(v)
		}
		tg.Targets = append(tg.Targets, ls)
	}
	return tg
}

func toPromGroups(gs []TG) []*targetgroup.Group {
	var out []*targetgroup.Group
	for _, g := range gs {
		out = append(out, g.toProm())
	}
	return out
}

var addrPool = []string{"10.0.0.1:9100", "10.0.0.2:9100", "10.0.0.2:9101", "node-a.example", "node-b.example:80", "node-c.example:443",
	"[2001:db8::1]:9100", "[2001:db8::2]", "2001:db8::3", "10.0.0.9"}

// GenGroups draws target groups for a job: addresses with and without port, IPv6 literals,
// group-level and per-target labels, meta labels the generated relabel rules refer to,
// duplicates inside and across groups, targets some rules drop, digit-leading label names.
func GenGroups(r *core.Rng, job string) []TG {
	var gs []TG
	ng := 1 + r.Intn(3)
	for g := 0; g < ng; g++ {
		tg := TG{Source: fmt.Sprintf("%s/%d", job, g), Labels: map[string]string{}}
		if r.Intn(2) == 0 {
			tg.Labels["env"] = r.PickS("prod", "dev", "stage")
		}
		if r.Intn(3) == 0 {
			tg.Labels["__meta_kubernetes_namespace"] = r.PickS("default", "monitoring")
		}
		if r.Intn(4) == 0 {
			tg.Labels["tmp_group"] = "x"
		}
		nt := 1 + r.Intn(4)
		for t := 0; t < nt; t++ {
			ls := map[string]string{"__address__": addrPool[r.Intn(len(addrPool))]}
			if r.Intn(3) == 0 {
				ls["__meta_kubernetes_pod_name"] = fmt.Sprintf("pod-%d", r.Intn(4))
			}
			if r.Intn(3) == 0 {
				ls["__meta_kubernetes_pod_label_app"] = r.PickS("web", "db")
			}
			if r.Intn(5) == 0 {
				ls["__meta_kubernetes_pod_label_1app"] = "digit-leading" // labelmap turns this into the invalid name "1app"
			}
			if r.Intn(5) == 0 {
				ls["__meta_kubernetes_pod_label_app_kubernetes_io_name"] = "n"
			}
			if r.Intn(4) == 0 {
				ls["__meta_kubernetes_pod_annotation_prometheus_io_scrape"] = r.PickS("true", "false")
			}
			if r.Intn(5) == 0 {
				ls["__meta_kubernetes_pod_annotation_prometheus_io_path"] = r.PickS("/stats/prometheus", "/m")
			}
			if r.Intn(6) == 0 {
				ls["__meta_kubernetes_pod_annotation_prometheus_io_scheme"] = r.PickS("https", "http")
			}
			if r.Intn(5) == 0 {
				ls["__meta_kubernetes_pod_annotation_prometheus_io_port"] = r.PickS("8080", "9102")
			}
			if r.Intn(4) == 0 {
				ls["env"] = r.PickS("prod", "dev")
			}
			if r.Intn(6) == 0 {
				ls["instance"] = r.PickS("custom-instance", "i-1")
			}
			if r.Intn(8) == 0 {
				ls["__metrics_path__"] = r.PickS("/from/sd", "/from/sd", "/from//sd", "/from/sd/./x")
			}
			if r.Intn(8) == 0 {
				ls["__scheme__"] = r.PickS("https", "http")
			}
			if r.Intn(8) == 0 {
				ls["__param_target"] = r.PickS("probe-me.example", "other.example")
			}
			if r.Intn(8) == 0 {
				ls["secret_token"] = "abc"
			}
			if r.Intn(10) == 0 {
				ls["job"] = "job-from-sd" // discovery may override the job label; routing must still use the job name
			}
			if r.Intn(6) == 0 {
				ls["__tmp_zone"] = r.PickS("a", "b") // a reserved label that is part of neither the public labels nor the URL
			}
			if r.Intn(12) == 0 {
				ls["empty_value"] = ""
			}
			if r.Intn(12) == 0 {
				ls["__param_debug"] = "from-sd"
			}
			if r.Intn(14) == 0 { // a target Prometheus cannot build (reported as a per-target failure)
				switch r.Intn(3) {
				case 0:
					ls["__scheme__"] = "ftp"
					ls["__address__"] = "no-port.example"
				case 1:
					ls["bad_value"] = "\xff\xfe not utf8"
				case 2:
					ls["__address__"] = "http://url-instead-of-host.example/x"
				}
			}
			tg.Targets = append(tg.Targets, ls)
			if r.Intn(8) == 0 { // the same target again, differing in a reserved non-URL label only
				tw := map[string]string{}
				for k, v := range ls {
					tw[k] = v
				}
				tw["__tmp_twin"] = "2"
				tg.Targets = append(tg.Targets, tw)
			}
			if r.Intn(6) == 0 { // the same target discovered twice with different discovered labels (one entry per container port): equal after relabeling
				nd := map[string]string{}
				for k, v := range ls {
					nd[k] = v
				}
				nd["__meta_kubernetes_pod_container_port_name"] = r.PickS("metrics", "http")
				tg.Targets = append(tg.Targets, nd)
			}
			if r.Intn(8) == 0 { // two DIFFERENT targets whose labels read alike once names and values are glued together with a separator
				sep := r.PickS(";", ",", "=", "\x00", "\n", "\",\"", "|", " ")
				a, b := map[string]string{}, map[string]string{}
				for k, v := range ls {
					a[k], b[k] = v, v
				}
				a["sepa"] = "web" + sep + "sepb=prod"
				if sep == "=" {
					a["sepa"] = "web=sepb=prod"
				}
				b["sepa"], b["sepb"] = "web", "prod"
				tg.Targets = append(tg.Targets, a, b)
			}
			if r.Intn(10) == 0 { // two DIFFERENT targets with the same URL and more than 1 KiB of labels, differing in a label that sorts first (or last)
				blob := strings.Repeat("doc-"+fmt.Sprint(r.Intn(3))+"-", 150+r.Intn(100))
				a, b := map[string]string{}, map[string]string{}
				for k, v := range ls {
					a[k], b[k] = v, v
				}
				big, small := "zz_owner_doc", "aa_zone"
				if r.Intn(3) == 0 {
					big, small = "aa_owner_doc", "zz_zone"
				}
				a[big], b[big] = blob, blob
				a[small], b[small] = "zone-a", "zone-b"
				tg.Targets = append(tg.Targets, a, b)
			}
			if r.Intn(6) == 0 { // exact duplicate inside the group
				dup := map[string]string{}
				for k, v := range ls {
					dup[k] = v
				}
				tg.Targets = append(tg.Targets, dup)
			}
		}
		gs = append(gs, tg)
		if r.Intn(5) == 0 { // the same group again under another source: duplicates across groups
			cp := TG{Source: tg.Source + "-copy", Labels: tg.Labels, Targets: tg.Targets}
			gs = append(gs, cp)
		}
	}
	return gs
}

// discover runs the real TargetsDiscovery over the groups and returns the active and dropped tables.
func discover(cfgText string, groups map[string][]TG, rounds int) (*discovery.TargetsDiscovery, *prom.ConfigManager, error) {
	cm := prom.NewConfigManager()
	d := discovery.New(sc.Quiet)
	cm.AddReloadCallbacks(d.ApplyConfig)
	if err := cm.ReloadFromRaw([]byte(cfgText)); err != nil {
		return nil, nil, err
	}
	ctx, cancel := context.WithCancel(context.Background())
	defer cancel()
	ch := make(chan map[string][]*targetgroup.Group)
	go func() { _ = d.Run(ctx, ch) }()
	for i := 0; i < rounds; i++ {
		in := map[string][]*targetgroup.Group{}
		for j, gs := range groups {
			in[j] = toPromGroups(gs)
		}
		select {
		case ch <- in:
		case <-time.After(30 * time.Second):
			return nil, nil, fmt.Errorf("discovery did not accept the update")
		}
		select {
		case <-d.ActiveTargetsChan():
		case <-time.After(30 * time.Second):
			return nil, nil, fmt.Errorf("discovery did not publish the update")
		}
	}
	return d, cm, nil
}

// identity renders what a target IS: the labels kvass ships plus the URL.
func identity(t *discovery.SDTargets) string {
	var ls []string
	for _, l := range t.ShardTarget.Labels {
		ls = append(ls, fmt.Sprintf("%q=%q", l.Name, l.Value)) // quoted: no label value can imitate a name/value boundary
	}
	sort.Strings(ls)
	return strings.Join(ls, ",") + " @ " + t.PromTarget.URL().String()
}

// identityFor is identity with the URL built from a job section the harness loaded itself.
func identityFor(t *discovery.SDTargets, jc *config.ScrapeConfig) string {
	if jc == nil {
		return identity(t)
	}
	var ls []string
	for _, l := range t.ShardTarget.Labels {
		ls = append(ls, fmt.Sprintf("%q=%q", l.Name, l.Value))
	}
	sort.Strings(ls)
	return strings.Join(ls, ",") + " @ " + t.ShardTarget.URL(jc).String()
}

var _ = cfggen.Style{}
