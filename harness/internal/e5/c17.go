package e5

import (
	"context"
	"fmt"
	"sort"
	"strconv"
	"strings"
	"sync"
	"time"

	"github.com/anishathalye/porcupine"
	"github.com/prometheus/prometheus/discovery/targetgroup"

	"kvassverif/internal/core"
	"tkestack.io/kvass/pkg/discovery"
)

// job names are case-sensitive: "JA" is another job than "ja"
var c17Jobs = []string{"ja", "jb", "jc", "JA"}

func c17Config(jobs []string, noClient ...string) string {
	return c17ConfigStrict(jobs, nil, noClient...)
}

// strict: jobs whose relabel rule also drops targets labelled dropme="maybe" (a reload that changes only the
// content of a kept job)
func c17ConfigStrict(jobs []string, strict []string, noClient ...string) string {
	var sb strings.Builder
	sb.WriteString("global:\n  scrape_interval: 15s\nscrape_configs:\n")
	for _, j := range jobs {
		rx := "yes"
		for _, s := range strict {
			if s == j {
				rx = "yes|maybe"
			}
		}
		fmt.Fprintf(&sb, "- job_name: %s\n  relabel_configs:\n  - source_labels: [dropme]\n    regex: \"%s\"\n    action: drop\n", j, rx)
		for _, nc := range noClient {
			if nc == j {
				// the job stays configured, but its HTTP client cannot be built at this reload (CA file unreadable,
				// e.g. a secret being rotated): the scrape manager skips the job, discovery and explorer must not
				sb.WriteString("  scheme: https\n  tls_config:\n    ca_file: /nonexistent/ca-being-rotated.pem\n")
			}
		}
	}
	if len(jobs) == 0 {
		sb.WriteString("- job_name: placeholder\n")
	}
	return sb.String()
}

// target address encodes (job, version, k): a read identifies the update it observed.
func c17Group(job string, version, nActive, nDrop int) *targetgroup.Group {
	return c17GroupMaybe(job, version, nActive, nDrop, 0)
}

func nMaybe(size int) int { return (size + 1) % 3 }

func c17GroupMaybe(job string, version, nActive, nDrop, nMaybe int) *targetgroup.Group {
	var ts []map[string]string
	for k := 0; k < nMaybe; k++ {
		ts = append(ts, map[string]string{"__address__": fmt.Sprintf("%s-v%d-m%d.example:9100", job, version, k), "tid": fmt.Sprintf("%s/%d/m%d", job, version, k), "dropme": "maybe"})
	}
	for k := 0; k < nActive; k++ {
		ts = append(ts, map[string]string{"__address__": fmt.Sprintf("%s-v%d-t%d.example:9100", job, version, k), "tid": fmt.Sprintf("%s/%d/%d", job, version, k)})
	}
	for k := 0; k < nDrop; k++ {
		ts = append(ts, map[string]string{"__address__": fmt.Sprintf("%s-v%d-d%d.example:9100", job, version, k), "tid": fmt.Sprintf("%s/%d/d%d", job, version, k), "dropme": "yes"})
	}
	return group(job+"/0", ts)
}

// view of one read: job -> sorted tids
type tableView map[string][]string

func viewOf(m map[string][]*discovery.SDTargets, dropped bool) tableView {
	v := tableView{}
	for j, ts := range m {
		l := []string{}
		for _, t := range ts {
			if dropped {
				l = append(l, t.PromTarget.DiscoveredLabels().Get("tid"))
			} else {
				l = append(l, t.ShardTarget.Labels.Get("tid"))
			}
		}
		sort.Strings(l)
		v[j] = l
	}
	return v
}

func (v tableView) String() string {
	var ks []string
	for k := range v {
		ks = append(ks, k)
	}
	sort.Strings(ks)
	var sb strings.Builder
	for _, k := range ks {
		fmt.Fprintf(&sb, "%s=%v;", k, v[k])
	}
	return sb.String()
}

func expectTids(job string, version, nActive, nDrop int) (act, drop []string) {
	act, drop = []string{}, []string{}
	for k := 0; k < nActive; k++ {
		act = append(act, fmt.Sprintf("%s/%d/%d", job, version, k))
	}
	for k := 0; k < nDrop; k++ {
		drop = append(drop, fmt.Sprintf("%s/%d/d%d", job, version, k))
	}
	sort.Strings(act)
	sort.Strings(drop)
	return
}

type c17Step struct {
	Kind    string         `json:"kind"` // update | reload
	Jobs    []string       `json:"jobs"` // update: jobs contained; reload: configured jobs afterwards
	Version int            `json:"version,omitempty"`
	Sizes   map[string]int `json:"sizes,omitempty"`    // per job: number of active targets (dropped = size % 3)
	NoCli   []string       `json:"noClient,omitempty"` // reload: configured jobs whose HTTP client cannot be built this time
	Strict  []string       `json:"strict,omitempty"`   // reload: jobs whose rule also drops the dropme="maybe" targets
	Plain   bool           `json:"plain,omitempty"`    // update without dropme="maybe" targets (the concurrent monitor counts targets per version)
}

func c17GenSteps(r *core.Rng, n int) []c17Step {
	var steps []c17Step
	cfg := []string{"ja", "jb"}
	steps = append(steps, c17Step{Kind: "reload", Jobs: cfg})
	ver := 0
	firstRounds := 2
	for len(steps) < n {
		if r.Intn(4) == 0 {
			// reload: add / remove / keep jobs
			var nj []string
			for _, j := range c17Jobs {
				if r.Intn(3) > 0 {
					nj = append(nj, j)
				}
			}
			if len(nj) == 0 {
				nj = []string{c17Jobs[r.Intn(len(c17Jobs))]}
			}
			prevCfg := cfg
			cfg = nj
			st := c17Step{Kind: "reload", Jobs: nj}
			if r.Intn(3) == 0 {
				st.NoCli = []string{nj[r.Intn(len(nj))]}
			}
			if r.Intn(3) == 0 {
				// a reload that only changes the content of kept jobs: same job names as before
				st.Jobs, nj = append([]string{}, prevCfg...), append([]string{}, prevCfg...)
				cfg = nj
			}
			for _, j := range nj {
				if r.Intn(2) == 0 {
					st.Strict = append(st.Strict, j)
				}
			}
			steps = append(steps, st)
			continue
		}
		ver++
		st := c17Step{Kind: "update", Version: ver, Sizes: map[string]int{}}
		for _, j := range c17Jobs {
			in := false
			for _, c := range cfg {
				if c == j {
					in = true
				}
			}
			// the discovery manager sends the sets of all configured jobs; the first rounds may be partial;
			// now and then it still carries a job that was just removed from the configuration
			if (in && (firstRounds <= 0 || r.Intn(2) == 0)) || (!in && r.Intn(6) == 0) {
				st.Jobs = append(st.Jobs, j)
				st.Sizes[j] = r.Intn(5)
			}
		}
		firstRounds--
		if len(st.Jobs) == 0 {
			st.Jobs = []string{cfg[0]}
			st.Sizes[cfg[0]] = r.Intn(5)
		}
		steps = append(steps, st)
	}
	return steps
}

// ---------------------------------------------------------------------------
// monitor 1: sequential reference model

type c17Model struct {
	strict   map[string]bool
	cfg      map[string]bool
	active   map[string][]string
	drop     map[string][]string
	explorer map[string]bool // tids
}

func (m *c17Model) apply(st c17Step) {
	switch st.Kind {
	case "reload":
		nc := map[string]bool{}
		for _, j := range st.Jobs {
			nc[j] = true
		}
		for j := range m.active {
			if !nc[j] {
				delete(m.active, j)
				delete(m.drop, j)
			}
		}
		for tid := range m.explorer {
			if !nc[strings.SplitN(tid, "/", 2)[0]] {
				delete(m.explorer, tid)
			}
		}
		m.cfg = nc
		m.strict = map[string]bool{}
		for _, j := range st.Strict {
			m.strict[j] = true
		}
	case "update":
		ne := map[string]bool{}
		for _, j := range st.Jobs {
			if !m.cfg[j] {
				continue
			}
			a, d := expectTids(j, st.Version, st.Sizes[j], st.Sizes[j]%3)
			for k := 0; k < nMaybe(st.Sizes[j]); k++ {
				// translated under the configuration of the latest reload
				tid := fmt.Sprintf("%s/%d/m%d", j, st.Version, k)
				if m.strict[j] {
					d = append(d, tid)
				} else {
					a = append(a, tid)
				}
			}
			sort.Strings(a)
			sort.Strings(d)
			m.active[j], m.drop[j] = a, d
			for _, t := range a {
				ne[t] = true
			}
		}
		m.explorer = ne
	}
}

func (m *c17Model) view(drop bool) tableView {
	v := tableView{}
	src := m.active
	if drop {
		src = m.drop
	}
	for j, l := range src {
		v[j] = append([]string{}, l...)
	}
	return v
}

func stepGroups(st c17Step) map[string][]*targetgroup.Group {
	in := map[string][]*targetgroup.Group{}
	for _, j := range st.Jobs {
		nm := nMaybe(st.Sizes[j])
		if st.Plain {
			nm = 0
		}
		in[j] = []*targetgroup.Group{c17GroupMaybe(j, st.Version, st.Sizes[j], st.Sizes[j]%3, nm)}
	}
	return in
}

func runStep(p *pipeline, st c17Step) error {
	switch st.Kind {
	case "reload":
		return p.cm.ReloadFromRaw([]byte(c17ConfigStrict(st.Jobs, st.Strict, st.NoCli...)))
	default:
		return p.update(stepGroups(st))
	}
}

func runC17Sequential(w *core.WorkerCtx, idx int, res *core.CaseResult) {
	r := core.NewRng(w.Seed, 0xC17, uint64(idx))
	steps := c17GenSteps(r, 12+r.Intn(30))
	p := newPipeline(0)
	defer p.close()
	m := &c17Model{cfg: map[string]bool{}, active: map[string][]string{}, drop: map[string][]string{}, explorer: map[string]bool{}}
	hashOfTid := map[string]uint64{}
	type snap struct {
		step        int
		act, drop   map[string][]*discovery.SDTargets
		byHash      map[uint64]*discovery.SDTargets
		vAct, vDrop string
		nByHash     int
	}
	var snaps []snap
	for si := 0; si < len(steps); si++ {
		st := steps[si]
		// a run of updates may arrive back to back, as the discovery manager sends them: nobody waits
		// for the explorer in between; the state is judged after the last one
		nb := 1
		if st.Kind == "update" && r.Intn(3) == 0 {
			for si+nb < len(steps) && nb < 4 && steps[si+nb].Kind == "update" {
				nb++
			}
		}
		var err error
		if nb > 1 {
			var us []map[string][]*targetgroup.Group
			for _, b := range steps[si : si+nb] {
				us = append(us, stepGroups(b))
			}
			err = p.burst(us)
			res.AddStat("bursts_of_updates", 1)
		} else {
			err = runStep(p, st)
		}
		if err != nil {
			res.Violate("C17/step-did-not-complete", "step %d (%s %v): %v", si, st.Kind, st.Jobs, err)
			break
		}
		for _, b := range steps[si : si+nb] {
			m.apply(b)
			res.Execs++
			res.AddStat("sequential_steps", 1)
		}
		si += nb - 1
		st = steps[si]
		// read requests to the coordinator's API come first: reads must leave the tables alone
		if !w.Race {
			res.AddStat("api_read_requests", int64(p.apiReads()))
		}
		act, drop, byHash := p.disc.ActiveTargets(), p.disc.DropTargets(), p.disc.ActiveTargetsByHash()
		for h, t := range byHash {
			hashOfTid[t.ShardTarget.Labels.Get("tid")] = h
		}
		where := fmt.Sprintf("after step %d (%s jobs=%v v%d)", si, st.Kind, st.Jobs, st.Version)
		if got, want := viewOf(act, false).String(), m.view(false).String(); got != want {
			res.Violate("C17/active-set-wrong/"+st.Kind, "%s: active targets %s, expected %s", where, got, want)
		}
		if got, want := viewOf(drop, true).String(), m.view(true).String(); got != want {
			res.Violate("C17/dropped-set-wrong/"+st.Kind, "%s: dropped targets %s, expected %s", where, got, want)
		}
		var hv []string
		for _, t := range byHash {
			hv = append(hv, t.ShardTarget.Labels.Get("tid"))
		}
		sort.Strings(hv)
		var mv []string
		for _, l := range m.active {
			mv = append(mv, l...)
		}
		sort.Strings(mv)
		if fmt.Sprint(hv) != fmt.Sprint(mv) {
			res.Violate("C17/by-hash-set-wrong/"+st.Kind, "%s: by-hash table holds %v, expected %v", where, hv, mv)
		}
		// explorer: exactly the targets of the latest update (pruned by reloads)
		{
			for tid, h := range hashOfTid {
				got := p.exp.Get(h) != nil
				if got != m.explorer[tid] {
					res.Violate("C17/explorer-set-wrong/"+st.Kind, "%s: explorer knows target %s = %v, expected %v", where, tid, got, m.explorer[tid])
					break
				}
			}
		}
		snaps = append(snaps, snap{si, act, drop, byHash, viewOf(act, false).String(), viewOf(drop, true).String(), len(byHash)})
		// earlier snapshots must not have changed
		for _, s := range snaps {
			if viewOf(s.act, false).String() != s.vAct || viewOf(s.drop, true).String() != s.vDrop || len(s.byHash) != s.nByHash {
				res.Violate("C17/snapshot-mutated", "%s: the tables returned after step %d changed afterwards", where, s.step)
				break
			}
		}
		if len(res.Viol) > 0 {
			break
		}
	}
	if len(res.Viol) > 0 && res.Witness == nil {
		res.Witness = map[string]interface{}{"monitor": "sequential model", "steps": steps}
	}
	if idx < 1 {
		res.Sample = map[string]interface{}{"monitor": "sequential model", "steps": steps}
	}
}

// ---------------------------------------------------------------------------
// monitor 2: linearizability of reads against writes (porcupine)

type linIn struct {
	Op   string // update | reload | readActive | readDrop | readByHash
	Step c17Step
}

type linState struct {
	cfg string // sorted configured jobs, comma separated
	ver string // job=version; pairs sorted
}

func parseVer(s string) map[string]int {
	m := map[string]int{}
	for _, kv := range strings.Split(s, ",") {
		if kv == "" {
			continue
		}
		p := strings.SplitN(kv, "=", 2)
		n, _ := strconv.Atoi(p[1])
		m[p[0]] = n
	}
	return m
}

func fmtVer(m map[string]int) string {
	var ks []string
	for k := range m {
		ks = append(ks, k)
	}
	sort.Strings(ks)
	var sb []string
	for _, k := range ks {
		sb = append(sb, fmt.Sprintf("%s=%d", k, m[k]))
	}
	return strings.Join(sb, ",")
}

var linModel = porcupine.Model{
	Init: func() interface{} { return linState{} },
	Step: func(state, input, output interface{}) (bool, interface{}) {
		st := state.(linState)
		in := input.(linIn)
		switch in.Op {
		case "reload":
			js := append([]string{}, in.Step.Jobs...)
			sort.Strings(js)
			cfg := map[string]bool{}
			for _, j := range js {
				cfg[j] = true
			}
			v := parseVer(st.ver)
			for j := range v {
				if !cfg[j] {
					delete(v, j)
				}
			}
			return true, linState{cfg: strings.Join(js, ","), ver: fmtVer(v)}
		case "update":
			cfg := map[string]bool{}
			for _, j := range strings.Split(st.cfg, ",") {
				cfg[j] = true
			}
			v := parseVer(st.ver)
			for _, j := range in.Step.Jobs {
				if cfg[j] {
					v[j] = in.Step.Version
				}
			}
			return true, linState{cfg: st.cfg, ver: fmtVer(v)}
		default:
			return output.(string) == st.ver, st
		}
	},
	Equal: func(a, b interface{}) bool { return a.(linState) == b.(linState) },
	DescribeOperation: func(input, output interface{}) string {
		in := input.(linIn)
		if in.Op == "update" || in.Op == "reload" {
			return fmt.Sprintf("%s(%v v%d)", in.Op, in.Step.Jobs, in.Step.Version)
		}
		return fmt.Sprintf("%s -> %v", in.Op, output)
	},
}

// versionsSeen turns a table into job=version, or reports a torn read (two versions of one job / wrong size).
func versionsSeen(tids map[string][]string, sizes map[int]map[string]int, dropped bool) (string, string) {
	v := map[string]int{}
	for j, l := range tids {
		ver := -1
		for _, t := range l {
			p := strings.Split(t, "/")
			n, _ := strconv.Atoi(p[1])
			if ver != -1 && ver != n {
				return "", fmt.Sprintf("job %s shows targets of versions %d and %d in one read", j, ver, n)
			}
			ver = n
		}
		if ver == -1 {
			// an empty list: the version cannot be read off; resolved by the caller through sizes
			v[j] = -1
			continue
		}
		want := sizes[ver][j]
		if dropped {
			want = want % 3
		}
		if len(l) != want {
			return "", fmt.Sprintf("job %s shows %d targets of version %d, that update had %d", j, len(l), ver, want)
		}
		v[j] = ver
	}
	return fmtVer(v), ""
}

func runC17Linearizable(w *core.WorkerCtx, idx int, res *core.CaseResult) {
	r := core.NewRng(w.Seed, 0xC17B, uint64(idx))
	steps := c17GenSteps(r, 10+r.Intn(6))
	for i := range steps {
		steps[i].Plain, steps[i].Strict = true, nil
	}
	// every update gives every contained job at least one active and one dropped target, so that a read identifies the version
	sizes := map[int]map[string]int{}
	for i := range steps {
		if steps[i].Kind == "update" {
			for j := range steps[i].Sizes {
				steps[i].Sizes[j] = 1 + 3*r.Intn(2) // 1 or 4: both have size%3 == 1 dropped target
			}
			sizes[steps[i].Version] = steps[i].Sizes
		}
	}
	p := newPipeline(0)
	defer p.close()
	t0 := time.Now()
	now := func() int64 { return time.Since(t0).Nanoseconds() }
	var mu sync.Mutex
	var ops []porcupine.Operation
	var torn []string
	stop := make(chan struct{})
	var wg sync.WaitGroup
	nReaders := 4 + r.Intn(5)
	budget := 44 / nReaders
	for c := 0; c < nReaders; c++ {
		wg.Add(1)
		go func(c int) {
			defer wg.Done()
			rr := core.NewRng(w.Seed, 0xC17C, uint64(idx), uint64(c))
			for k := 0; k < budget; k++ {
				select {
				case <-stop:
					return
				default:
				}
				time.Sleep(time.Duration(rr.Intn(300)) * time.Microsecond)
				kind := rr.PickS("readActive", "readActive", "readDrop", "readByHash")
				call := now()
				tids := map[string][]string{}
				switch kind {
				case "readActive":
					for j, l := range viewOf(p.disc.ActiveTargets(), false) {
						tids[j] = l
					}
				case "readDrop":
					for j, l := range viewOf(p.disc.DropTargets(), true) {
						tids[j] = l
					}
				case "readByHash":
					for _, t := range p.disc.ActiveTargetsByHash() {
						tids[t.Job] = append(tids[t.Job], t.ShardTarget.Labels.Get("tid"))
					}
				}
				ret := now()
				out, tornMsg := versionsSeen(tids, sizes, kind == "readDrop")
				mu.Lock()
				if tornMsg != "" {
					torn = append(torn, kind+": "+tornMsg)
				} else {
					ops = append(ops, porcupine.Operation{ClientId: c + 1, Input: linIn{Op: kind}, Call: call, Output: out, Return: ret})
				}
				mu.Unlock()
			}
		}(c)
	}
	for si, st := range steps {
		call := now()
		err := runStep(p, st)
		ret := now()
		if err != nil {
			res.Violate("C17/step-did-not-complete", "step %d (%s): %v", si, st.Kind, err)
			break
		}
		mu.Lock()
		ops = append(ops, porcupine.Operation{ClientId: 0, Input: linIn{Op: st.Kind, Step: st}, Call: call, Output: "", Return: ret})
		mu.Unlock()
		time.Sleep(time.Duration(r.Intn(400)) * time.Microsecond)
	}
	close(stop)
	done := make(chan struct{})
	go func() { wg.Wait(); close(done) }()
	select {
	case <-done:
	case <-time.After(60 * time.Second):
		res.Violate("C17/read-did-not-return", "a reader did not return within 60 s")
		return
	}
	res.Execs++
	res.AddStat("histories", 1)
	res.AddStat("history_operations", int64(len(ops)))
	// by-hash reads only show non-empty jobs; empty lists cannot name a version: drop reads whose output has -1 or compare loosely
	var clean []porcupine.Operation
	for _, o := range ops {
		if s, ok := o.Output.(string); ok && strings.Contains(s, "=-1") {
			continue
		}
		if in := o.Input.(linIn); in.Op == "readByHash" {
			continue // a job with zero active targets is invisible there; judged by the sequential monitor
		}
		clean = append(clean, o)
	}
	if len(torn) > 0 {
		res.Violate("C17/torn-read", "%d reads mixed two updates of one job: %s", len(torn), torn[0])
	}
	result, info := porcupine.CheckOperationsVerbose(linModel, clean, 60*time.Second)
	switch result {
	case porcupine.Ok:
		res.AddStat("histories_linearizable", 1)
	case porcupine.Illegal:
		var desc []string
		sort.Slice(clean, func(i, j int) bool { return clean[i].Call < clean[j].Call })
		for _, o := range clean {
			desc = append(desc, fmt.Sprintf("c%d [%d..%d us] %s", o.ClientId, o.Call/1000, o.Return/1000, linModel.DescribeOperation(o.Input, o.Output)))
		}
		res.Violate("C17/not-linearizable", "history of %d operations (%d readers) has no linearization: some read returned a table that no order of the updates and reloads explains", len(clean), nReaders)
		res.Witness = map[string]interface{}{"monitor": "linearizability", "history": desc, "partial_linearizations": len(info.PartialLinearizations())}
	default:
		res.Inconcl = "porcupine timed out on a history of " + fmt.Sprint(len(clean)) + " operations"
	}
	if idx%2 == 1 && idx < 4 {
		var desc []string
		for i, o := range clean {
			if i >= 12 {
				break
			}
			desc = append(desc, fmt.Sprintf("c%d [%d..%d us] %s", o.ClientId, o.Call/1000, o.Return/1000, linModel.DescribeOperation(o.Input, o.Output)))
		}
		res.Sample = map[string]interface{}{"monitor": "linearizability", "readers": nReaders, "operations": len(clean), "first_operations": desc}
	}
}

// monitor 4: start-up waits for the first discovery round of every configured job
func runC17WaitInit(w *core.WorkerCtx, k int, res *core.CaseResult) {
	r := core.NewRng(w.Seed, 0xC17D, uint64(k))
	jobs := []string{"ja", "jb", "jc"}
	p := newPipeline(0)
	defer p.close()
	if err := p.cm.ReloadFromRaw([]byte(c17Config(jobs))); err != nil {
		res.Inconcl = "config: " + err.Error()
		return
	}
	// arrival time (ms) of each job's first round; one job may never report
	arrive := map[string]int{}
	for _, j := range jobs {
		arrive[j] = r.PickI(0, 150, 400, 900, 1300, 1900)
	}
	never := ""
	if k%4 == 3 {
		never = jobs[r.Intn(3)]
	}
	order := append([]string{}, jobs...)
	sort.Slice(order, func(a, b int) bool { return arrive[order[a]] < arrive[order[b]] })
	ctxTimeout := 6 * time.Second
	if never != "" {
		ctxTimeout = 2500 * time.Millisecond
	}
	ctx, cancel := context.WithTimeout(context.Background(), ctxTimeout)
	defer cancel()
	t0 := time.Now()
	var returned time.Time
	done := make(chan struct{})
	go func() {
		_ = p.disc.WaitInit(ctx)
		returned = time.Now()
		close(done)
	}()
	seen := map[string]bool{}
	var lastLo time.Time
	ver := 0
	for _, j := range order {
		if j == never {
			continue
		}
		if d := time.Duration(arrive[j])*time.Millisecond - time.Since(t0); d > 0 {
			time.Sleep(d)
		}
		seen[j] = true
		ver++
		in := map[string][]*targetgroup.Group{}
		for jj := range seen { // the discovery manager sends the sets of all jobs that reported so far
			in[jj] = []*targetgroup.Group{c17Group(jj, ver, 1+r.Intn(3), 0)}
		}
		lastLo = time.Now()
		if err := p.update(in); err != nil {
			res.Violate("C17/step-did-not-complete", "first-round update: %v", err)
			return
		}
	}
	select {
	case <-done:
	case <-time.After(15 * time.Second):
		res.Violate("C17/wait-init-hangs", "WaitInit did not return within 15 s (context timeout %v)", ctxTimeout)
		return
	}
	res.Execs++
	res.AddStat("wait_init_runs", 1)
	if never != "" {
		res.AddStat("wait_init_runs_with_silent_job", 1)
		if returned.Sub(t0) < ctxTimeout {
			res.Violate("C17/wait-init-returns-early", "job %s never had a discovery round, yet WaitInit returned after %d ms (before its %v timeout)", never, returned.Sub(t0).Milliseconds(), ctxTimeout)
		}
		return
	}
	if returned.Before(lastLo) {
		res.Violate("C17/wait-init-returns-early", "WaitInit returned %d ms after start, before the last job's first round was sent at %d ms (arrivals %v)", returned.Sub(t0).Milliseconds(), lastLo.Sub(t0).Milliseconds(), arrive)
	}
	if returned.Sub(lastLo) > 4*time.Second {
		res.Violate("C17/wait-init-late", "all jobs had reported at %d ms but WaitInit only returned at %d ms", lastLo.Sub(t0).Milliseconds(), returned.Sub(t0).Milliseconds())
	}
	if k < 1 {
		res.Sample = map[string]interface{}{"monitor": "wait-init", "first_round_arrivals_ms": arrive, "returned_ms": returned.Sub(t0).Milliseconds()}
	}
}

const c17WaitInitCases = 16

func runC17(w *core.WorkerCtx, idx int) *core.CaseResult {
	res := &core.CaseResult{Nontrivial: true}
	if main := c17Main(w.Tier); idx >= main+c17WaitInitCases {
		runC17Overlap(w, idx-main-c17WaitInitCases, res)
		res.Sig = fmt.Sprintf("overlap-%d", idx-main-c17WaitInitCases)
		res.Viol = dedupeByClass(res.Viol)
		return res
	}
	if main := c17Main(w.Tier); idx >= main {
		runC17WaitInit(w, idx-main, res)
		res.Sig = fmt.Sprintf("waitinit-%d", idx-main)
		res.Viol = dedupeByClass(res.Viol)
		return res
	}
	if idx%2 == 0 && !w.Race {
		runC17Sequential(w, idx, res)
		res.Sig = fmt.Sprintf("seq-%d", idx)
	} else {
		runC17Linearizable(w, idx, res)
		res.Sig = fmt.Sprintf("lin-%d", idx)
	}
	res.Viol = dedupeByClass(res.Viol)
	return res
}

func c17Main(tier string) int {
	if tier == "thorough" {
		return 20000
	}
	return 1000
}

func init() {
	core.Register(&core.Prop{
		ID:    "C17",
		Level: "exploration",
		Rule: "monitors over the real TargetsDiscovery + Explore wired as in cmd/kvass/coordinator.go, driven through the channel the Prometheus discovery manager would feed: " +
			"(1) even cases: a seed-determined sequence of 12-41 steps (full updates, partial first rounds, updates still carrying a just-removed job, reloads that add/remove/keep jobs over {ja,jb,jc,JA} (two names differ in case only), targets that relabeling drops) with ActiveTargets / DropTargets / ActiveTargetsByHash / Explore.Get compared to a reference model after every step and all earlier snapshots re-checked for mutation; " +
			"a third of the update runs in (1) are sent back to back (2-4 updates without waiting for the explorer) and judged after the last; " +
			"(2) odd cases: the same kind of steps from one writer with 4-8 concurrent reader goroutines; every update carries a unique version in its target ids, reads and writes are recorded with call/return times from one monotonic clock and the history (<= 60 operations) is checked with porcupine against a sequential map job->version in which a reload removes exactly the deleted jobs; torn reads (two versions of one job) are reported directly; " +
			"in (1) every reload draws per job whether its relabel rule also drops targets labelled dropme=maybe, one reload in three keeps the job names of the previous configuration (content-only reload), every update carries such targets, and the model translates each update under the latest reload;  " +
			"(5) 2/16 overlap cases: 200-350 jobs x 80-140 targets; six times a reload that keeps every job runs while an update of one job is sent 0-40 ms after the explorer's reload callback begins (signalled by a harness callback placed in front of it in the ConfigManager's list); once both returned, the explorer must track the update's targets and none of those it replaced; " +
			"(3) a -race pass over linearizability cases with attribution of reports to reader/writer pairs of the tables; (4) 16 start-up cases: WaitInit runs while the first rounds of three jobs arrive at scripted times (one job may stay silent): it must not return before every configured job had its first round (or before its context ends) and must return within bounded time afterwards; non-trivial = every case; distinct = case index per monitor",
		Assumptions: []string{
			"in monitors (1)-(4) updates and reloads are issued sequentially by one writer; monitor (5) overlaps one reload with one update and judges only the state after both have returned (both orders give the same table when the reload keeps every job)",
			"a write's interval is [send on the discovery channel, hand-over to the explorer]",
			"porcupine timeout => inconclusive",
		},
		NumCases:         func(tier string) int { return c17Main(tier) + c17WaitInitCases + c17OverlapCases(tier) },
		Run:              runC17,
		MinNontrivial:    100,
		CrashIsViolation: true,
		CrashSig:         "C17/crash",
		CaseTimeout:      180e9,
		RacePass: func(tier string) []int {
			n := 64
			if tier == "thorough" {
				n = 600
			}
			var l []int
			for i := 0; i < n; i++ {
				l = append(l, 2*i+1)
			}
			return l
		},
		RaceAttribute: func(rep core.RaceReport) (string, bool) {
			readers := []string{"TargetsDiscovery).ActiveTargets", "TargetsDiscovery).DropTargets", "TargetsDiscovery).ActiveTargetsByHash", "explore.(*Explore).Get"}
			writers := []string{"TargetsDiscovery).translateTargets", "TargetsDiscovery).ApplyConfig", "explore.(*Explore).UpdateTargets", "explore.(*Explore).ApplyConfig"}
			for _, rd := range readers {
				for _, wr := range writers {
					if rep.Sides(rd, wr) {
						return "C17/race-reader-writer", true
					}
				}
			}
			return "", false
		},
	})
}
