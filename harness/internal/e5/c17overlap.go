package e5

import (
	"fmt"
	"sync"
	"time"

	"github.com/prometheus/prometheus/discovery/targetgroup"

	"kvassverif/internal/core"
)

// Monitor 5: a configuration reload (HTTP handler goroutine of the coordinator) overlaps a discovery update
// (discovery goroutine). Whatever the interleaving, once both have returned the explorer tracks exactly the
// targets of the latest update (the jobs that update contained): with every job kept by the reload, both orders of
// the two operations end in the same table. The table is large (hundreds of jobs, tens of thousands of targets) so that the explorer's
// reload callback runs for tens of milliseconds; the update is sent 0-40 ms after that callback's turn begins.

const c17OverlapQuick, c17OverlapThorough = 2, 16

func c17OverlapCases(tier string) int {
	if tier == "thorough" {
		return c17OverlapThorough
	}
	return c17OverlapQuick
}

func runC17Overlap(w *core.WorkerCtx, k int, res *core.CaseResult) {
	r := core.NewRng(w.Seed, 0xC1705, uint64(k))
	nJobs, per := 200+r.Intn(150), 80+r.Intn(60)
	var jobs []string
	for j := 0; j < nJobs; j++ {
		jobs = append(jobs, fmt.Sprintf("job%03d", j))
	}
	p := newPipeline(0)
	defer p.close()
	turn := make(chan struct{}, 1)
	p.mu.Lock()
	p.beforeExplorerReload = func() {
		select {
		case turn <- struct{}{}:
		default:
		}
	}
	p.mu.Unlock()
	if err := p.cm.ReloadFromRaw([]byte(c17Config(jobs))); err != nil {
		res.Inconcl = "config: " + err.Error()
		return
	}
	hashOf := map[string]uint64{}
	learn := func() {
		for h, t := range p.disc.ActiveTargetsByHash() {
			hashOf[t.ShardTarget.Labels.Get("tid")] = h
		}
	}
	full := func(version int) map[string][]*targetgroup.Group {
		m := map[string][]*targetgroup.Group{}
		for _, j := range jobs {
			m[j] = []*targetgroup.Group{c17Group(j, version, per, 0)}
		}
		return m
	}
	attempts := 6
	for a := 0; a < attempts && len(res.Viol) == 0; a++ {
		ver := 100 * (a + 1)
		if err := p.update(full(ver)); err != nil {
			res.Inconcl = "update: " + err.Error()
			return
		}
		learn()
		select {
		case <-turn:
		default:
		}
		// the reload keeps every job (its text differs in one job's client settings only)
		delay := time.Duration(r.PickI(0, 0, 1, 3, 8, 20, 40)) * time.Millisecond
		victim := jobs[r.Intn(len(jobs))]
		var wg sync.WaitGroup
		var rerr, uerr error
		wg.Add(2)
		go func() {
			defer wg.Done()
			rerr = p.cm.ReloadFromRaw([]byte(c17Config(jobs, jobs[(a+1)%len(jobs)])))
		}()
		go func() {
			defer wg.Done()
			select {
			case <-turn:
			case <-time.After(60 * time.Second):
				uerr = fmt.Errorf("the reload never reached the explorer's callback")
				return
			}
			time.Sleep(delay)
			uerr = p.update(map[string][]*targetgroup.Group{victim: {c17Group(victim, ver+1, 7, 0)}})
		}()
		wg.Wait()
		if rerr != nil || uerr != nil {
			res.Inconcl = fmt.Sprintf("overlap attempt %d: reload %v, update %v", a, rerr, uerr)
			return
		}
		learn()
		res.Execs++
		res.AddStat("reloads_overlapped_by_an_update", 1)
		res.AddSet("overlap_delays_ms", fmt.Sprint(delay.Milliseconds()))
		// the latest update: the victim job has its 7 new targets, every other job its targets of this round
		act := p.disc.ActiveTargets()
		if got := len(act[victim]); got != 7 {
			res.Violate("C17/overlap/active-set-wrong", "attempt %d: after a reload overlapped by an update of job %s the active set of that job has %d targets, the update had 7", a, victim, got)
		}
		missing, stale := 0, 0
		newT, _ := expectTids(victim, ver+1, 7, 0)
		for _, tid := range newT {
			if h, ok := hashOf[tid]; !ok || p.exp.Get(h) == nil {
				missing++
			}
		}
		oldT, _ := expectTids(victim, ver, per, 0)
		for _, tid := range oldT {
			if h, ok := hashOf[tid]; ok && p.exp.Get(h) != nil {
				stale++
			}
		}
		if missing > 0 || stale > 0 {
			res.Violate("C17/overlap/explorer-set-wrong", "attempt %d: a reload (%d jobs kept, %d targets tracked) was overlapped by an update of job %s sent %v after the explorer's reload callback began; after both returned the explorer does not know %d of the update's 7 targets and still tracks %d of the %d targets the update replaced", a, nJobs, nJobs*per, victim, delay, missing, stale, per)
		}
		// the explorer tracks exactly the targets of the latest update, which contained the victim job only (sample)
		for s := 0; s < 60 && len(res.Viol) == 0; s++ {
			j := jobs[r.Intn(len(jobs))]
			if j == victim {
				continue
			}
			tid := fmt.Sprintf("%s/%d/%d", j, ver, r.Intn(per))
			if h, ok := hashOf[tid]; ok && p.exp.Get(h) != nil {
				res.Violate("C17/overlap/explorer-set-wrong", "attempt %d: after the overlapped reload the explorer still tracks target %s, which the latest update (job %s only) did not contain", a, tid, victim)
			}
		}
	}
	if len(res.Viol) > 0 {
		res.Witness = map[string]interface{}{"monitor": "reload overlapped by an update", "jobs": nJobs, "targets_per_job": per}
	}
}
