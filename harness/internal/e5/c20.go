package e5

import (
	"context"
	"encoding/json"
	"errors"
	"fmt"
	"net"
	"net/http"
	"net/http/httptest"
	"sort"
	"strconv"
	"strings"
	"sync"
	"time"

	"github.com/prometheus/client_golang/prometheus"
	"github.com/prometheus/prometheus/discovery/targetgroup"

	"kvassverif/internal/core"
	"kvassverif/internal/e3"
	"kvassverif/internal/e7"
	"kvassverif/internal/sc"
	"tkestack.io/kvass/pkg/api"
	"tkestack.io/kvass/pkg/coordinator"
	"tkestack.io/kvass/pkg/discovery"
	"tkestack.io/kvass/pkg/shard"
	"tkestack.io/kvass/pkg/target"
)

const retryInterval = 5 * time.Second // pkg/explore's unexported retry interval (real value; no hook)

type c20Target struct {
	ID       int    `json:"id"`
	Job      string `json:"job"`
	Prefix   int    `json:"failuresBeforeSuccess"`
	Latency  int    `json:"latencyMs"`
	FailKind string `json:"failKind"` // 500 | hangup (connection closed in the middle of the body) | reset (the same with a TCP reset) | 204
	Removal  string `json:"removal"`  // "" | remove | readd
	NSamples int    `json:"samples"`
}

type c20Case struct {
	Workers   int         `json:"workers"`
	Targets   []c20Target `json:"targets"`
	RemoveAt  int         `json:"removeAtMs"`
	ReaddAt   int         `json:"readdAtMs"`
	ReloadAt  int         `json:"reloadAtMs"`
	DropJobB  bool        `json:"reloadDropsJobB"`
	E2E       bool        `json:"endToEnd"`
	MaxPrefix int         `json:"maxPrefix"`
}

func c20NumCases(tier string) int {
	if tier == "thorough" {
		return 96
	}
	return 16
}

func c20Gen(w *core.WorkerCtx, idx int) *c20Case {
	r := core.NewRng(w.Seed, 0xC20, uint64(idx))
	c := &c20Case{MaxPrefix: 2}
	if w.Thorough() {
		c.MaxPrefix = 2 + idx%3
	}
	nT := r.PickI(30, 60, 120, 300)
	c.Workers = r.PickI(1, 4, 20, 200)
	lat := r.PickI(0, 5, 50, 300)
	// keep the first sweep over all targets within ~4 s of wall time
	for nT*(lat+3)/c.Workers > 4000 {
		if lat > 5 {
			lat /= 2
		} else {
			nT /= 2
		}
	}
	c.RemoveAt = 1200 + r.Intn(800)
	c.ReaddAt = c.RemoveAt + 600 + r.Intn(1200)
	c.ReloadAt = c.ReaddAt + 300 + r.Intn(600)
	c.DropJobB = r.Intn(2) == 0
	c.E2E = idx%2 == 0
	for i := 0; i < nT; i++ {
		t := c20Target{ID: i, Job: "ja", Latency: 0, FailKind: "500", NSamples: 1 + r.Intn(30)}
		if r.Intn(4) == 0 {
			t.Job = "jb"
		}
		if r.Intn(10) == 0 {
			// a body the probe's parser reads in several blocks (64 KiB each)
			t.NSamples = 2500 + r.Intn(3000)
		}
		if lat > 0 {
			t.Latency = r.Intn(lat + 1)
		}
		if r.Intn(2) == 0 {
			t.Prefix = 1 + r.Intn(c.MaxPrefix)
		}
		if r.Intn(3) == 0 {
			t.FailKind = r.PickS("hangup", "reset", "204", "reset")
		}
		switch r.Intn(6) {
		case 0:
			t.Removal = "remove"
		case 1, 2:
			t.Removal = "readd"
		}
		c.Targets = append(c.Targets, t)
	}
	return c
}

type probeEv struct {
	ID     int   `json:"id"`
	Arrive int64 `json:"arriveMs"`
	Depart int64 `json:"departMs"`
	OK     bool  `json:"ok"`
	arrive time.Time
	depart time.Time
}

type farm struct {
	mu       sync.Mutex
	srv      *httptest.Server
	targets  map[int]*c20Target
	payload  map[int][]byte
	count    map[int]int
	inflight map[int]int
	maxInfl  map[int]int
	events   []probeEv
	t0       time.Time
}

func newFarm(c *c20Case, payload map[int][]byte) *farm {
	f := &farm{targets: map[int]*c20Target{}, payload: payload, count: map[int]int{}, inflight: map[int]int{}, maxInfl: map[int]int{}, t0: time.Now()}
	for i := range c.Targets {
		f.targets[c.Targets[i].ID] = &c.Targets[i]
	}
	f.srv = httptest.NewUnstartedServer(http.HandlerFunc(f.serve))
	f.srv.Config.ErrorLog = nil
	f.srv.Start()
	return f
}

func (f *farm) serve(w http.ResponseWriter, r *http.Request) {
	arrive := time.Now()
	if ns, err := strconv.ParseInt(r.Header.Get("X-Harness-Sent"), 10, 64); err == nil && ns > 0 {
		arrive = time.Unix(0, ns) // when the probe left the explorer (see stampTransport)
	}
	id, err := strconv.Atoi(strings.TrimPrefix(r.URL.Path, "/t/"))
	if err != nil {
		w.WriteHeader(404)
		return
	}
	f.mu.Lock()
	t := f.targets[id]
	n := f.count[id]
	f.count[id]++
	f.inflight[id]++
	if f.inflight[id] > f.maxInfl[id] {
		f.maxInfl[id] = f.inflight[id]
	}
	f.mu.Unlock()
	if t == nil {
		w.WriteHeader(404)
		return
	}
	if t.Latency > 0 {
		time.Sleep(time.Duration(t.Latency) * time.Millisecond)
	}
	ok := n >= t.Prefix
	depart := time.Now()
	f.mu.Lock()
	f.inflight[id]--
	f.events = append(f.events, probeEv{ID: id, Arrive: arrive.Sub(f.t0).Milliseconds(), Depart: depart.Sub(f.t0).Milliseconds(), OK: ok, arrive: arrive, depart: depart})
	f.mu.Unlock()
	if ok {
		w.Header().Set("Content-Type", "text/plain; version=0.0.4")
		w.Write(f.payload[id])
		return
	}
	if t.FailKind == "204" {
		// not an error status, not a scrape either: an exporter still warming up
		w.WriteHeader(204)
		return
	}
	if t.FailKind == "reset" {
		// part of the body, then the connection is RESET (RST instead of FIN: the exporter was killed)
		if hj, ok := w.(http.Hijacker); ok {
			if c, _, err := hj.Hijack(); err == nil {
				c.Write([]byte("HTTP/1.1 200 OK\r\nContent-Type: text/plain\r\nContent-Length: 4096\r\n\r\npartial_metric 1\nanother_partial_metric 2\n"))
				time.Sleep(20 * time.Millisecond) // let the client read what was sent before the reset discards it
				if tc, ok := c.(*net.TCPConn); ok {
					_ = tc.SetLinger(0)
				}
				c.Close()
				return
			}
		}
	}
	if t.FailKind == "hangup" {
		if hj, ok := w.(http.Hijacker); ok {
			// break off inside the body (a bare hang-up on a reused connection would make net/http's
			// transport re-send the request by itself, which is not a probe of the explorer)
			if c, _, err := hj.Hijack(); err == nil {
				c.Write([]byte("HTTP/1.1 200 OK\r\nContent-Type: text/plain\r\nContent-Length: 4096\r\n\r\npartial_metric 1\n"))
				c.Close()
				return
			}
		}
	}
	w.WriteHeader(500)
}

// period during which the explorer knows a target (as far as the harness can bracket it)
type period struct {
	startLo, startHi time.Time // the adding update was handed over between these
	endLo, endHi     time.Time // zero: still present
}

type pollObs struct {
	before time.Time // taken before the read, at after it: the observation is attributed to a period only if both lie in it
	at     time.Time
	nonNil bool
	health string
	series int64
	total  int64
}

type postEv struct {
	at  time.Time
	ids map[int]int64 // target id -> series carried
}

const c20Config = `global:
  scrape_interval: 300s
  scrape_timeout: 120s
scrape_configs:
- job_name: ja
  scrape_timeout: 120s
  metric_relabel_configs:
  - source_labels: [__name__]
    regex: drop_.*
    action: drop
%s`

const c20JobB = `- job_name: jb
  scrape_timeout: 120s
`

func runC20(w *core.WorkerCtx, idx int) *core.CaseResult {
	c := c20Gen(w, idx)
	res := &core.CaseResult{}
	r := core.NewRng(w.Seed, 0xC20F, uint64(idx))
	payload := map[int][]byte{}
	kept, total := map[int]int64{}, map[int]int64{}
	for _, t := range c.Targets {
		ss := e3.GenSamples(r, t.NSamples)
		payload[t.ID] = e3.Render(ss, false)
		rs := e3.RuleSets[0]
		if t.Job == "ja" {
			rs = e3.RuleSets[1]
		}
		cnt := e3.Expect(ss, rs)
		kept[t.ID], total[t.ID] = int64(cnt.Kept), int64(cnt.Total)
	}
	fm := newFarm(c, payload)
	defer fm.srv.Close()
	addr := fm.srv.Listener.Addr().(*net.TCPAddr).String()
	p := newPipeline(c.Workers)
	defer p.close()
	if err := p.cm.ReloadFromRaw([]byte(fmt.Sprintf(c20Config, c20JobB))); err != nil {
		res.Inconcl = "config: " + err.Error()
		return res
	}
	p.stampClients("ja", "jb")

	groupsFor := func(include func(t *c20Target) bool) map[string][]*targetgroup.Group {
		by := map[string][]map[string]string{"ja": {}, "jb": {}}
		for i := range c.Targets {
			t := &c.Targets[i]
			if include(t) {
				by[t.Job] = append(by[t.Job], map[string]string{"__address__": addr, "__metrics_path__": fmt.Sprintf("/t/%d", t.ID), "tid": fmt.Sprint(t.ID)})
			}
		}
		return map[string][]*targetgroup.Group{"ja": {group("ja/0", by["ja"])}, "jb": {group("jb/0", by["jb"])}}
	}

	var mu sync.Mutex
	periods := map[int][]*period{}
	hashOf := map[int]uint64{}
	idOf := map[uint64]int{}
	present := map[int]bool{}
	applyPresence := func(now map[int]bool, lo, hi time.Time) {
		mu.Lock()
		defer mu.Unlock()
		for id := range now {
			if !present[id] {
				periods[id] = append(periods[id], &period{startLo: lo, startHi: hi})
				present[id] = true
			}
		}
		for id := range present {
			if present[id] && !now[id] {
				ps := periods[id]
				ps[len(ps)-1].endLo, ps[len(ps)-1].endHi = lo, hi
				present[id] = false
			}
		}
	}
	doUpdate := func(include func(t *c20Target) bool) error {
		lo := time.Now()
		if err := p.update(groupsFor(include)); err != nil {
			return err
		}
		hi := time.Now()
		now := map[int]bool{}
		for h, t := range p.disc.ActiveTargetsByHash() {
			id, _ := strconv.Atoi(t.ShardTarget.Labels.Get("tid"))
			now[id] = true
			mu.Lock()
			hashOf[id], idOf[h] = h, id
			mu.Unlock()
		}
		applyPresence(now, lo, hi)
		return nil
	}
	fm.t0 = time.Now()
	t0 := fm.t0
	if err := doUpdate(func(*c20Target) bool { return true }); err != nil {
		res.Violate("C20/pipeline-stuck", "first discovery update: %v", err)
		return res
	}

	// ---- optional end-to-end part: the real coordinator assigns to a stub shard with unlimited room
	var posts []postEv
	var coCancel context.CancelFunc
	if c.E2E {
		var pmu sync.Mutex
		posted := map[uint64]*target.ScrapeStatus{}
		mgr := &stubMgr{mk: func() *shard.Shard {
			s := shard.NewShard("stub-0", "http://stub-0", true, sc.Quiet)
			s.APIGet = func(url string, ret interface{}) error {
				var data interface{}
				switch {
				case strings.HasSuffix(url, "/targets/status/"):
					pmu.Lock()
					cp := map[uint64]*target.ScrapeStatus{}
					for h, st := range posted {
						c := *st
						cp[h] = &c
					}
					pmu.Unlock()
					data = cp
				case strings.HasSuffix(url, "/runtimeinfo/"):
					data = &shard.RuntimeInfo{ConfigHash: p.cm.ConfigInfo().ConfigHash}
				default:
					return errors.New("unknown")
				}
				b, _ := json.Marshal(api.Data(data))
				return json.Unmarshal(b, api.Data(ret))
			}
			s.APIPost = func(url string, req interface{}, ret interface{}) error {
				if !strings.HasSuffix(url, "/shard/targets/") {
					return nil
				}
				at := time.Now()
				b, _ := json.Marshal(req)
				var rq shard.UpdateTargetsRequest
				_ = json.Unmarshal(b, &rq)
				ev := postEv{at: at, ids: map[int]int64{}}
				np := map[uint64]*target.ScrapeStatus{}
				for _, ts := range rq.Targets {
					for _, t := range ts {
						id, _ := strconv.Atoi(t.Labels.Get("tid"))
						ev.ids[id] = t.Series
						st := target.NewScrapeStatus(t.Series, t.TotalSeries)
						st.TargetState = t.TargetState
						np[t.Hash] = st
					}
				}
				pmu.Lock()
				posted = np
				pmu.Unlock()
				mu.Lock()
				posts = append(posts, ev)
				mu.Unlock()
				return nil
			}
			return s
		}}
		co := coordinator.NewCoordinator(&coordinator.Option{MaxHeadSeries: 0, MaxProcessSeries: 1 << 40, MaxShard: 1, MinShard: 1, Period: 100 * time.Millisecond},
			&stubRM{m: mgr}, p.cm.ConfigInfo, p.exp.Get, p.disc.ActiveTargetsByHash, prometheus.NewRegistry(), sc.Quiet)
		var cctx context.Context
		cctx, coCancel = context.WithCancel(context.Background())
		go func() { _ = co.Run(cctx) }()
		defer coCancel()
	}

	// ---- timeline
	polls := map[int][]pollObs{}
	type step struct {
		at int
		do func() error
	}
	steps := []step{
		{c.RemoveAt, func() error {
			return doUpdate(func(t *c20Target) bool { return t.Removal == "" })
		}},
		{c.ReaddAt, func() error {
			return doUpdate(func(t *c20Target) bool { return t.Removal != "remove" })
		}},
		{c.ReloadAt, func() error {
			lo := time.Now()
			jb := c20JobB
			if c.DropJobB {
				jb = ""
			}
			if err := p.cm.ReloadFromRaw([]byte(fmt.Sprintf(c20Config, jb))); err != nil {
				return err
			}
			p.stampClients("ja", "jb")
			hi := time.Now()
			if c.DropJobB {
				mu.Lock()
				now := map[int]bool{}
				for id, pr := range present {
					if pr && fm.targets[id].Job != "jb" {
						now[id] = true
					}
				}
				mu.Unlock()
				applyPresence(now, lo, hi)
			}
			return nil
		}},
	}
	end := time.Duration(c.MaxPrefix)*retryInterval + retryInterval + 8500*time.Millisecond + time.Duration(c.ReaddAt)*time.Millisecond
	si := 0
	// the removal waits for the first sweep: while targets are still queued for their FIRST probe (one worker, 300
	// targets, a loaded machine), a target that leaves and comes back has a probe of its old incarnation in the
	// queue, which is sent whenever its turn comes - legitimately - and cannot be told from a probe of the new one
	var shift time.Duration
	sweepDone := func() bool {
		fm.mu.Lock()
		defer fm.mu.Unlock()
		mu.Lock()
		defer mu.Unlock()
		for id, pr := range present {
			if pr && fm.count[id] == 0 {
				return false
			}
		}
		return true
	}
	for time.Since(t0) < end+shift {
		if si == 0 && len(steps) > 0 && time.Since(t0) >= time.Duration(steps[0].at)*time.Millisecond+shift && !sweepDone() && time.Since(t0) < 90*time.Second {
			shift += 100 * time.Millisecond
		}
		if si < len(steps) && time.Since(t0) >= time.Duration(steps[si].at)*time.Millisecond+shift {
			if err := steps[si].do(); err != nil {
				res.Violate("C20/pipeline-stuck", "discovery update / reload at step %d did not go through: %v", si, err)
				return res
			}
			si++
			continue
		}
		mu.Lock()
		var ids []int
		for id, pr := range present {
			if pr {
				ids = append(ids, id)
			}
		}
		mu.Unlock()
		for _, id := range ids {
			mu.Lock()
			h := hashOf[id]
			mu.Unlock()
			pollStart := time.Now()
			st := p.exp.Get(h)
			o := pollObs{nonNil: st != nil, before: pollStart}
			if st != nil && !w.Race {
				// unsynchronised read, exactly as the coordinator does it; skipped in the -race pass
				o.health, o.series, o.total = string(st.Health), st.Series, st.TotalSeries
			}
			// stamped AFTER the values were read: whatever was seen had happened by then (stamping before the
			// read lets a probe finish in between and look like "healthy before any success" on a loaded machine)
			o.at = time.Now()
			polls[id] = append(polls[id], o)
		}
		time.Sleep(40 * time.Millisecond)
	}
	if coCancel != nil {
		coCancel()
	}
	p.close()
	time.Sleep(50 * time.Millisecond)

	// ---- oracle over the recorded events
	fm.mu.Lock()
	evs := append([]probeEv{}, fm.events...)
	maxInfl := map[int]int{}
	for k, v := range fm.maxInfl {
		maxInfl[k] = v
	}
	fm.mu.Unlock()
	byID := map[int][]probeEv{}
	seenSent := map[int64]bool{}
	for _, e := range evs {
		byID[e.ID] = append(byID[e.ID], e)
		seenSent[e.arrive.UnixNano()] = true
	}
	// the explorer's side of the same requests: an attempt that failed in the transport (it may never have reached
	// the target: refused, reset or dropped connection on a loaded machine) is a failed probe all the same, and an
	// attempt that is still in flight at the end means that no retry is due for that target yet
	inFlightAtEnd := map[int]bool{}
	hung := 0 // attempts without an answer at the end: each keeps one explorer worker busy
	for _, a := range p.clientLog.snapshot() {
		id, err := strconv.Atoi(strings.TrimPrefix(a.Path, "/t/"))
		if err != nil || seenSent[a.SentNs] {
			continue
		}
		if a.Done.IsZero() {
			inFlightAtEnd[id] = true
			hung++
			res.AddStat("probes_still_in_flight_at_the_end", 1)
			continue
		}
		if a.Err != "" {
			byID[id] = append(byID[id], probeEv{ID: id, Arrive: a.Sent.Sub(t0).Milliseconds(), Depart: a.Done.Sub(t0).Milliseconds(), OK: false, arrive: a.Sent, depart: a.Done})
			res.AddStat("probes_that_failed_before_reaching_the_target", 1)
		}
	}
	res.Execs = 1
	res.AddStat("targets", int64(len(c.Targets)))
	res.AddStat("probes_observed", int64(len(evs)))
	var witness []string
	type pendingViol struct {
		sig, msg string
		id       int
	}
	var sink *[]pendingViol // non-nil while a presence period is judged tentatively
	var commit func(sig string, id int, msg string)
	bad := func(sig string, id int, format string, a ...interface{}) {
		if sink != nil {
			*sink = append(*sink, pendingViol{sig: sig, id: id, msg: fmt.Sprintf(format, a...)})
			return
		}
		commit(sig, id, fmt.Sprintf(format, a...))
	}
	commit = func(sig string, id int, msg string) {
		res.Violate(sig, "target %d (%+v): %s", id, *fm.targets[id], msg)
		if len(witness) < 6 {
			var tl []string
			for _, e := range byID[id] {
				tl = append(tl, fmt.Sprintf("[%d..%d ms ok=%v]", e.Arrive, e.Depart, e.OK))
			}
			var pl []string
			for _, pr := range periods[id] {
				e := "present"
				if !pr.endLo.IsZero() {
					e = fmt.Sprintf("%d..%d", pr.endLo.Sub(t0).Milliseconds(), pr.endHi.Sub(t0).Milliseconds())
				}
				pl = append(pl, fmt.Sprintf("known from %d..%d until %s", pr.startLo.Sub(t0).Milliseconds(), pr.startHi.Sub(t0).Milliseconds(), e))
			}
			witness = append(witness, fmt.Sprintf("target %d probes %v periods %v", id, tl, pl))
		}
	}
	endAll := t0.Add(end + shift)
	for _, t := range c.Targets {
		id := t.ID
		es := byID[id]
		sort.Slice(es, func(i, j int) bool { return es[i].arrive.Before(es[j].arrive) })
		_ = maxInfl // the farm's own count mixes presence periods; overlap is judged per period below
		res.AddSet("probe_counts", fmt.Sprintf("prefix%d/removal-%s/probes%d", t.Prefix, t.Removal, len(es)))
		for pi, pr := range periods[id] {
			pEnd := endAll
			if !pr.endLo.IsZero() {
				pEnd = pr.endLo
			}
			var in []probeEv
			for _, e := range es {
				// probes carry the moment they left the explorer, which can lie inside the bracket of the update that
				// made the target known (the coordinator asks for it at once): they belong to this period
				if !e.arrive.Before(pr.startLo) && e.arrive.Before(pEnd) {
					in = append(in, e)
				}
			}
			strayBudget := 0
			if pi > 0 {
				strayBudget = 1
				prev := periods[id][pi-1]
				for _, e := range es {
					if e.arrive.After(prev.endLo) && e.arrive.Before(pr.startLo) {
						strayBudget = 0 // the old incarnation's outstanding probe was sent between the periods
					}
				}
			}
			// the rules of one presence period over the probes that left the explorer in it. A target that left discovery
			// and came back can have ONE probe of its old incarnation still queued (it was asked for, or its retry was
			// due, before it left): that probe is sent whenever its turn comes, possibly inside the new period, and
			// the statement allows it ("until ... the target disappears from discovery"); so a later period is first
			// judged as it is and, if that fails and the old incarnation's one probe has not been seen between the two
			// periods, once more without one of its probes - any choice that satisfies every rule is accepted.
			judge := func(in []probeEv, counting bool) []pendingViol {
				var out []pendingViol
				sink = &out
				defer func() { sink = nil }()
				// at most one probe in flight: probes that left the explorer within this presence period must not overlap
				// (a probe of the previous period that is still on its way does not count: the target was gone in between)
				for i := 1; i < len(in); i++ {
					if in[i].arrive.Before(in[i-1].depart) && in[i-1].arrive.Before(in[i].depart) {
						bad("C20/more-than-one-probe-in-flight", id, "two probes of one presence period overlap: one left the explorer at %d ms and was answered at %d ms, the next left at %d ms", in[i-1].arrive.Sub(t0).Milliseconds(), in[i-1].depart.Sub(t0).Milliseconds(), in[i].arrive.Sub(t0).Milliseconds())
						break
					}
				}
				// probed once asked for (bounded progress: within 10 s)
				var firstAsk time.Time
				for _, o := range polls[id] {
					if o.nonNil && !o.before.Before(pr.startHi) && o.at.Before(pEnd) {
						firstAsk = o.at
						break
					}
				}
				if !firstAsk.IsZero() && pEnd.Sub(firstAsk) > 10*time.Second {
					got := false
					for _, e := range es {
						if !e.arrive.Before(pr.startLo) && e.arrive.Before(firstAsk.Add(10*time.Second)) {
							got = true
						}
					}
					if counting {
						res.AddStat("first_probe_obligations", 1)
					}
					if !got {
						bad("C20/never-probed", id, "asked for at %d ms (period %d) but no probe arrived within 10 s", firstAsk.Sub(t0).Milliseconds(), pi)
					}
				}
				var success *probeEv
				for k := range in {
					e := in[k]
					if success != nil {
						bad("C20/probe-after-success", id, "probe at %d ms although the probe that left at %d ms succeeded (same presence period)", e.Arrive, success.Depart)
						break
					}
					if k > 0 && !in[k-1].OK {
						gap := e.arrive.Sub(in[k-1].depart)
						if gap < retryInterval {
							bad("C20/retry-too-early", id, "probe at %d ms only %d ms after the failed probe that left at %d ms (retry interval %v)", e.Arrive, gap.Milliseconds(), in[k-1].Depart, retryInterval)
						}
						if counting {
							res.AddStat("retries_observed", 1)
						}
					}
					if e.OK && e.depart.Before(pEnd) {
						ee := e
						success = &ee
					}
				}
				// a failed probe is retried (bounded progress: within interval + 10 s) while the target stays
				if len(in) > 0 && success == nil && !inFlightAtEnd[id] && hung < c.Workers {
					last := in[len(in)-1]
					if !last.OK && pEnd.Sub(last.depart) > retryInterval+15*time.Second {
						bad("C20/retry-missing", id, "probe that left at %d ms failed, the target stayed discovered for %d more ms, no retry arrived", last.Depart, pEnd.Sub(last.depart).Milliseconds())
					}
				}
				if success != nil && counting {
					res.AddStat("periods_with_success", 1)
				}
				// estimate as seen through Get
				if !w.Race {
					for _, o := range polls[id] {
						if !o.nonNil || o.before.Before(pr.startHi) || !o.at.Before(pEnd) {
							continue
						}
						succeeded := success != nil && success.depart.Before(o.at)
						if o.health == "up" {
							if !succeeded {
								bad("C20/healthy-without-successful-probe", id, "explorer reports health up (series %d) at %d ms but no probe of this presence period had succeeded", o.series, o.at.Sub(t0).Milliseconds())
								break
							}
							if o.series != kept[id] || o.total != total[id] {
								bad("C20/estimate-wrong", id, "explorer reports series/total %d/%d, the successful probe's payload has %d/%d", o.series, o.total, kept[id], total[id])
								break
							}
						} else if succeeded && o.at.Sub(success.depart) > 12*time.Second {
							bad("C20/estimate-missing", id, "a probe succeeded at %d ms but %d ms later the explorer still reports health %q", success.Depart, o.at.Sub(success.depart).Milliseconds(), o.health)
							break
						}
					}
				}
				return out
			}
			pv := judge(in, true)
			if len(pv) > 0 && pi > 0 && strayBudget > 0 {
				for k := range in {
					rest := append(append([]probeEv{}, in[:k]...), in[k+1:]...)
					if len(judge(rest, false)) == 0 {
						pv = nil
						res.AddStat("periods_judged_without_one_probe_of_the_previous_incarnation", 1)
						break
					}
				}
			}
			for _, v := range pv {
				commit(v.sig, v.id, v.msg)
			}
			// after the target left discovery: at most one further probe
			if !pr.endHi.IsZero() {
				nextStart := endAll
				if pi+1 < len(periods[id]) {
					nextStart = periods[id][pi+1].startLo
				}
				n := 0
				for _, e := range es {
					if e.arrive.After(pr.endHi) && e.arrive.Before(nextStart) {
						n++
					}
				}
				res.AddStat("removals_observed", 1)
				if n > 1 {
					bad("C20/probed-after-removal", id, "%d probes arrived after the target had left discovery at %d ms", n, pr.endHi.Sub(t0).Milliseconds())
				}
			}
		}
	}
	// end to end: nothing is assigned before a probe succeeded; the first assignment carries the probe's count
	if c.E2E {
		seen := map[int]bool{}
		for _, pe := range posts {
			for id, series := range pe.ids {
				if seen[id] {
					continue
				}
				seen[id] = true
				res.AddStat("first_assignments_observed", 1)
				ok := false
				for _, e := range byID[id] {
					if e.OK && e.depart.Before(pe.at) {
						ok = true
					}
				}
				if !ok {
					bad("C20/assigned-before-successful-probe", id, "coordinator assigned the target at %d ms with series %d although no probe had succeeded", pe.at.Sub(t0).Milliseconds(), series)
				} else if series != kept[id] {
					bad("C20/assigned-with-wrong-estimate", id, "first assignment carries series %d, the successful probe's payload has %d kept samples", series, kept[id])
				}
			}
		}
		if len(posts) == 0 {
			res.Inconcl = "end-to-end part observed no POST"
		}
	}
	res.Viol = dedupeByClass(res.Viol)
	res.Sig = fmt.Sprintf("w%d/t%d/rm%d/ra%d/rl%d/%v/%v/p%d/%x", c.Workers, len(c.Targets), c.RemoveAt, c.ReaddAt, c.ReloadAt, c.DropJobB, c.E2E, c.MaxPrefix, core.HashString(fmt.Sprint(c.Targets))&0xffff)
	res.Nontrivial = len(evs) >= len(c.Targets)/2
	if len(res.Viol) > 0 {
		res.Witness = map[string]interface{}{"case_summary": map[string]interface{}{"workers": c.Workers, "targets": len(c.Targets), "removeAtMs": c.RemoveAt, "readdAtMs": c.ReaddAt, "reloadAtMs": c.ReloadAt, "dropJobB": c.DropJobB, "e2e": c.E2E}, "timelines": witness}
	}
	if idx < 2 {
		var tl []string
		for _, t := range c.Targets[:3] {
			for _, e := range byID[t.ID] {
				tl = append(tl, fmt.Sprintf("target %d (prefix %d, %s): probe %d..%d ms ok=%v", t.ID, t.Prefix, t.Removal, e.Arrive, e.Depart, e.OK))
			}
		}
		res.Sample = map[string]interface{}{"workers": c.Workers, "targets": len(c.Targets), "endToEnd": c.E2E, "first_timelines": tl, "posts": len(posts)}
	}
	return res
}

func dedupeByClass(vs []core.Violation) []core.Violation {
	seen := map[string]bool{}
	var out []core.Violation
	for _, v := range vs {
		if !seen[v.Sig] {
			seen[v.Sig] = true
			out = append(out, v)
		}
	}
	return out
}

type stubMgr struct{ mk func() *shard.Shard }

func (m *stubMgr) Shards() ([]*shard.Shard, error) { return []*shard.Shard{m.mk()}, nil }
func (m *stubMgr) ChangeScale(int32) error         { return nil }

type stubRM struct{ m shard.Manager }

func (r *stubRM) Replicas() ([]shard.Manager, error) { return []shard.Manager{r.m}, nil }

var _ = discovery.SDTargets{}

func init() {
	core.Register(&core.Prop{
		ID:    "C20",
		Level: "exploration",
		Rule: "case = the real Explore + scrape.Manager + TargetsDiscovery wired as in cmd/kvass/coordinator.go, 30-300 loopback HTTP targets with scripted latency (0-300 ms), 0-2 (thorough: up to 4) failing probes (HTTP 500, 204, connection closed mid-body with FIN or with a TCP reset) before the first success, 1-200 explorer workers, the real 5 s retry interval; " +
			"during the run a discovery update removes a third of the targets inside the retry sleep, a later one re-adds most of them, then a reload keeps or drops job jb; every second case also runs the real coordinator against a stub shard with unlimited room; " +
			"monitors: every request at the targets (outcome, departure) stamped with the moment it left the explorer's HTTP client (a stamping RoundTripper on JobInfo.Cli, which also logs attempts that never reach a target or never return), Explore.Get results polled every 40 ms (not in the -race pass), POST bodies at the stub shard; oracle = per-target probe-lifecycle automaton per presence period (probed once asked for, single flight, retry no earlier than the interval and within interval+15 s, silence after success, at most one probe after removal), estimate = payload counts only after a success, no assignment before a successful probe; " +
			"plus cases in which a job's HTTP client cannot be built when its targets are first asked for (CA file missing at that reload) and can after a later reload: within interval + 10 s of the repair every target must have been probed and carry a healthy estimate; and cases in which a reload changes a job's metric relabel rules and params before a new target of that job is probed for the first time (estimate under the new rules, request with the new params); and cases with a configured param that some targets override through a __param_ label next to a configured param with three values (each selecting further series) (every probe carries its own target's params, whatever was probed before); " +
			"plus 2/6 cases on the REAL coordinator binary (engine E7, --sd.init-timeout 6-8 s): one target answers 503 for good, another is added to the configuration 3 s after the start-up window has passed: the new one must be assigned (so it was probed) within 80 coordination cycles and the failing one must be probed again within 150; " +
			"plus 1/4 flood cases: more than 10000 + workers targets are asked for in one period while every probe is held at the target until the asking stalls or ends (the explorer's queue holds 10000): every one must be probed exactly once and carry the probe's estimate; " +
			"one probe body in ten has 2500-5500 samples (several 64 KiB parser blocks); " +
			"a -race pass repeats 2 cases without harness reads; non-trivial = at least half of the targets were probed; distinct = parameter tuple + target script hash",
		Assumptions: []string{
			"the retry interval is the real unexported 5 s; lower bounds use server-side departure times, which can only make the measured gap smaller than the real one by less than the loopback latency (the oracle needs no tolerance because the retry sleep starts after the client saw the response)",
			"the removal step waits until every target has been probed once (the first sweep), later steps keep their distance to it: a probe of a target's old incarnation that is still queued when the target comes back cannot be told from a probe of the new one",
			"upper bounds (10 s to first probe, interval+15 s to a retry, 12 s from a successful answer to a healthy estimate) are bounded-progress restatements; workloads are sized so that one sweep over all targets takes < 4 s",
			"every job's scrape_timeout is 120 s: no probe fails on the client side that the target answered successfully (a 3 s timeout did, at a load average of 300: the target's success and the explorer's view of the probe then differ)",
		},
		NumCases: func(tier string) int {
			if tier == "thorough" {
				return c20NumCases(tier) + c20LateThorough + c20ReloadThorough + c20ParamThorough + c20FloodThorough + 6
			}
			return c20NumCases(tier) + c20LateQuick + c20ReloadQuick + c20ParamQuick + c20FloodQuick + 2
		},
		Run: func(w *core.WorkerCtx, idx int) *core.CaseResult {
			if n := c20NumCases(w.Tier); idx >= n {
				nl := c20LateQuick
				if w.Tier == "thorough" {
					nl = c20LateThorough
				}
				nr := c20ReloadQuick
				if w.Tier == "thorough" {
					nr = c20ReloadThorough
				}
				np := c20ParamQuick
				if w.Tier == "thorough" {
					np = c20ParamThorough
				}
				nf := c20FloodQuick
				if w.Tier == "thorough" {
					nf = c20FloodThorough
				}
				if idx-n >= nl+nr+np+nf {
					// the real coordinator binary: a failing target and a target that appears after --sd.init-timeout
					return e7.Run(w, idx-n-nl-nr-np-nf, "C20")
				}
				if idx-n >= nl+nr+np {
					return runC20Flood(w, idx-n-nl-nr-np)
				}
				if idx-n >= nl+nr {
					return runC20Params(w, idx-n-nl-nr)
				}
				if idx-n >= nl {
					return runC20Reload(w, idx-n-nl)
				}
				return runC20Late(w, idx-n)
			}
			return runC20(w, idx)
		},
		Workers:          16,
		CaseTimeout:      240e9,
		MinNontrivial:    8,
		CrashIsViolation: true,
		CrashSig:         "C20/explorer-crash",
		RacePass:         func(tier string) []int { return []int{0, 1} },
		RaceAttribute: func(rep core.RaceReport) (string, bool) {
			inExp := func(st []string) bool {
				for _, f := range st {
					if strings.Contains(f, "pkg/explore.") {
						return true
					}
				}
				return false
			}
			touches := func(st []string) bool {
				for _, f := range st {
					if strings.Contains(f, "explore.(*Explore).Get") || strings.Contains(f, "explore.(*Explore).UpdateTargets") || strings.Contains(f, "explore.(*Explore).ApplyConfig") || strings.Contains(f, "explore.(*Explore).Run") {
						return true
					}
				}
				return false
			}
			if inExp(rep.StackA) && inExp(rep.StackB) && touches(rep.StackA) && touches(rep.StackB) && !rep.Has("exploreOnce") {
				return "C20/race-on-explorer-table", true
			}
			return "", false
		},
	})
}
