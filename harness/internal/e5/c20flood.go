package e5

import (
	"context"
	"encoding/json"
	"errors"
	"fmt"
	"net"
	"net/http"
	"net/http/httptest"
	"strconv"
	"strings"
	"sync"
	"time"

	"github.com/prometheus/client_golang/prometheus"
	"github.com/prometheus/prometheus/discovery/targetgroup"

	"kvassverif/internal/core"
	"kvassverif/internal/sc"
	"tkestack.io/kvass/pkg/api"
	"tkestack.io/kvass/pkg/coordinator"
	"tkestack.io/kvass/pkg/shard"
	"tkestack.io/kvass/pkg/target"
)

// More targets asked for in one coordinator period than the explorer's queue holds (10000) plus its workers, while
// the probes are slow: "every discovered target is probed once it is first asked for" - whatever the explorer does
// when its queue is full (block the asking cycle, as it does, or anything else), no asked-for target may end up
// never probed. Every target then gets exactly one probe (they all succeed).

const c20FloodQuick, c20FloodThorough = 1, 4

func runC20Flood(w *core.WorkerCtx, k int) *core.CaseResult {
	r := core.NewRng(w.Seed, 0xC20F100D, uint64(k))
	workers := []int{8, 3, 16, 1}[k%4]
	n := 10000 + workers + 150 + r.Intn(400)
	res := &core.CaseResult{Sig: fmt.Sprintf("flood/%d/workers%d", n, workers), Execs: 1}
	var mu sync.Mutex
	hits := make([]int, n)
	total := 0
	gate := make(chan struct{})
	srv := httptest.NewServer(http.HandlerFunc(func(rw http.ResponseWriter, rq *http.Request) {
		id, _ := strconv.Atoi(strings.TrimPrefix(rq.URL.Path, "/t/"))
		<-gate // nothing is answered before every target has been asked for (or the asking blocks on a full queue)
		mu.Lock()
		if id >= 0 && id < n {
			hits[id]++
			total++
		}
		mu.Unlock()
		_, _ = rw.Write([]byte("m 1\n"))
	}))
	defer srv.Close()
	addr := srv.Listener.Addr().(*net.TCPAddr).String()
	p := newPipeline(workers)
	defer p.close()
	if err := p.cm.ReloadFromRaw([]byte("global:\n  scrape_interval: 300s\n  scrape_timeout: 120s\nscrape_configs:\n- job_name: ja\n")); err != nil {
		res.Inconcl = "config: " + err.Error()
		return res
	}
	var ts []map[string]string
	for i := 0; i < n; i++ {
		ts = append(ts, map[string]string{"__address__": addr, "__metrics_path__": fmt.Sprintf("/t/%d", i), "tid": fmt.Sprint(i)})
	}
	if err := p.update(map[string][]*targetgroup.Group{"ja": {group("ja/0", ts)}}); err != nil {
		res.Inconcl = "update: " + err.Error()
		return res
	}
	byHash := p.disc.ActiveTargetsByHash()
	if len(byHash) != n {
		res.Inconcl = fmt.Sprintf("harness: %d active targets, expected %d", len(byHash), n)
		return res
	}
	// the coordinator's cycle asks for every target; the gate opens once the asking goroutine has either finished or
	// has made no progress for a second (it blocks on the full queue: the workers are all waiting at the gate)
	asked := make(chan struct{})
	var askedN int64
	var amu sync.Mutex
	go func() {
		for h := range byHash {
			_ = p.exp.Get(h)
			amu.Lock()
			askedN++
			amu.Unlock()
		}
		close(asked)
	}()
	last, still := int64(-1), 0
	for still < 10 {
		select {
		case <-asked:
			still = 10
			continue
		case <-time.After(100 * time.Millisecond):
		}
		amu.Lock()
		cur := askedN
		amu.Unlock()
		if cur == last {
			still++
		} else {
			still, last = 0, cur
		}
	}
	amu.Lock()
	res.AddSet("flood_targets_asked_for_before_the_first_answer", fmt.Sprint(askedN/100*100))
	amu.Unlock()
	close(gate)
	select {
	case <-asked:
	case <-time.After(120 * time.Second):
		res.Inconcl = "the asking cycle did not finish within 120 s after the targets started answering"
		return res
	}
	// a second and third period ask again (as every cycle does)
	for round := 0; round < 2; round++ {
		for h := range byHash {
			_ = p.exp.Get(h)
		}
	}
	// wait until every target has been probed, or until no probe has arrived for 20 s (watchdog 200 s: inconclusive)
	start, lastTotal, lastChange := time.Now(), -1, time.Now()
	for {
		mu.Lock()
		t := total
		mu.Unlock()
		if t != lastTotal {
			lastTotal, lastChange = t, time.Now()
		}
		if t >= n {
			break
		}
		if time.Since(lastChange) > 20*time.Second {
			break
		}
		if time.Since(start) > 200*time.Second {
			res.Inconcl = fmt.Sprintf("watchdog: %d of %d targets probed after 200 s and probes still arriving", t, n)
			return res
		}
		time.Sleep(50 * time.Millisecond)
	}
	time.Sleep(300 * time.Millisecond) // stragglers: a second probe of a target would arrive now
	mu.Lock()
	never, twice, ex := 0, 0, -1
	for id, c := range hits {
		if c == 0 {
			never++
			if ex < 0 {
				ex = id
			}
		}
		if c > 1 {
			twice++
		}
	}
	mu.Unlock()
	res.Nontrivial = true
	res.AddStat("flood_targets", int64(n))
	res.AddStat("flood_targets_probed", int64(n-never))
	if never > 0 {
		res.Violate("C20/flood/never-probed", "%d targets were asked for in one period (explorer queue 10000, %d workers, probes held until the asking stalled or ended) and twice more afterwards; %d of them (e.g. target %d) were never probed - no probe has arrived for 20 s", n, workers, never, ex)
	}
	if twice > 0 {
		res.Violate("C20/flood/probed-again-after-success", "%d of %d targets were probed more than once although every probe succeeds", twice, n)
	}
	// and every estimate is that of the probe
	bad := 0
	for h := range byHash {
		if st := p.exp.Get(h); never == 0 && (st == nil || st.Series != 1 || string(st.Health) != "up") {
			bad++
		}
	}
	if bad > 0 {
		res.Violate("C20/flood/estimate-missing", "%d of %d probed targets carry no healthy estimate of 1 series", bad, n)
	}
	return res
}

// RunC03Flood: the same burst in a closed loop - the real coordinator (one stub shard with unlimited room) asks for
// more than 10000 + workers new targets in its first cycle; "every healthy target that fits into a shard ends up
// scraped by exactly one shard": all of them must reach the shard's target list; the run ends when they have, or
// when 100 coordination cycles have passed without a single new target being assigned.
func RunC03Flood(w *core.WorkerCtx, k int) *core.CaseResult {
	r := core.NewRng(w.Seed, 0xC03F100D, uint64(k))
	workers := []int{8, 4, 16}[k%3]
	n := 10000 + workers + 200 + r.Intn(600)
	res := &core.CaseResult{Sig: fmt.Sprintf("flood-closed-loop/%d/workers%d", n, workers), Execs: 1, Nontrivial: true}
	srv := httptest.NewServer(http.HandlerFunc(func(rw http.ResponseWriter, rq *http.Request) {
		time.Sleep(2 * time.Millisecond)
		_, _ = rw.Write([]byte("m 1\n"))
	}))
	defer srv.Close()
	addr := srv.Listener.Addr().(*net.TCPAddr).String()
	p := newPipeline(workers)
	defer p.close()
	if err := p.cm.ReloadFromRaw([]byte("global:\n  scrape_interval: 300s\n  scrape_timeout: 120s\nscrape_configs:\n- job_name: ja\n")); err != nil {
		res.Inconcl = "config: " + err.Error()
		return res
	}
	var ts []map[string]string
	for i := 0; i < n; i++ {
		ts = append(ts, map[string]string{"__address__": addr, "__metrics_path__": fmt.Sprintf("/t/%d", i), "tid": fmt.Sprint(i)})
	}
	if err := p.update(map[string][]*targetgroup.Group{"ja": {group("ja/0", ts)}}); err != nil {
		res.Inconcl = "update: " + err.Error()
		return res
	}
	var mu sync.Mutex
	posted := map[uint64]*target.ScrapeStatus{}
	cycles, assigned := 0, 0
	mgr := &stubMgr{mk: func() *shard.Shard {
		s := shard.NewShard("shard-0", "http://stub", true, sc.Quiet)
		s.APIGet = func(url string, ret interface{}) error {
			var data interface{}
			mu.Lock()
			switch {
			case strings.HasSuffix(url, "/targets/status/"):
				cp := map[uint64]*target.ScrapeStatus{}
				for h, st := range posted {
					c := *st
					cp[h] = &c
				}
				data = cp
			case strings.HasSuffix(url, "/runtimeinfo/"):
				cycles++
				data = &shard.RuntimeInfo{ConfigHash: p.cm.ConfigInfo().ConfigHash}
			}
			mu.Unlock()
			if data == nil {
				return errors.New("unknown")
			}
			b, _ := json.Marshal(api.Data(data))
			return json.Unmarshal(b, api.Data(ret))
		}
		s.APIPost = func(url string, req interface{}, ret interface{}) error {
			if !strings.HasSuffix(url, "/shard/targets/") {
				return nil
			}
			b, _ := json.Marshal(req)
			var rq shard.UpdateTargetsRequest
			_ = json.Unmarshal(b, &rq)
			np := map[uint64]*target.ScrapeStatus{}
			for _, l := range rq.Targets {
				for _, t := range l {
					st := target.NewScrapeStatus(t.Series, t.TotalSeries)
					st.TargetState = t.TargetState
					st.Health = "up"
					st.ScrapeTimes = 5
					np[t.Hash] = st
				}
			}
			mu.Lock()
			posted = np
			assigned = len(np)
			mu.Unlock()
			return nil
		}
		return s
	}}
	co := coordinator.NewCoordinator(&coordinator.Option{MaxHeadSeries: 0, MaxProcessSeries: 1 << 40, MaxShard: 1, MinShard: 1, Period: 100 * time.Millisecond},
		&stubRM{m: mgr}, p.cm.ConfigInfo, p.exp.Get, p.disc.ActiveTargetsByHash, prometheus.NewRegistry(), sc.Quiet)
	cctx, cancel := context.WithCancel(context.Background())
	defer cancel()
	go func() { _ = co.Run(cctx) }()
	start := time.Now()
	lastAssigned, lastCycle := -1, 0
	for {
		mu.Lock()
		a, c := assigned, cycles
		mu.Unlock()
		if a != lastAssigned {
			lastAssigned, lastCycle = a, c
		}
		if a >= n {
			break
		}
		if c-lastCycle >= 100 {
			res.Violate("C03/flood/stays-unscraped", "%d healthy one-series targets appear at once (explorer queue 10000, %d workers, one shard with unlimited room): after %d coordination cycles %d of them are in the shard's list and the last 100 cycles assigned none of the other %d", n, workers, c, a, n-a)
			break
		}
		if time.Since(start) > 240*time.Second {
			res.Inconcl = fmt.Sprintf("watchdog: %d of %d targets assigned after 240 s and %d cycles", a, n, c)
			return res
		}
		time.Sleep(50 * time.Millisecond)
	}
	res.AddStat("flood_closed_loop_targets", int64(n))
	res.AddStat("flood_closed_loop_targets_assigned", int64(lastAssigned))
	mu.Lock()
	res.AddSet("flood_closed_loop_cycles", fmt.Sprint(cycles/10*10))
	mu.Unlock()
	return res
}
