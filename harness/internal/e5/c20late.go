package e5

import (
	"crypto/ecdsa"
	"crypto/elliptic"
	"crypto/rand"
	"crypto/x509"
	"crypto/x509/pkix"
	"encoding/pem"
	"fmt"
	"io"
	"math/big"
	"net"
	"net/http"
	"net/http/httptest"
	"os"
	"path/filepath"
	"strings"
	"sync"
	"time"

	"github.com/prometheus/prometheus/discovery/targetgroup"

	"kvassverif/internal/core"
)

// A job whose HTTP client cannot be built when its targets are first asked for (its CA file is missing
// at that reload: the scrape manager skips the job, the explorer treats every probe as failed) and
// can be built after a later reload. "A failed probe is retried after the retry interval until one
// succeeds": within interval + 10 s of the repairing reload every target of the job must have been
// probed and carry the estimate of that probe.

const c20LateQuick, c20LateThorough = 2, 12

func c20CAPem() []byte {
	key, _ := ecdsa.GenerateKey(elliptic.P256(), rand.Reader)
	tpl := &x509.Certificate{SerialNumber: big.NewInt(1), Subject: pkix.Name{CommonName: "rotated-ca"}, NotBefore: time.Now().Add(-time.Hour), NotAfter: time.Now().Add(time.Hour),
		IsCA: true, KeyUsage: x509.KeyUsageCertSign, BasicConstraintsValid: true}
	der, _ := x509.CreateCertificate(rand.Reader, tpl, tpl, &key.PublicKey, key)
	return pem.EncodeToMemory(&pem.Block{Type: "CERTIFICATE", Bytes: der})
}

func runC20Late(w *core.WorkerCtx, k int) *core.CaseResult {
	r := core.NewRng(w.Seed, 0xC20A, uint64(k))
	res := &core.CaseResult{Sig: fmt.Sprintf("late-client-%d", k), Nontrivial: true}
	dir := filepath.Join(w.Scratch, fmt.Sprintf("c20late-%d", k))
	_ = os.MkdirAll(dir, 0755)
	defer os.RemoveAll(dir)
	ca := filepath.Join(dir, "ca.pem")
	var mu sync.Mutex
	hits := map[string]int{}
	srv := httptest.NewServer(http.HandlerFunc(func(rw http.ResponseWriter, rq *http.Request) {
		mu.Lock()
		hits[rq.URL.Query().Get("id")]++
		mu.Unlock()
		rw.Header().Set("Content-Type", "text/plain; version=0.0.4")
		io.WriteString(rw, "m_a 1\nm_b{x=\"1\"} 2\nm_b{x=\"2\"} 3\n")
	}))
	defer srv.Close()
	addr := srv.Listener.Addr().(*net.TCPAddr).String()
	cfg := fmt.Sprintf("global:\n  scrape_interval: 300s\n  scrape_timeout: 120s\nscrape_configs:\n- job_name: plain\n- job_name: late\n  tls_config:\n    ca_file: %s\n", ca)
	p := newPipeline(1 + r.Intn(8))
	defer p.close()
	if err := p.cm.ReloadFromRaw([]byte(cfg)); err != nil {
		res.Inconcl = "reload: " + err.Error()
		return res
	}
	if p.sm.GetJob("late") != nil {
		res.Inconcl = "the job's client was built although its CA file is missing"
		return res
	}
	n := 2 + r.Intn(5)
	var ts []map[string]string
	for i := 0; i < n; i++ {
		ts = append(ts, map[string]string{"__address__": addr, "__param_id": fmt.Sprintf("late%d", i)})
	}
	groups := map[string][]*targetgroup.Group{"late": {group("late/0", ts)}, "plain": {group("plain/0", []map[string]string{{"__address__": addr, "__param_id": "plain0"}})}}
	if err := p.update(groups); err != nil {
		res.Inconcl = err.Error()
		return res
	}
	active := p.disc.ActiveTargetsByHash()
	for h := range active {
		p.exp.Get(h) // first asked for
	}
	// the CA file appears (secret rotated), the configuration is reloaded
	time.Sleep(time.Duration(200+r.Intn(1500)) * time.Millisecond)
	if err := os.WriteFile(ca, c20CAPem(), 0644); err != nil {
		res.Inconcl = err.Error()
		return res
	}
	if err := p.cm.ReloadFromRaw([]byte(cfg)); err != nil {
		res.Inconcl = "second reload: " + err.Error()
		return res
	}
	if p.sm.GetJob("late") == nil {
		res.Inconcl = "the job's client is still missing after the CA file appeared"
		return res
	}
	repaired := time.Now()
	deadline := repaired.Add(retryInterval + 10*time.Second)
	pending := func() []string {
		var l []string
		mu.Lock()
		defer mu.Unlock()
		for h, t := range active {
			id := t.ShardTarget.Labels.Get("__param_id")
			st := p.exp.Get(h)
			if hits[id] == 0 || st == nil || string(st.Health) != "up" {
				l = append(l, fmt.Sprintf("%s(requests %d)", id, hits[id]))
			}
		}
		return l
	}
	var left []string
	for {
		left = pending()
		if len(left) == 0 || time.Now().After(deadline) {
			break
		}
		time.Sleep(100 * time.Millisecond)
	}
	res.Execs = n + 1
	res.AddStat("late_client_targets", int64(n))
	if len(left) > 0 {
		res.Violate("C20/retry-missing/job-client-repaired", "%d of %d targets were asked for while their job's HTTP client could not be built; %v after the reload that repaired it (retry interval %v) these are still unprobed or without a healthy estimate: %v", len(left), n+1, time.Since(repaired).Round(time.Second), retryInterval, left)
		res.Witness = map[string]interface{}{"config": cfg, "pending": left}
	} else {
		res.AddStat("late_client_targets_probed_after_repair", int64(n))
		res.AddSet("seconds_until_all_probed", fmt.Sprint(int(time.Since(repaired).Seconds())))
	}
	return res
}

// A reload changes a job's metric_relabel_configs and params (not its client settings) BEFORE a target of
// that job is probed for the first time: the probe must use the new params, and the estimate must be the
// kept count under the NEW rules ("the sample counts of the successful probe ... after metric relabeling").
const c20ReloadQuick, c20ReloadThorough = 2, 12

func runC20Reload(w *core.WorkerCtx, k int) *core.CaseResult {
	r := core.NewRng(w.Seed, 0xC20B, uint64(k))
	res := &core.CaseResult{Sig: fmt.Sprintf("reload-before-first-probe-%d", k), Nontrivial: true}
	var mu sync.Mutex
	queries := map[string][]string{} // id -> module values seen
	nKeep, nA, nB := 2+r.Intn(4), 1+r.Intn(4), 1+r.Intn(4)
	srv := httptest.NewServer(http.HandlerFunc(func(rw http.ResponseWriter, rq *http.Request) {
		mu.Lock()
		id := rq.URL.Query().Get("id")
		queries[id] = append(queries[id], rq.URL.Query().Get("module"))
		mu.Unlock()
		rw.Header().Set("Content-Type", "text/plain; version=0.0.4")
		for i := 0; i < nKeep; i++ {
			fmt.Fprintf(rw, "keep_me{i=\"%d\"} 1\n", i)
		}
		for i := 0; i < nA; i++ {
			fmt.Fprintf(rw, "drop_a{i=\"%d\"} 1\n", i)
		}
		for i := 0; i < nB; i++ {
			fmt.Fprintf(rw, "drop_b{i=\"%d\"} 1\n", i)
		}
	}))
	defer srv.Close()
	addr := srv.Listener.Addr().(*net.TCPAddr).String()
	cfg := func(module, dropRe string) string {
		return fmt.Sprintf("global:\n  scrape_interval: 300s\n  scrape_timeout: 120s\nscrape_configs:\n- job_name: jr\n  params:\n    module: [%s]\n  metric_relabel_configs:\n  - source_labels: [__name__]\n    regex: %s\n    action: drop\n", module, dropRe)
	}
	p := newPipeline(1 + r.Intn(4))
	defer p.close()
	if err := p.cm.ReloadFromRaw([]byte(cfg("big", "drop_a"))); err != nil {
		res.Inconcl = "reload: " + err.Error()
		return res
	}
	tgt := func(id string) map[string]string { return map[string]string{"__address__": addr, "__param_id": id} }
	if err := p.update(map[string][]*targetgroup.Group{"jr": {group("jr/0", []map[string]string{tgt("t1")})}}); err != nil {
		res.Inconcl = err.Error()
		return res
	}
	waitUp := func(id string) (int64, int64, bool) {
		deadline := time.Now().Add(retryInterval + 10*time.Second)
		for time.Now().Before(deadline) {
			for h, t := range p.disc.ActiveTargetsByHash() {
				if t.ShardTarget.Labels.Get("__param_id") != id {
					continue
				}
				if st := p.exp.Get(h); st != nil && string(st.Health) == "up" {
					return st.Series, st.TotalSeries, true
				}
			}
			time.Sleep(20 * time.Millisecond)
		}
		return 0, 0, false
	}
	total := int64(nKeep + nA + nB)
	if s, t, ok := waitUp("t1"); !ok {
		res.Inconcl = "first target was not probed in time"
		return res
	} else if s != int64(nKeep+nB) || t != total {
		res.Violate("C20/estimate-wrong", "before the reload: estimate %d/%d, the payload has %d kept of %d", s, t, nKeep+nB, total)
	}
	// the reload: other param value, stricter drop rule; same client settings
	if err := p.cm.ReloadFromRaw([]byte(cfg("small", "drop_.*"))); err != nil {
		res.Inconcl = "second reload: " + err.Error()
		return res
	}
	if err := p.update(map[string][]*targetgroup.Group{"jr": {group("jr/0", []map[string]string{tgt("t1"), tgt("t2")})}}); err != nil {
		res.Inconcl = err.Error()
		return res
	}
	s, t, ok := waitUp("t2")
	res.Execs = 2
	res.AddStat("first_probes_after_a_reload_of_rules_and_params", 1)
	if !ok {
		res.Violate("C20/first-probe-missing", "a target discovered after a reload was not probed within interval + 10 s")
		return res
	}
	if s != int64(nKeep) || t != total {
		res.Violate("C20/estimate-wrong/after-reload", "a target first probed AFTER a reload that changed the job's metric relabel rules got the estimate %d/%d; under the rules now in force the payload has %d kept of %d (under the old rules: %d)", s, t, nKeep, total, nKeep+nB)
	}
	mu.Lock()
	q := append([]string{}, queries["t2"]...)
	mu.Unlock()
	for _, m := range q {
		if m != "small" {
			res.Violate("C20/probe-with-stale-params", "the probe of a target first seen after the reload was sent with module=%q; the configuration now says module=small", m)
			break
		}
	}
	if len(res.Viol) > 0 {
		res.Witness = map[string]interface{}{"kept": nKeep, "drop_a": nA, "drop_b": nB, "queries_t2": q}
	}
	return res
}

// A job with a configured param and targets that override it through a relabel rule next to targets that
// do not: every probe carries ITS target's params, and the estimate is the count of the exposition that
// probe received - whatever was probed before.
const c20ParamQuick, c20ParamThorough = 2, 12

func runC20Params(w *core.WorkerCtx, k int) *core.CaseResult {
	r := core.NewRng(w.Seed, 0xC20C, uint64(k))
	res := &core.CaseResult{Sig: fmt.Sprintf("param-override-%d", k), Nontrivial: true}
	var mu sync.Mutex
	seen := map[string][]string{}
	seenCollect := map[string][]string{}
	sizes := map[string]int{"small": 3, "big": 9, "huge": 17}
	srv := httptest.NewServer(http.HandlerFunc(func(rw http.ResponseWriter, rq *http.Request) {
		id, mod := rq.URL.Query().Get("id"), rq.URL.Query().Get("module")
		collect := rq.URL.Query()["collect[]"]
		mu.Lock()
		seen[id] = append(seen[id], mod)
		seenCollect[id] = append(seenCollect[id], strings.Join(collect, ","))
		mu.Unlock()
		rw.Header().Set("Content-Type", "text/plain; version=0.0.4")
		for i := 0; i < sizes[mod]; i++ {
			fmt.Fprintf(rw, "probe_metric{i=\"%d\"} 1\n", i)
		}
		// every collector asked for contributes its own series (a multi-valued param selects what is exposed)
		for _, c := range collect {
			fmt.Fprintf(rw, "collector_%s_a 1\ncollector_%s_b 1\n", c, c)
		}
	}))
	defer srv.Close()
	addr := srv.Listener.Addr().(*net.TCPAddr).String()
	// (a __param_ label that comes straight from discovery is overwritten by the configured value in Prometheus
	// itself; only relabeling overrides a configured param - blackbox-exporter style)
	cfg := "global:\n  scrape_interval: 300s\n  scrape_timeout: 120s\nscrape_configs:\n- job_name: jp\n  params:\n    module: [small]\n    'collect[]': [cpu, mem, disk]\n  relabel_configs:\n  - source_labels: [mod]\n    regex: (.+)\n    target_label: __param_module\n"
	p := newPipeline(1)
	defer p.close()
	if err := p.cm.ReloadFromRaw([]byte(cfg)); err != nil {
		res.Inconcl = "reload: " + err.Error()
		return res
	}
	n := 3 + r.Intn(4)
	want := map[string]string{}
	var ts []map[string]string
	for i := 0; i < n; i++ {
		id := fmt.Sprintf("p%d", i)
		t := map[string]string{"__address__": addr, "__param_id": id}
		want[id] = "small"
		if m := r.PickS("", "", "big", "huge"); m != "" {
			t["mod"] = m
			want[id] = m
		}
		ts = append(ts, t)
	}
	// at least one overriding target ahead of a plain one
	ts[0]["mod"], want["p0"] = "big", "big"
	delete(ts[n-1], "mod")
	want[fmt.Sprintf("p%d", n-1)] = "small"
	if err := p.update(map[string][]*targetgroup.Group{"jp": {group("jp/0", ts)}}); err != nil {
		res.Inconcl = err.Error()
		return res
	}
	// asked for one after the other, in target order (one worker): the probes are sequential
	hashOf := map[string]uint64{}
	for h, t := range p.disc.ActiveTargetsByHash() {
		hashOf[t.ShardTarget.Labels.Get("__param_id")] = h
	}
	for i := 0; i < n; i++ {
		id := fmt.Sprintf("p%d", i)
		h := hashOf[id]
		deadline := time.Now().Add(retryInterval + 10*time.Second)
		for {
			st := p.exp.Get(h)
			if st != nil && string(st.Health) == "up" {
				res.Execs++
				res.AddStat("probes_of_targets_with_and_without_param_override", 1)
				if st.Series != int64(sizes[want[id]]+6) {
					res.Violate("C20/estimate-wrong/param-override", "target %s (module %s, collect[] = cpu, mem, disk) got the estimate %d; the exposition for its own params has %d samples", id, want[id], st.Series, sizes[want[id]]+6)
				}
				break
			}
			if time.Now().After(deadline) {
				res.Violate("C20/first-probe-missing", "target %s was not probed within interval + 10 s", id)
				break
			}
			time.Sleep(10 * time.Millisecond)
		}
	}
	mu.Lock()
	defer mu.Unlock()
	for id, mods := range seen {
		for _, m := range mods {
			if m != want[id] {
				res.Violate("C20/probe-with-foreign-params", "target %s was probed with module=%q; its own labels and the job's configuration say %q", id, m, want[id])
			}
		}
	}
	for id, cs := range seenCollect {
		for _, c := range cs {
			if c != "cpu,mem,disk" {
				res.Violate("C20/probe-with-foreign-params", "target %s was probed with collect[]=%q; the job's configuration says [cpu mem disk]", id, c)
			}
		}
	}
	if len(res.Viol) > 0 {
		res.Witness = map[string]interface{}{"targets": ts, "requests_seen": seen, "collect_seen": seenCollect}
	}
	return res
}
