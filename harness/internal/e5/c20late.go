package e5

import (
	"crypto/ecdsa"
	"crypto/elliptic"
	"crypto/rand"
	"crypto/x509"
	"crypto/x509/pkix"
	"encoding/pem"
	"fmt"
	"io"
	"math/big"
	"net"
	"net/http"
	"net/http/httptest"
	"os"
	"path/filepath"
	"sync"
	"time"

	"github.com/prometheus/prometheus/discovery/targetgroup"

	"kvassverif/internal/core"
)

// A job whose HTTP client cannot be built when its targets are first asked for (its CA file is missing
// at that reload: the scrape manager skips the job, the explorer treats every probe as failed) and
// can be built after a later reload. "A failed probe is retried after the retry interval until one
// succeeds": within interval + 10 s of the repairing reload every target of the job must have been
// probed and carry the estimate of that probe.

const c20LateQuick, c20LateThorough = 2, 12

func c20CAPem() []byte {
	key, _ := ecdsa.GenerateKey(elliptic.P256(), rand.Reader)
	tpl := &x509.Certificate{SerialNumber: big.NewInt(1), Subject: pkix.Name{CommonName: "rotated-ca"}, NotBefore: time.Now().Add(-time.Hour), NotAfter: time.Now().Add(time.Hour),
		IsCA: true, KeyUsage: x509.KeyUsageCertSign, BasicConstraintsValid: true}
	der, _ := x509.CreateCertificate(rand.Reader, tpl, tpl, &key.PublicKey, key)
	return pem.EncodeToMemory(&pem.Block{Type: "CERTIFICATE", Bytes: der})
}

func runC20Late(w *core.WorkerCtx, k int) *core.CaseResult {
	r := core.NewRng(w.Seed, 0xC20A, uint64(k))
	res := &core.CaseResult{Sig: fmt.Sprintf("late-client-%d", k), Nontrivial: true}
	dir := filepath.Join(w.Scratch, fmt.Sprintf("c20late-%d", k))
	_ = os.MkdirAll(dir, 0755)
	defer os.RemoveAll(dir)
	ca := filepath.Join(dir, "ca.pem")
	var mu sync.Mutex
	hits := map[string]int{}
	srv := httptest.NewServer(http.HandlerFunc(func(rw http.ResponseWriter, rq *http.Request) {
		mu.Lock()
		hits[rq.URL.Query().Get("id")]++
		mu.Unlock()
		rw.Header().Set("Content-Type", "text/plain; version=0.0.4")
		io.WriteString(rw, "m_a 1\nm_b{x=\"1\"} 2\nm_b{x=\"2\"} 3\n")
	}))
	defer srv.Close()
	addr := srv.Listener.Addr().(*net.TCPAddr).String()
	cfg := fmt.Sprintf("global:\n  scrape_interval: 15s\n  scrape_timeout: 10s\nscrape_configs:\n- job_name: plain\n- job_name: late\n  tls_config:\n    ca_file: %s\n", ca)
	p := newPipeline(1 + r.Intn(8))
	defer p.close()
	if err := p.cm.ReloadFromRaw([]byte(cfg)); err != nil {
		res.Inconcl = "reload: " + err.Error()
		return res
	}
	if p.sm.GetJob("late") != nil {
		res.Inconcl = "the job's client was built although its CA file is missing"
		return res
	}
	n := 2 + r.Intn(5)
	var ts []map[string]string
	for i := 0; i < n; i++ {
		ts = append(ts, map[string]string{"__address__": addr, "__param_id": fmt.Sprintf("late%d", i)})
	}
	groups := map[string][]*targetgroup.Group{"late": {group("late/0", ts)}, "plain": {group("plain/0", []map[string]string{{"__address__": addr, "__param_id": "plain0"}})}}
	if err := p.update(groups); err != nil {
		res.Inconcl = err.Error()
		return res
	}
	active := p.disc.ActiveTargetsByHash()
	for h := range active {
		p.exp.Get(h) // first asked for
	}
	// the CA file appears (secret rotated), the configuration is reloaded
	time.Sleep(time.Duration(200+r.Intn(1500)) * time.Millisecond)
	if err := os.WriteFile(ca, c20CAPem(), 0644); err != nil {
		res.Inconcl = err.Error()
		return res
	}
	if err := p.cm.ReloadFromRaw([]byte(cfg)); err != nil {
		res.Inconcl = "second reload: " + err.Error()
		return res
	}
	if p.sm.GetJob("late") == nil {
		res.Inconcl = "the job's client is still missing after the CA file appeared"
		return res
	}
	repaired := time.Now()
	deadline := repaired.Add(retryInterval + 10*time.Second)
	pending := func() []string {
		var l []string
		mu.Lock()
		defer mu.Unlock()
		for h, t := range active {
			id := t.ShardTarget.Labels.Get("__param_id")
			st := p.exp.Get(h)
			if hits[id] == 0 || st == nil || string(st.Health) != "up" {
				l = append(l, fmt.Sprintf("%s(requests %d)", id, hits[id]))
			}
		}
		return l
	}
	var left []string
	for {
		left = pending()
		if len(left) == 0 || time.Now().After(deadline) {
			break
		}
		time.Sleep(100 * time.Millisecond)
	}
	res.Execs = n + 1
	res.AddStat("late_client_targets", int64(n))
	if len(left) > 0 {
		res.Violate("C20/retry-missing/job-client-repaired", "%d of %d targets were asked for while their job's HTTP client could not be built; %v after the reload that repaired it (retry interval %v) these are still unprobed or without a healthy estimate: %v", len(left), n+1, time.Since(repaired).Round(time.Second), retryInterval, left)
		res.Witness = map[string]interface{}{"config": cfg, "pending": left}
	} else {
		res.AddStat("late_client_targets_probed_after_repair", int64(n))
		res.AddSet("seconds_until_all_probed", fmt.Sprint(int(time.Since(repaired).Seconds())))
	}
	return res
}
