// Package e5 wires the coordinator-side pipeline as cmd/kvass/coordinator.go does (config manager
// -> scrape manager, explorer, target discovery; discovery channel -> explorer) and drives it with
// scripted discovery updates, reloads and loopback HTTP targets (C17, C20).
package e5

import (
	"context"
	"fmt"
	"net/http"
	"net/http/httptest"
	"strconv"
	"sync"
	"time"

	"github.com/prometheus/client_golang/prometheus"
	"github.com/prometheus/common/model"
	"github.com/prometheus/prometheus/discovery/targetgroup"

	"kvassverif/internal/sc"
	"tkestack.io/kvass/pkg/coordinator"
	"tkestack.io/kvass/pkg/discovery"
	"tkestack.io/kvass/pkg/explore"
	"tkestack.io/kvass/pkg/prom"
	"tkestack.io/kvass/pkg/scrape"
	"tkestack.io/kvass/pkg/target"
)

// pipeline is the coordinator-side object graph.
type pipeline struct {
	cm   *prom.ConfigManager
	sm   *scrape.Manager
	exp  *explore.Explore
	disc *discovery.TargetsDiscovery
	sdCh chan map[string][]*targetgroup.Group
	svc  *coordinator.Service // the coordinator's API service, reading the same tables as everybody else

	ctx    context.Context
	cancel context.CancelFunc

	mu        sync.Mutex
	forwarded int // updates handed to the explorer so far
	onForward func(n int, ts map[string][]*discovery.SDTargets, at time.Time)
	// beforeExplorerReload, if set, is called between the scrape manager's and the explorer's reload callbacks (a
	// harness callback in the ConfigManager's list; it does nothing but signal)
	beforeExplorerReload func()
	clientLog            clientLog // requests of the stamped job clients, as the client saw them
}

func newPipeline(workers int) *pipeline {
	p := &pipeline{sdCh: make(chan map[string][]*targetgroup.Group)}
	p.ctx, p.cancel = context.WithCancel(context.Background())
	p.sm = scrape.New(false, sc.Quiet)
	p.cm = prom.NewConfigManager()
	p.disc = discovery.New(sc.Quiet)
	p.exp = explore.New(p.sm, prometheus.NewRegistry(), sc.Quiet)
	// same order as cmd/kvass/coordinator.go
	p.cm.AddReloadCallbacks(p.sm.ApplyConfig, func(*prom.ConfigInfo) error {
		p.mu.Lock()
		f := p.beforeExplorerReload
		p.mu.Unlock()
		if f != nil {
			f()
		}
		return nil
	}, p.exp.ApplyConfig, p.disc.ApplyConfig)
	// the API service as cmd/kvass/coordinator.go constructs it; the per-target health it shows comes from the
	// coordinator, here: alternating by hash so that health filters have something to filter
	p.svc = coordinator.NewService("", p.cm,
		func(string, bool) (map[string]*scrape.StatisticsSeriesResult, error) {
			return map[string]*scrape.StatisticsSeriesResult{}, nil
		},
		func() map[uint64]*target.ScrapeStatus {
			m := map[uint64]*target.ScrapeStatus{}
			for h := range p.disc.ActiveTargetsByHash() {
				st := target.NewScrapeStatus(1, 1)
				switch h % 3 {
				case 0:
					st.Health = "up"
				case 1:
					st.Health = "down"
				}
				m[h] = st
			}
			return m
		},
		p.disc.ActiveTargets, p.disc.DropTargets, prometheus.NewRegistry(), sc.Quiet)
	go func() { _ = p.disc.Run(p.ctx, p.sdCh) }()
	go func() {
		for {
			select {
			case <-p.ctx.Done():
				return
			case ts := <-p.disc.ActiveTargetsChan():
				p.exp.UpdateTargets(ts)
				at := time.Now()
				p.mu.Lock()
				p.forwarded++
				n, f := p.forwarded, p.onForward
				p.mu.Unlock()
				if f != nil {
					f(n, ts, at)
				}
			}
		}
	}()
	if workers > 0 {
		go func() { _ = p.exp.Run(p.ctx, workers) }()
	}
	return p
}

func (p *pipeline) close() { p.cancel() }

// apiReads issues the read requests an operator or dashboard sends to the coordinator's API.
func (p *pipeline) apiReads() int {
	n := 0
	for _, q := range []string{"", "?health=up", "?health=down&state=active", "?health=unknown", "?job=ja&health=up", "?statistics=with", "?state=dropped", "?health=up&health=down"} {
		rw := httptest.NewRecorder()
		p.svc.ServeHTTP(rw, httptest.NewRequest("GET", "/api/v1/targets"+q, nil))
		if rw.Code == 200 {
			n++
		}
	}
	return n
}

// update sends one discovery update and waits until it has reached the explorer.
func (p *pipeline) update(groups map[string][]*targetgroup.Group) error {
	p.mu.Lock()
	before := p.forwarded
	p.mu.Unlock()
	select {
	case p.sdCh <- groups:
	case <-time.After(60 * time.Second):
		return fmt.Errorf("discovery did not accept the update within 60 s")
	}
	deadline := time.Now().Add(60 * time.Second)
	for {
		p.mu.Lock()
		n := p.forwarded
		p.mu.Unlock()
		if n > before {
			return nil
		}
		if time.Now().After(deadline) {
			return fmt.Errorf("update was not forwarded to the explorer within 60 s")
		}
		time.Sleep(200 * time.Microsecond)
	}
}

// burst sends several discovery updates back to back (no waiting for the explorer in between) and
// waits until all of them have reached the explorer.
func (p *pipeline) burst(updates []map[string][]*targetgroup.Group) error {
	p.mu.Lock()
	before := p.forwarded
	p.mu.Unlock()
	for _, u := range updates {
		select {
		case p.sdCh <- u:
		case <-time.After(60 * time.Second):
			return fmt.Errorf("discovery did not accept the update within 60 s")
		}
	}
	deadline := time.Now().Add(60 * time.Second)
	for {
		p.mu.Lock()
		n := p.forwarded
		p.mu.Unlock()
		if n >= before+len(updates) {
			return nil
		}
		if time.Now().After(deadline) {
			return fmt.Errorf("%d of %d updates were forwarded to the explorer within 60 s", n-before, len(updates))
		}
		time.Sleep(200 * time.Microsecond)
	}
}

func group(source string, targets []map[string]string) *targetgroup.Group {
	g := &targetgroup.Group{Source: source}
	for _, t := range targets {
		ls := model.LabelSet{}
		for k, v := range t {
			ls[model.LabelName(k)] = model.LabelValue(v)
		}
		g.Targets = append(g.Targets, ls)
	}
	return g
}

// stampTransport adds the moment a probe leaves the explorer (client side) to the request: under heavy load the
// target's handler may start seconds later, and attributing a probe to the period in which the HANDLER started
// blames the wrong presence period of a target that left discovery and came back in between.
type stampTransport struct {
	inner http.RoundTripper
	log   *clientLog
}

// clientAttempt is one request as the explorer's HTTP client saw it.
type clientAttempt struct {
	Path   string
	SentNs int64
	Sent   time.Time
	Done   time.Time // zero: still in flight
	Err    string    // transport-level error (the request may never have reached the target)
	Status int
}

type clientLog struct {
	mu       sync.Mutex
	attempts []*clientAttempt
}

func (l *clientLog) snapshot() []clientAttempt {
	l.mu.Lock()
	defer l.mu.Unlock()
	out := make([]clientAttempt, 0, len(l.attempts))
	for _, a := range l.attempts {
		out = append(out, *a)
	}
	return out
}

func (s stampTransport) RoundTrip(r *http.Request) (*http.Response, error) {
	r2 := r.Clone(r.Context())
	now := time.Now()
	r2.Header.Set("X-Harness-Sent", strconv.FormatInt(now.UnixNano(), 10))
	var a *clientAttempt
	if s.log != nil {
		a = &clientAttempt{Path: r.URL.Path, SentNs: now.UnixNano(), Sent: now}
		s.log.mu.Lock()
		s.log.attempts = append(s.log.attempts, a)
		s.log.mu.Unlock()
	}
	resp, err := s.inner.RoundTrip(r2)
	if a != nil {
		s.log.mu.Lock()
		a.Done = time.Now()
		if err != nil {
			a.Err = err.Error()
		} else {
			a.Status = resp.StatusCode
		}
		s.log.mu.Unlock()
	}
	return resp, err
}

// stampClients wraps the HTTP clients of the given jobs (JobInfo.Cli is an exported field; the job objects are
// re-created by every reload, so this is called again after each one).
func (p *pipeline) stampClients(jobs ...string) {
	for _, j := range jobs {
		ji := p.sm.GetJob(j)
		if ji == nil || ji.Cli == nil {
			continue
		}
		if _, ok := ji.Cli.Transport.(stampTransport); ok {
			continue
		}
		inner := ji.Cli.Transport
		if inner == nil {
			inner = http.DefaultTransport
		}
		cli := *ji.Cli
		cli.Transport = stampTransport{inner: inner, log: &p.clientLog}
		ji.Cli = &cli
	}
}
