// Package e6 runs the real Kubernetes replicas / shard managers on a client-go fake clientset
// and judges the objects and the recorded API actions (C18).
package e6

import (
	"context"
	"fmt"
	"sort"
	"strings"

	appsv1 "k8s.io/api/apps/v1"
	corev1 "k8s.io/api/core/v1"
	apierrors "k8s.io/apimachinery/pkg/api/errors"
	metav1 "k8s.io/apimachinery/pkg/apis/meta/v1"
	"k8s.io/apimachinery/pkg/runtime"
	"k8s.io/apimachinery/pkg/runtime/schema"
	"k8s.io/client-go/kubernetes/fake"
	k8stesting "k8s.io/client-go/testing"

	"kvassverif/internal/core"
	"kvassverif/internal/sc"
	kk "tkestack.io/kvass/pkg/shard/kubernetes"
)

type c18Case struct {
	Old       int    `json:"old"`
	New       int    `json:"new"`
	Templates int    `json:"templates"`
	DeletePVC bool   `json:"deletePVC"`
	Order     int    `json:"podOrder"`              // index of a permutation class
	Ready     uint32 `json:"readyMask"`             // bit k: pod k has an IP
	Updating  int    `json:"updating"`              // 0: up to date, 1: rolling update in progress
	TwoSets   bool   `json:"twoSets"`               // a second StatefulSet with a similar name exists
	Then      int    `json:"then"`                  // >= 0: a second ChangeScale(Then) on the SAME manager object (the coordinator calls it twice per cycle)
	UpdFail   string `json:"updateFails,omitempty"` // "conflict" | "error": the StatefulSet update of the (first) ChangeScale is rejected by the API server
	External  int    `json:"external"`              // >= 0: somebody else scales the StatefulSet to this count between Replicas() and ChangeScale()
	Missing   uint32 `json:"missingMask,omitempty"` // bit k: pod k is not in the listing (lost and not yet re-created)
	Foreign   bool   `json:"foreignPod,omitempty"`  // a pod of another workload carries the same labels (kubectl debug --copy-to)
	Relist    bool   `json:"relist,omitempty"`      // after the first listing pods are re-created with other IPs (or get / lose their IP) and the SAME replicas manager lists again
}

const maxN = 12 // ordinals >= 10 matter: "prom-10" sorts before "prom-2" as a string

func c18Cases(tier string) []c18Case {
	var cs []c18Case
	for old := 0; old <= maxN; old++ {
		for nw := 0; nw <= maxN; nw++ {
			for tpl := 0; tpl <= 2; tpl++ {
				for _, del := range []bool{false, true} {
					for order := 0; order < 6; order++ {
						masks := []uint32{0, (1 << uint(old)) - 1, 0x555 & ((1 << uint(old)) - 1), 0xaaa & ((1 << uint(old)) - 1)}
						if tier == "thorough" {
							if old <= 6 {
								masks = nil
								for m := uint32(0); m < 1<<uint(old); m++ {
									masks = append(masks, m)
								}
							} else {
								r := core.NewRng(uint64(old), uint64(nw), uint64(order))
								for k := 0; k < 16; k++ {
									masks = append(masks, uint32(r.Uint64())&((1<<uint(old))-1))
								}
							}
						}
						seen := map[uint32]bool{}
						for _, m := range masks {
							if seen[m] {
								continue
							}
							seen[m] = true
							cs = append(cs, c18Case{Old: old, New: nw, Templates: tpl, DeletePVC: del, Order: order, Ready: m, TwoSets: (old+nw+order)%2 == 0, Then: -1, External: -1})
						}
					}
				}
			}
		}
		// the same manager asked twice, and a StatefulSet scaled behind the manager's back
		if old <= 6 {
			for nw := 0; nw <= 6; nw++ {
				for x := 0; x <= 6; x++ {
					for _, del := range []bool{false, true} {
						cs = append(cs, c18Case{Old: old, New: nw, Templates: 1, DeletePVC: del, Ready: (1 << uint(old)) - 1, Then: x, External: -1})
						cs = append(cs, c18Case{Old: old, New: nw, Templates: 1, DeletePVC: del, Ready: (1 << uint(old)) - 1, Then: -1, External: x})
					}
				}
			}
		}
		// rolling update in progress
		for order := 0; order < 2; order++ {
			cs = append(cs, c18Case{Old: old, New: old, Templates: 1, Order: order, Ready: (1 << uint(old)) - 1, Updating: 1, TwoSets: true, Then: -1, External: -1})
		}
	}
	// a pod is missing from the listing (deleted, not yet re-created) while higher ordinals exist, or a foreign pod
	// matches the selector: no position may show a ready shard unless the pod of that ordinal is listed with an IP
	for _, old := range []int{2, 3, 4, 6, 11, 12} {
		for order := 0; order < 6; order++ {
			for k := 0; k < old; k++ {
				if old > 6 && k != 0 && k != 1 && k != 9 && k != old-1 {
					continue
				}
				cs = append(cs, c18Case{Old: old, New: old, Templates: 1, Order: order, Ready: (1 << uint(old)) - 1, Then: -1, External: -1, Missing: 1 << uint(k)})
				cs = append(cs, c18Case{Old: old, New: old, Templates: 1, Order: order, Ready: ((1 << uint(old)) - 1) &^ 1, Then: -1, External: -1, Missing: 1 << uint(k), Foreign: true})
			}
			cs = append(cs, c18Case{Old: old, New: old, Templates: 1, Order: order, Ready: (1 << uint(old)) - 1, Then: -1, External: -1, Foreign: true})
			if old >= 3 {
				cs = append(cs, c18Case{Old: old, New: old, Templates: 1, Order: order, Ready: (1 << uint(old)) - 1, Then: -1, External: -1, Missing: 3})
			}
		}
	}
	// the coordinator holds ONE replicas manager for its whole life: pods re-created between two listings come back with
	// other addresses, pods without an IP get one, pod 0 loses its IP
	for _, old := range []int{1, 2, 3, 5, 11, 12} {
		for order := 0; order < 6; order++ {
			for _, m := range []uint32{(1 << uint(old)) - 1, 0x555 & ((1 << uint(old)) - 1), 0} {
				cs = append(cs, c18Case{Old: old, New: old, Templates: 1, Order: order, Ready: m, Then: -1, External: -1, Relist: true, TwoSets: order%2 == 0})
			}
		}
	}
	// the API server rejects the StatefulSet update (optimistic-lock conflict with the controller's status
	// writes, or a server error): the count stays, every shard remains, so no claim may go
	for _, old := range []int{1, 2, 3, 5, 12} {
		for _, nw := range []int{0, 1, old - 1, old + 2} {
			if nw < 0 || nw == old {
				continue
			}
			for _, kind := range []string{"conflict", "error"} {
				for _, tpl := range []int{1, 2} {
					cs = append(cs, c18Case{Old: old, New: nw, Templates: tpl, DeletePVC: true, Ready: (1 << uint(old)) - 1, Then: -1, External: -1, UpdFail: kind})
				}
			}
		}
	}
	return cs
}

func permute(n, class int) []int {
	p := make([]int, n)
	for i := range p {
		p[i] = i
	}
	switch class {
	case 1: // reversed
		for i, j := 0, n-1; i < j; i, j = i+1, j-1 {
			p[i], p[j] = p[j], p[i]
		}
	case 2: // rotated by one
		if n > 1 {
			p = append(p[1:], p[0])
		}
	case 3: // even ordinals first
		var e, o []int
		for i := 0; i < n; i++ {
			if i%2 == 0 {
				e = append(e, i)
			} else {
				o = append(o, i)
			}
		}
		p = append(e, o...)
	case 4: // lexicographic by name as an API server may return (set-10 before set-2 does not occur for n <= 6; use middle-out)
		var q []int
		for i, j := n/2, n/2-1; i < n || j >= 0; i, j = i+1, j-1 {
			if i < n {
				q = append(q, i)
			}
			if j >= 0 {
				q = append(q, j)
			}
		}
		p = q
	case 5: // swap first and last
		if n > 1 {
			p[0], p[n-1] = p[n-1], p[0]
		}
	}
	return p
}

func i32(v int) *int32 { x := int32(v); return &x }

func buildWorld(c c18Case) (objs []runtime.Object, pvcNames map[string]bool) {
	const ns, set = "monitoring", "prom"
	pvcNames = map[string]bool{}
	mk := func(name string, replicas int, sel string, updating bool) *appsv1.StatefulSet {
		s := &appsv1.StatefulSet{ObjectMeta: metav1.ObjectMeta{Name: name, Namespace: ns, Labels: map[string]string{"kvass": "shards"}},
			Spec:   appsv1.StatefulSetSpec{Replicas: i32(replicas), Selector: &metav1.LabelSelector{MatchLabels: map[string]string{"app": sel}}},
			Status: appsv1.StatefulSetStatus{Replicas: int32(replicas), UpdatedReplicas: int32(replicas), ReadyReplicas: int32(replicas)}}
		if updating {
			s.Status.UpdatedReplicas = int32(replicas) - 1
			if replicas == 0 {
				s.Status.UpdatedReplicas = 1
			}
		}
		for t := 0; t < c.Templates; t++ {
			s.Spec.VolumeClaimTemplates = append(s.Spec.VolumeClaimTemplates, corev1.PersistentVolumeClaim{ObjectMeta: metav1.ObjectMeta{Name: []string{"data", "wal"}[t]}})
		}
		return s
	}
	objs = append(objs, mk(set, c.Old, set, c.Updating == 1))
	if c.TwoSets {
		objs = append(objs, mk(set+"-b", 2, set+"-b", false))
	}
	if c.Foreign && c.Order%2 == 0 {
		objs = append(objs, &corev1.Pod{ObjectMeta: metav1.ObjectMeta{Name: "debug-copy-of-" + set, Namespace: ns, Labels: map[string]string{"app": set}}, Status: corev1.PodStatus{PodIP: "10.9.3.3"}})
	}
	for _, k := range permute(c.Old, c.Order) {
		if c.Missing&(1<<uint(k)) != 0 {
			continue
		}
		p := &corev1.Pod{ObjectMeta: metav1.ObjectMeta{Name: fmt.Sprintf("%s-%d", set, k), Namespace: ns, Labels: map[string]string{"app": set}}}
		if c.Ready&(1<<uint(k)) != 0 {
			p.Status.PodIP = fmt.Sprintf("10.9.0.%d", k+10)
		}
		objs = append(objs, p)
	}
	if c.Foreign && c.Order%2 == 1 {
		objs = append(objs, &corev1.Pod{ObjectMeta: metav1.ObjectMeta{Name: set + "-debug", Namespace: ns, Labels: map[string]string{"app": set}}, Status: corev1.PodStatus{PodIP: "10.9.3.3"}})
	}
	if c.TwoSets {
		for k := 0; k < 2; k++ {
			objs = append(objs, &corev1.Pod{ObjectMeta: metav1.ObjectMeta{Name: fmt.Sprintf("%s-b-%d", set, k), Namespace: ns, Labels: map[string]string{"app": set + "-b"}},
				Status: corev1.PodStatus{PodIP: fmt.Sprintf("10.9.1.%d", k+10)}})
		}
	}
	// claims for every ordinal up to maxN of both sets, plus decoys with similar names
	addPVC := func(name string) {
		objs = append(objs, &corev1.PersistentVolumeClaim{ObjectMeta: metav1.ObjectMeta{Name: name, Namespace: ns}})
		pvcNames[name] = true
	}
	for t := 0; t < c.Templates; t++ {
		tn := []string{"data", "wal"}[t]
		for k := 0; k <= maxN; k++ {
			addPVC(fmt.Sprintf("%s-%s-%d", tn, set, k))
			addPVC(fmt.Sprintf("%s-%s-b-%d", tn, set, k))
		}
		addPVC(fmt.Sprintf("%s-%s-100", tn, set)) // data-prom-100
		addPVC(fmt.Sprintf("x%s-%s-%d", tn, set, 1))
	}
	addPVC("other-prom-0")
	addPVC("data-promx-0")
	return
}

func runC18(w *core.WorkerCtx, idx int) *core.CaseResult {
	cs := c18Cases(w.Tier)
	c := cs[idx]
	res := &core.CaseResult{Sig: fmt.Sprintf("%+v", c), Nontrivial: true, Execs: 1}
	const ns, set, port = "monitoring", "prom", 8080
	objs, pvcs := buildWorld(c)
	cli := fake.NewSimpleClientset(objs...)
	rm := kk.NewReplicasManager(cli, ns, "kvass=shards", port, c.DeletePVC, sc.Quiet)
	mgrs, err := rm.Replicas()
	if err != nil {
		res.Violate("C18/replicas-error", "Replicas(): %v", err)
		return res
	}
	want := 1
	if c.Updating == 1 {
		want = 0
	}
	if c.TwoSets {
		want++
	}
	if len(mgrs) != want {
		res.Violate("C18/rolling-update-not-skipped", "Replicas() returned %d managers, expected %d (rolling update in progress on %q: %v)", len(mgrs), want, set, c.Updating == 1)
		res.Witness = c
		return res
	}
	if c.Updating == 1 {
		res.AddStat("rolling_updates_skipped", 1)
		return res
	}
	m := mgrs[0]
	// ---- Shards()
	shards, err := m.Shards()
	if err != nil {
		res.Violate("C18/shards-error", "Shards(): %v", err)
		return res
	}
	res.AddStat("shard_listings", 1)
	if c.Missing != 0 || c.Foreign {
		res.AddStat("listings_with_a_missing_or_foreign_pod", 1)
		seen := map[string]int{}
		for k, s := range shards {
			listed := k < c.Old && c.Missing&(1<<uint(k)) == 0
			hasIP := listed && c.Ready&(1<<uint(k)) != 0
			var got string
			s.APIGet = func(url string, ret interface{}) error { got = url; return fmt.Errorf("stop") }
			_, _ = s.RuntimeInfo()
			switch {
			case !listed && s.Ready:
				res.Violate("C18/ready-shard-without-pod", "position %d: no pod %s-%d is in the listing (missing mask %b, foreign pod %v, order class %d), but a READY shard %q contacted at %q is listed there", k, set, k, c.Missing, c.Foreign, c.Order, s.ID, got)
			case listed && s.ID != fmt.Sprintf("%s-%d", set, k):
				res.Violate("C18/shard-order", "position %d holds shard %q, expected %q (missing mask %b, foreign pod %v, order class %d)", k, s.ID, fmt.Sprintf("%s-%d", set, k), c.Missing, c.Foreign, c.Order)
			case listed && s.Ready != hasIP:
				res.Violate("C18/shard-readiness", "shard %s ready=%v, pod has IP=%v", s.ID, s.Ready, hasIP)
			case listed && hasIP && !strings.HasPrefix(got, fmt.Sprintf("http://10.9.0.%d:%d/", k+10, port)):
				res.Violate("C18/shard-address", "shard %s is contacted at %q, expected the address of pod %d", s.ID, got, k)
			}
			if s.Ready {
				if j, dup := seen[s.ID]; dup {
					res.Violate("C18/ready-shard-listed-twice", "shard %q is listed as ready at positions %d and %d", s.ID, j, k)
				}
				seen[s.ID] = k
			}
		}
		if len(res.Viol) > 0 {
			res.Witness = c
		}
		return res
	}
	if len(shards) != c.Old {
		res.Violate("C18/shard-count", "Shards() lists %d shards for %d pods", len(shards), c.Old)
	}
	for k, s := range shards {
		wantID := fmt.Sprintf("%s-%d", set, k)
		ready := c.Ready&(1<<uint(k)) != 0
		if s.ID != wantID {
			res.Violate("C18/shard-order", "position %d holds shard %q, expected %q (pod order class %d)", k, s.ID, wantID, c.Order)
		}
		if s.Ready != ready {
			res.Violate("C18/shard-readiness", "shard %s ready=%v, pod has IP=%v", s.ID, s.Ready, ready)
		}
		// the address is only observable through the URLs the shard calls
		if ready {
			var got string
			s.APIGet = func(url string, ret interface{}) error { got = url; return fmt.Errorf("stop") }
			_, _ = s.RuntimeInfo()
			wantURL := fmt.Sprintf("http://10.9.0.%d:%d/", k+10, port)
			if !strings.HasPrefix(got, wantURL) {
				res.Violate("C18/shard-address", "shard %s is contacted at %q, expected prefix %q", s.ID, got, wantURL)
			}
			res.AddStat("addresses_checked", 1)
		}
	}
	if c.Relist {
		// second listing through the same replicas manager after the pods changed
		ready2 := map[int]string{}
		for k := 0; k < c.Old; k++ {
			name := fmt.Sprintf("%s-%d", set, k)
			p, err := cli.CoreV1().Pods(ns).Get(nil2ctx(), name, metav1.GetOptions{})
			if err != nil {
				res.Inconcl = "harness: pod " + name + ": " + err.Error()
				return res
			}
			switch {
			case k == 0 && c.Old > 1:
				p.Status.PodIP = "" // being re-created right now
			default:
				p.Status.PodIP = fmt.Sprintf("10.77.%d.%d", idx%200, k+10)
				ready2[k] = p.Status.PodIP
			}
			if _, err := cli.CoreV1().Pods(ns).UpdateStatus(nil2ctx(), p, metav1.UpdateOptions{}); err != nil {
				res.Inconcl = "harness: update pod: " + err.Error()
				return res
			}
		}
		mgrs2, err := rm.Replicas()
		if err != nil || len(mgrs2) == 0 {
			res.Violate("C18/replicas-error", "second Replicas(): %v (%d managers)", err, len(mgrs2))
			return res
		}
		var m2 = mgrs2[0]
		for _, x := range mgrs2 {
			if l, err := x.Shards(); err == nil && len(l) == c.Old && (c.Old == 0 || l[0].ID == fmt.Sprintf("%s-0", set)) {
				m2 = x
			}
		}
		shards2, err := m2.Shards()
		if err != nil {
			res.Violate("C18/shards-error", "second Shards(): %v", err)
			return res
		}
		res.AddStat("second_listings_after_pods_changed", 1)
		if len(shards2) != c.Old {
			res.Violate("C18/shard-count", "second listing: %d shards for %d pods", len(shards2), c.Old)
		}
		for k, s := range shards2 {
			ip, ready := ready2[k]
			if s.ID != fmt.Sprintf("%s-%d", set, k) {
				res.Violate("C18/shard-order", "second listing: position %d holds shard %q", k, s.ID)
				continue
			}
			if s.Ready != ready {
				res.Violate("C18/shard-readiness", "second listing: shard %s ready=%v, pod has IP=%v (first listing: pod had IP=%v)", s.ID, s.Ready, ready, c.Ready&(1<<uint(k)) != 0)
			}
			if ready {
				var got string
				s.APIGet = func(url string, ret interface{}) error { got = url; return fmt.Errorf("stop") }
				_, _ = s.RuntimeInfo()
				if !strings.HasPrefix(got, fmt.Sprintf("http://%s:%d/", ip, port)) {
					res.Violate("C18/shard-address", "second listing through the same replicas manager: shard %s is contacted at %q, its pod now has the address %s (at the first listing: IP present = %v)", s.ID, got, ip, c.Ready&(1<<uint(k)) != 0)
				}
				res.AddStat("addresses_checked", 1)
			}
		}
		if len(res.Viol) > 0 {
			res.Witness = c
		}
		return res
	}
	// ---- ChangeScale: one or two calls on the same manager object, possibly after an external change
	live := c.Old
	if c.External >= 0 {
		if sts, err := cli.AppsV1().StatefulSets(ns).Get(nil2ctx(), set, metav1.GetOptions{}); err == nil {
			sts.Spec.Replicas = i32(c.External)
			if _, err := cli.AppsV1().StatefulSets(ns).Update(nil2ctx(), sts, metav1.UpdateOptions{}); err == nil {
				live = c.External
			}
		}
	}
	steps := []int{c.New}
	if c.Then >= 0 {
		steps = append(steps, c.Then)
	}
	var deletedAll []string
	updatesAll := 0
	if c.UpdFail != "" {
		cli.PrependReactor("update", "statefulsets", func(k8stesting.Action) (bool, runtime.Object, error) {
			if c.UpdFail == "conflict" {
				return true, nil, apierrors.NewConflict(schema.GroupResource{Group: "apps", Resource: "statefulsets"}, set, fmt.Errorf("the object has been modified; please apply your changes to the latest version and try again"))
			}
			return true, nil, apierrors.NewInternalError(fmt.Errorf("etcdserver: request timed out"))
		})
	}
	for _, stepNew := range steps {
		cli.ClearActions()
		if err := m.ChangeScale(int32(stepNew)); err != nil && c.UpdFail == "" {
			res.Violate("C18/change-scale-error", "ChangeScale(%d): %v", stepNew, err)
		}
		if c.UpdFail != "" {
			res.AddStat("scale_changes_with_rejected_update", 1)
			var gone []string
			for _, a := range cli.Actions() {
				if a.GetVerb() == "delete" && a.GetResource().Resource == "persistentvolumeclaims" {
					gone = append(gone, a.(k8stesting.DeleteAction).GetName())
				}
			}
			if sts, err := cli.AppsV1().StatefulSets(ns).Get(nil2ctx(), set, metav1.GetOptions{}); err == nil && sts.Spec.Replicas != nil && int(*sts.Spec.Replicas) == live && len(gone) > 0 {
				res.Violate("C18/pvc-deleted/update-rejected", "the StatefulSet update of scale %d -> %d was rejected (%s), the count is still %d and every shard remains, yet claims %v were deleted", live, stepNew, c.UpdFail, live, gone)
			}
			continue
		}
		updates, deleted := 0, map[string]bool{}
		var otherWrites []string
		for _, a := range cli.Actions() {
			verb, resource := a.GetVerb(), a.GetResource().Resource
			switch {
			case verb == "get" || verb == "list" || verb == "watch":
			case verb == "update" && resource == "statefulsets":
				updates++
				sts, ok := a.(k8stesting.UpdateAction).GetObject().(*appsv1.StatefulSet)
				if !ok || sts.Name != set || sts.Spec.Replicas == nil || int(*sts.Spec.Replicas) != stepNew {
					res.Violate("C18/wrong-update", "StatefulSet update sets replicas to something else than the requested %d", stepNew)
				}
			case verb == "delete" && resource == "persistentvolumeclaims":
				deleted[a.(k8stesting.DeleteAction).GetName()] = true
			default:
				otherWrites = append(otherWrites, verb+" "+resource)
			}
		}
		res.AddStat("scale_changes", 1)
		if stepNew != live && updates != 1 {
			res.Violate("C18/update-count", "scale %d -> %d issued %d StatefulSet updates, expected exactly 1", live, stepNew, updates)
		}
		if stepNew == live && (updates != 0 || len(deleted) != 0 || len(otherWrites) != 0) {
			res.Violate("C18/unchanged-scale-not-noop", "scale unchanged at %d but %d updates, deletions %v, other writes %v", live, updates, keysB(deleted), otherWrites)
		}
		if len(otherWrites) > 0 {
			res.Violate("C18/unexpected-write", "unexpected API writes: %v", otherWrites)
		}
		// the object in the API afterwards
		if sts, err := cli.AppsV1().StatefulSets(ns).Get(nil2ctx(), set, metav1.GetOptions{}); err == nil {
			if sts.Spec.Replicas == nil || int(*sts.Spec.Replicas) != stepNew {
				got := -1
				if sts.Spec.Replicas != nil {
					got = int(*sts.Spec.Replicas)
				}
				res.Violate("C18/replicas-not-set", "after ChangeScale(%d) the StatefulSet has replicas %d", stepNew, got)
			}
		}
		wantDel := map[string]bool{}
		if c.DeletePVC {
			for i := stepNew; i < live; i++ {
				for t := 0; t < c.Templates; t++ {
					wantDel[fmt.Sprintf("%s-%s-%d", []string{"data", "wal"}[t], set, i)] = true
				}
			}
		}
		for n := range deleted {
			if !wantDel[n] {
				kind := "claim-of-remaining-or-foreign"
				if !c.DeletePVC {
					kind = "deletion-disabled"
				}
				res.Violate("C18/pvc-deleted/"+kind, "scale %d -> %d (templates %d, deletion %v) deleted claim %q, allowed set %v", live, stepNew, c.Templates, c.DeletePVC, n, keysB(wantDel))
			}
			if !pvcs[n] {
				res.AddStat("deletes_of_nonexistent_claims", 1)
			}
		}
		for n := range wantDel {
			if !deleted[n] {
				res.Violate("C18/pvc-not-deleted", "scale %d -> %d with deletion enabled left claim %q", live, stepNew, n)
			}
		}
		res.AddStat("claims_deleted", int64(len(deleted)))
		// remaining claims really are still there
		if list, err := cli.CoreV1().PersistentVolumeClaims(ns).List(nil2ctx(), metav1.ListOptions{}); err == nil {
			left := map[string]bool{}
			for _, p := range list.Items {
				left[p.Name] = true
			}
			for n := range pvcs {
				if !wantDel[n] && !left[n] {
					res.Violate("C18/pvc-missing-afterwards", "claim %q no longer exists after scale %d -> %d", n, live, stepNew)
				}
			}
		}

		deletedAll = append(deletedAll, keysB(deleted)...)
		updatesAll += updates
		for n := range wantDel {
			delete(pvcs, n)
		}
		live = stepNew
	}
	res.Viol = dedupe(res.Viol)
	if len(res.Viol) > 0 {
		res.Witness = c
	}
	if idx%500 == 0 {
		res.Sample = map[string]interface{}{"case": c, "deleted_claims": deletedAll, "statefulset_updates": updatesAll}
	}
	return res
}

func keysB(m map[string]bool) []string {
	var o []string
	for k := range m {
		o = append(o, k)
	}
	sort.Strings(o)
	return o
}

func dedupe(vs []core.Violation) []core.Violation {
	seen := map[string]bool{}
	var out []core.Violation
	for _, v := range vs {
		if !seen[v.Sig] {
			seen[v.Sig] = true
			out = append(out, v)
		}
	}
	return out
}

func init() {
	core.Register(&core.Prop{
		ID:    "C18",
		Level: "exploration",
		Rule: "exhaustive sweep within bounds: current and requested replica count in 0..12 (two-digit ordinals included) x 0..2 volume claim templates x deletion flag x 6 pod-list order classes x readiness patterns (quick: none / all / two alternating masks; thorough: every subset of pods with an IP up to 6 pods, 16 random subsets above), each with claims for all ordinals 0..12 of two StatefulSets plus decoys with similar names (data-prom-100, xdata-prom-1, data-promx-0, data-prom-b-k) and, in half of the cases, a second StatefulSet 'prom-b'; plus, for counts 0..6, every (first request, second request on the SAME manager object) pair and every (count set by somebody else behind the manager's back, request) pair; plus rolling-update-in-progress cases; plus update-rejected cases (Conflict / server error: the count stays, no claim may go); plus scripted lives of a StatefulSet over 4-11 cycles (ready / not ready / three shapes of a rolling update, 0-130 s passing between cycles through the verif hook that shifts the manager's not-ready timers): while a rolling update is in progress it must not be handed to the coordinator, however long it lasts; " +
			"the real kubernetes.ReplicasManager / shard manager run on a client-go fake clientset; oracle over returned shards (ID, readiness, contacted URL) and over the fake's action log and objects; " +
			"plus two installations of one chart in two namespaces under a manager for all namespaces (each manager lists its own pods with their own addresses); " +
			"plus second listings through the SAME replicas manager after every pod was re-created with another IP, pods without an IP got one and pod 0 lost its IP (1-12 pods, six order classes, three readiness masks); " +
			"plus listings with one or two pods missing and/or a foreign pod carrying the selector's labels (2-12 pods, six order classes): no position may be ready unless the pod of that ordinal is listed with an IP, and no ready shard appears twice; " +
			"non-trivial = every case; distinct = the parameter tuple",
		Assumptions: []string{
			"the client-go fake clientset stands for the API server (it applies updates and deletions to its object tracker)",
			"foreign pods matching the selector, missing pods and a nil replica count are outside the property's quantifier and not generated",
		},
		NumCases: func(tier string) int { return len(c18Cases(tier)) + K8sReplicaCases(tier) },
		Run: func(w *core.WorkerCtx, idx int) *core.CaseResult {
			if n := len(c18Cases(w.Tier)); idx >= n {
				return RunC18K8s(w, idx-n)
			}
			return runC18(w, idx)
		},
		MinNontrivial: 100,
		Exhaustive:    func(string) bool { return true },
	})
}

func nil2ctx() context.Context { return context.TODO() }
