package e6

import (
	"fmt"
	"strings"
	"time"

	appsv1 "k8s.io/api/apps/v1"
	corev1 "k8s.io/api/core/v1"
	metav1 "k8s.io/apimachinery/pkg/apis/meta/v1"
	"k8s.io/apimachinery/pkg/runtime"
	"k8s.io/client-go/kubernetes/fake"

	"kvassverif/internal/core"
	"kvassverif/internal/sc"
	kk "tkestack.io/kvass/pkg/shard/kubernetes"
)

// C19 on the Kubernetes replicas manager: whether a StatefulSet is handed to the coordinator in a cycle
// (up to date; ready, or not ready for longer than the grace period) must not depend on the presence,
// readiness or rolling updates of another StatefulSet. Differential: the same scripted life of replica A
// is run alone and next to a scripted replica B (listed before or after A); the per-cycle answer
// "A handed over?" must be identical. Wall-clock time between cycles is replaced by shifting the manager's
// not-ready timers through the verif hook VerifShiftNotReadyTimers (both runs get the same shifts).

type k8sStep struct {
	A     string `json:"a"`     // ready | notready | updating
	B     string `json:"b"`     // absent (only as a whole) | ready | notready | updating
	Shift int    `json:"shift"` // seconds that pass before this cycle
}

func mkSet(name string, state string) *appsv1.StatefulSet {
	one := int32(1)
	s := &appsv1.StatefulSet{ObjectMeta: metav1.ObjectMeta{Name: name, Namespace: "monitoring", Labels: map[string]string{"kvass": "shards"}},
		Spec: appsv1.StatefulSetSpec{Replicas: &one, Selector: &metav1.LabelSelector{MatchLabels: map[string]string{"app": name}}}}
	setState(s, state)
	return s
}

func setState(s *appsv1.StatefulSet, state string) {
	s.Status = appsv1.StatefulSetStatus{Replicas: 1, UpdatedReplicas: 1, ReadyReplicas: 1}
	switch state {
	case "notready":
		s.Status.ReadyReplicas = 0
	case "updating":
		s.Status.UpdatedReplicas = 0
	}
}

func runK8sLife(steps []k8sStep, withB bool, bName string) ([]bool, error) {
	const ns = "monitoring"
	objs := []runtime.Object{mkSet("prom-a", steps[0].A),
		&corev1.Pod{ObjectMeta: metav1.ObjectMeta{Name: "prom-a-0", Namespace: ns, Labels: map[string]string{"app": "prom-a"}}, Status: corev1.PodStatus{PodIP: "10.9.0.1"}}}
	if withB {
		objs = append(objs, mkSet(bName, steps[0].B),
			&corev1.Pod{ObjectMeta: metav1.ObjectMeta{Name: bName + "-0", Namespace: ns, Labels: map[string]string{"app": bName}}, Status: corev1.PodStatus{PodIP: "10.9.0.2"}})
	}
	cli := fake.NewSimpleClientset(objs...)
	rm := kk.NewReplicasManager(cli, ns, "kvass=shards", 8080, false, sc.Quiet)
	var out []bool
	for _, st := range steps {
		for _, x := range []struct{ name, state string }{{"prom-a", st.A}, {bName, st.B}} {
			if x.name == bName && !withB {
				continue
			}
			s, err := cli.AppsV1().StatefulSets(ns).Get(nil2ctx(), x.name, metav1.GetOptions{})
			if err != nil {
				return nil, err
			}
			setState(s, x.state)
			if _, err := cli.AppsV1().StatefulSets(ns).Update(nil2ctx(), s, metav1.UpdateOptions{}); err != nil {
				return nil, err
			}
		}
		rm.VerifShiftNotReadyTimers(time.Duration(st.Shift) * time.Second)
		mgrs, err := rm.Replicas()
		if err != nil {
			return nil, err
		}
		has := false
		for _, m := range mgrs {
			shards, err := m.Shards()
			if err != nil {
				return nil, err
			}
			for _, s := range shards {
				if strings.HasPrefix(s.ID, "prom-a-") {
					has = true
				}
			}
		}
		out = append(out, has)
	}
	return out, nil
}

// K8sReplicaCases is the number of extra C19 cases served by RunC19K8s.
func K8sReplicaCases(tier string) int {
	if tier == "thorough" {
		return 6000
	}
	return 400
}

// RunC19K8s runs one differential case.
func RunC19K8s(w *core.WorkerCtx, k int) *core.CaseResult {
	r := core.NewRng(w.Seed, 0xC19E6, uint64(k))
	res := &core.CaseResult{Nontrivial: true}
	n := 4 + r.Intn(8)
	var steps []k8sStep
	aState := r.PickS("ready", "notready", "notready")
	for i := 0; i < n; i++ {
		if r.Intn(3) == 0 {
			aState = r.PickS("ready", "notready", "notready", "updating")
		}
		steps = append(steps, k8sStep{A: aState, B: r.PickS("ready", "notready", "updating", "updating"), Shift: r.PickI(0, 0, 45, 70, 130)})
	}
	// B's name sorts before or after A's
	bName := r.PickS("prom-0b", "prom-b")
	res.Sig = fmt.Sprintf("k8s/%v/%s", steps, bName)
	alone, err := runK8sLife(steps, false, bName)
	if err != nil {
		res.Inconcl = "fake clientset: " + err.Error()
		return res
	}
	with, err := runK8sLife(steps, true, bName)
	if err != nil {
		res.Inconcl = "fake clientset: " + err.Error()
		return res
	}
	res.Execs = 2 * n
	res.AddStat("k8s_replica_cycles_compared", int64(n))
	for i := range steps {
		if alone[i] {
			res.AddStat("k8s_cycles_in_which_the_replica_is_handed_over", 1)
		}
		if steps[i].A == "notready" && alone[i] {
			res.AddStat("k8s_hand_overs_after_the_grace_period", 1)
		}
		if alone[i] != with[i] {
			res.Violate("C19/k8s/handed-over-depends-on-other-statefulset", "cycle %d: StatefulSet prom-a (%s) is handed to the coordinator = %v when it is the only one, = %v next to %s (%s)", i, steps[i].A, alone[i], with[i], bName, steps[i].B)
			res.Witness = map[string]interface{}{"steps": steps, "other": bName, "alone": alone, "with_other": with}
			break
		}
	}
	return res
}
