package e6

import (
	"fmt"
	"strings"
	"time"

	appsv1 "k8s.io/api/apps/v1"
	corev1 "k8s.io/api/core/v1"
	metav1 "k8s.io/apimachinery/pkg/apis/meta/v1"
	"k8s.io/apimachinery/pkg/runtime"
	"k8s.io/client-go/kubernetes/fake"
	k8stesting "k8s.io/client-go/testing"

	"kvassverif/internal/core"
	"kvassverif/internal/sc"
	"tkestack.io/kvass/pkg/shard"
	kk "tkestack.io/kvass/pkg/shard/kubernetes"
)

// C19 on the Kubernetes replicas manager: whether a StatefulSet is handed to the coordinator in a cycle
// (up to date; ready, or not ready for longer than the grace period) must not depend on the presence,
// readiness or rolling updates of another StatefulSet. Differential: the same scripted life of replica A
// is run alone and next to a scripted replica B (listed before or after A); the per-cycle answer
// "A handed over?" must be identical. Wall-clock time between cycles is replaced by shifting the manager's
// not-ready timers through the verif hook VerifShiftNotReadyTimers (both runs get the same shifts).

type k8sStep struct {
	A     string `json:"a"`                   // ready | notready | updating
	B     string `json:"b"`                   // absent (only as a whole) | ready | notready | updating
	Shift int    `json:"shift"`               // seconds that pass before this cycle
	NoAPI bool   `json:"listFails,omitempty"` // the API server does not answer the StatefulSet listing in this cycle
}

func mkSet(name string, state string) *appsv1.StatefulSet {
	one := int32(1)
	s := &appsv1.StatefulSet{ObjectMeta: metav1.ObjectMeta{Name: name, Namespace: "monitoring", Labels: map[string]string{"kvass": "shards"}},
		Spec: appsv1.StatefulSetSpec{Replicas: &one, Selector: &metav1.LabelSelector{MatchLabels: map[string]string{"app": name}}}}
	setState(s, state)
	return s
}

func setState(s *appsv1.StatefulSet, state string) {
	s.Status = appsv1.StatefulSetStatus{Replicas: 1, UpdatedReplicas: 1, ReadyReplicas: 1}
	switch state {
	case "notready":
		s.Status.ReadyReplicas = 0
	case "updating":
		s.Status.UpdatedReplicas = 0
	case "updating-ready=updated": // a re-created pod still starting: replicas 2, updated 1, ready 1
		s.Status = appsv1.StatefulSetStatus{Replicas: 2, UpdatedReplicas: 1, ReadyReplicas: 1}
	case "updating-all-ready":
		s.Status = appsv1.StatefulSetStatus{Replicas: 2, UpdatedReplicas: 1, ReadyReplicas: 2}
	}
}

func runK8sLife(steps []k8sStep, withB bool, bName string, bGap bool) (out []bool, err error) {
	// a panic inside a manager is not an error the coordinator can confine to one replica: it ends the process
	defer func() {
		if p := recover(); p != nil {
			err = fmt.Errorf("PANIC in the Kubernetes shard manager: %v", p)
		}
	}()
	return runK8sLifeInner(steps, withB, bName, bGap)
}

func runK8sLifeInner(steps []k8sStep, withB bool, bName string, bGap bool) ([]bool, error) {
	const ns = "monitoring"
	objs := []runtime.Object{mkSet("prom-a", steps[0].A),
		&corev1.Pod{ObjectMeta: metav1.ObjectMeta{Name: "prom-a-0", Namespace: ns, Labels: map[string]string{"app": "prom-a"}}, Status: corev1.PodStatus{PodIP: "10.9.0.1"}}}
	if withB {
		bs := mkSet(bName, steps[0].B)
		if bGap {
			// the other StatefulSet has three replicas and its pod 1 is missing (evicted, not yet re-created)
			three := int32(3)
			bs.Spec.Replicas = &three
			objs = append(objs, &corev1.Pod{ObjectMeta: metav1.ObjectMeta{Name: bName + "-2", Namespace: ns, Labels: map[string]string{"app": bName}}, Status: corev1.PodStatus{PodIP: "10.9.0.3"}})
		}
		objs = append(objs, bs,
			&corev1.Pod{ObjectMeta: metav1.ObjectMeta{Name: bName + "-0", Namespace: ns, Labels: map[string]string{"app": bName}}, Status: corev1.PodStatus{PodIP: "10.9.0.2"}})
	}
	cli := fake.NewSimpleClientset(objs...)
	rm := kk.NewReplicasManager(cli, ns, "kvass=shards", 8080, false, sc.Quiet)
	listFails := false
	cli.PrependReactor("list", "statefulsets", func(k8stesting.Action) (bool, runtime.Object, error) {
		if listFails {
			return true, nil, fmt.Errorf("the server is currently unable to handle the request (get statefulsets.apps)")
		}
		return false, nil, nil
	})
	var out []bool
	for _, st := range steps {
		for _, x := range []struct{ name, state string }{{"prom-a", st.A}, {bName, st.B}} {
			if x.name == bName && !withB {
				continue
			}
			s, err := cli.AppsV1().StatefulSets(ns).Get(nil2ctx(), x.name, metav1.GetOptions{})
			if err != nil {
				return nil, err
			}
			setState(s, x.state)
			if _, err := cli.AppsV1().StatefulSets(ns).Update(nil2ctx(), s, metav1.UpdateOptions{}); err != nil {
				return nil, err
			}
		}
		rm.VerifShiftNotReadyTimers(time.Duration(st.Shift) * time.Second)
		listFails = st.NoAPI
		mgrs, err := rm.Replicas()
		listFails = false
		if err != nil {
			if st.NoAPI {
				out = append(out, false) // nothing is coordinated in a cycle whose listing failed
				continue
			}
			return nil, err
		}
		has := false
		for _, m := range mgrs {
			shards, err := m.Shards()
			if err != nil {
				return nil, err
			}
			for _, s := range shards {
				if strings.HasPrefix(s.ID, "prom-a-") {
					has = true
				}
			}
		}
		out = append(out, has)
	}
	return out, nil
}

// K8sReplicaCases is the number of extra C19 cases served by RunC19K8s.
func K8sReplicaCases(tier string) int {
	if tier == "thorough" {
		return 6000
	}
	return 400
}

// RunC19K8s runs one differential case (C19: independence of StatefulSets).
func RunC19K8s(w *core.WorkerCtx, k int) *core.CaseResult { return runK8sLifeCase(w, k, "C19") }

// RunC18K8s runs the same scripted lives and judges C18's last clause over time.
func RunC18K8s(w *core.WorkerCtx, k int) *core.CaseResult { return runK8sLifeCase(w, k, "C18") }

func runK8sLifeCase(w *core.WorkerCtx, k int, prop string) *core.CaseResult {
	r := core.NewRng(w.Seed, 0xC19E6, uint64(k))
	res := &core.CaseResult{Nontrivial: true}
	n := 4 + r.Intn(8)
	var steps []k8sStep
	aState := r.PickS("ready", "notready", "notready")
	for i := 0; i < n; i++ {
		if r.Intn(3) == 0 {
			aState = r.PickS("ready", "notready", "notready", "updating", "updating-ready=updated", "updating-all-ready")
		}
		steps = append(steps, k8sStep{A: aState, B: r.PickS("ready", "notready", "updating", "updating"), Shift: r.PickI(0, 0, 45, 70, 130), NoAPI: prop == "C18" && r.Intn(5) == 0})
	}
	// B's name sorts before or after A's
	bName := r.PickS("prom-0b", "prom-b")
	res.Sig = fmt.Sprintf("k8s/%s/%v/%s", prop, steps, bName)
	if k%4 == 3 {
		runK8sTwoNamespaces(r, res, prop)
		return res
	}
	bGap := r.Intn(3) == 0
	alone, err := runK8sLife(steps, false, bName, false)
	if err != nil {
		res.Inconcl = "fake clientset: " + err.Error()
		return res
	}
	with, err := runK8sLife(steps, true, bName, bGap)
	if err != nil && strings.HasPrefix(err.Error(), "PANIC") {
		if prop == "C19" {
			res.Violate("C19/k8s/other-statefulset-crashes-the-listing", "next to %s (a pod missing: %v) listing the shards panics, which ends the coordinator for every replica: %v", bName, bGap, err)
			res.Witness = map[string]interface{}{"steps": steps, "other": bName, "other_has_a_missing_pod": bGap}
		}
		return res
	}
	if err != nil {
		res.Inconcl = "fake clientset: " + err.Error()
		return res
	}
	if bGap {
		res.AddStat("k8s_lives_next_to_a_statefulset_with_a_missing_pod", 1)
	}
	res.Execs = 2 * n
	res.AddStat("k8s_replica_cycles_compared", int64(n))
	for i := range steps {
		if alone[i] {
			res.AddStat("k8s_cycles_in_which_the_replica_is_handed_over", 1)
		}
		if steps[i].A == "notready" && alone[i] {
			res.AddStat("k8s_hand_overs_after_the_grace_period", 1)
		}
		// C18's last clause, over time: a StatefulSet whose rolling update is in progress is not coordinated,
		// however long the update takes
		if prop == "C18" && strings.HasPrefix(steps[i].A, "updating") && (alone[i] || with[i]) {
			res.Violate("C18/rolling-update-coordinated-after-a-while", "cycle %d: StatefulSet prom-a is in a rolling update (%s) and was handed to the coordinator (alone %v, next to the other %v)", i, steps[i].A, alone[i], with[i])
			res.Witness = map[string]interface{}{"steps": steps, "alone": alone, "with_other": with}
			break
		}
		if prop == "C19" && alone[i] != with[i] {
			res.Violate("C19/k8s/handed-over-depends-on-other-statefulset", "cycle %d: StatefulSet prom-a (%s) is handed to the coordinator = %v when it is the only one, = %v next to %s (%s)", i, steps[i].A, alone[i], with[i], bName, steps[i].B)
			res.Witness = map[string]interface{}{"steps": steps, "other": bName, "alone": alone, "with_other": with}
			break
		}
	}
	return res
}

// Two installations of the same chart in two namespaces (same StatefulSet name, same pod labels and names),
// coordinated by one coordinator with --shard.namespace="" (all namespaces): the shards of the one in team-a
// must be listed exactly as if the other did not exist.
func describeShards(m interface {
	Shards() ([]*shard.Shard, error)
}) (string, error) {
	shards, err := m.Shards()
	if err != nil {
		return "", err
	}
	var sb strings.Builder
	for _, s := range shards {
		url := ""
		if s.Ready {
			s.APIGet = func(u string, ret interface{}) error { url = u; return fmt.Errorf("stop") }
			_, _ = s.RuntimeInfo()
		}
		fmt.Fprintf(&sb, "%s ready=%v %s | ", s.ID, s.Ready, strings.TrimSuffix(url, "api/v1/shard/runtimeinfo/"))
	}
	return sb.String(), nil
}

func runK8sTwoNamespaces(r *core.Rng, res *core.CaseResult, prop string) {
	nA, nB := 1+r.Intn(3), 1+r.Intn(3)
	maskA, maskB := r.Intn(1<<uint(nA)), r.Intn(1<<uint(nB))
	build := func(withB bool) (string, []string, error) {
		var objs []runtime.Object
		add := func(ns string, n, mask int, ipBase string) {
			nn := int32(n)
			objs = append(objs, &appsv1.StatefulSet{ObjectMeta: metav1.ObjectMeta{Name: "prom", Namespace: ns, Labels: map[string]string{"kvass": "shards"}},
				Spec:   appsv1.StatefulSetSpec{Replicas: &nn, Selector: &metav1.LabelSelector{MatchLabels: map[string]string{"app": "prom"}}},
				Status: appsv1.StatefulSetStatus{Replicas: nn, UpdatedReplicas: nn, ReadyReplicas: nn}})
			for k := 0; k < n; k++ {
				p := &corev1.Pod{ObjectMeta: metav1.ObjectMeta{Name: fmt.Sprintf("prom-%d", k), Namespace: ns, Labels: map[string]string{"app": "prom"}}}
				if mask&(1<<uint(k)) != 0 {
					p.Status.PodIP = fmt.Sprintf("%s.%d", ipBase, k+10)
				}
				objs = append(objs, p)
			}
		}
		add("team-a", nA, maskA, "10.1.0")
		if withB {
			add("team-b", nB, maskB, "10.2.0")
		}
		cli := fake.NewSimpleClientset(objs...)
		rm := kk.NewReplicasManager(cli, "", "kvass=shards", 8080, false, sc.Quiet)
		mgrs, err := rm.Replicas()
		if err != nil {
			return "", nil, err
		}
		var all []string
		for _, m := range mgrs {
			d, err := describeShards(m)
			if err != nil {
				return "", nil, err
			}
			all = append(all, d)
		}
		if len(all) == 0 {
			return "", all, nil
		}
		return all[0], all, nil
	}
	alone, _, err := build(false)
	if err != nil {
		res.Inconcl = "fake clientset: " + err.Error()
		return
	}
	_, both, err := build(true)
	if err != nil {
		res.Inconcl = "fake clientset: " + err.Error()
		return
	}
	res.Execs += 2
	res.AddStat("k8s_two_namespace_layouts", 1)
	found := false
	for _, d := range both {
		if d == alone {
			found = true
		}
	}
	if prop == "C18" {
		// the listing itself: each manager lists the pods of its own StatefulSet, in ordinal order, with their own
		// addresses and readiness
		want := func(n, mask int, ipBase string) string {
			var sb strings.Builder
			for k := 0; k < n; k++ {
				if mask&(1<<uint(k)) != 0 {
					fmt.Fprintf(&sb, "prom-%d ready=true http://%s.%d:8080/ | ", k, ipBase, k+10)
				} else {
					fmt.Fprintf(&sb, "prom-%d ready=false  | ", k)
				}
			}
			return sb.String()
		}
		wa, wb := want(nA, maskA, "10.1.0"), want(nB, maskB, "10.2.0")
		ok := len(both) == 2 && ((both[0] == wa && both[1] == wb) || (both[0] == wb && both[1] == wa))
		if !ok {
			res.Violate("C18/all-namespaces/shards-of-another-namespace-listed", "two installations of one chart (team-a: %d pods, team-b: %d pods) under a manager for all namespaces: the shard managers list %v, expected [%s] and [%s]", nA, nB, both, wa, wb)
			res.Witness = map[string]interface{}{"replicas_a": nA, "replicas_b": nB, "listed": both}
		}
		return
	}
	if !found || len(both) != 2 {
		res.Violate("C19/k8s/shards-depend-on-statefulset-in-another-namespace", "StatefulSet team-a/prom alone lists its shards as [%s]; next to team-b/prom (same chart) the managers list %v", alone, both)
		res.Witness = map[string]interface{}{"replicas_a": nA, "replicas_b": nB, "alone": alone, "with_other": both}
	}
}
