package e7

import (
	"fmt"
	"os"
	"path/filepath"
	"sort"
	"strconv"
	"strings"
	"time"

	"github.com/go-kit/log"
	"github.com/prometheus/prometheus/config"
	pdisc "github.com/prometheus/prometheus/discovery"
	pscrape "github.com/prometheus/prometheus/scrape"

	"kvassverif/internal/core"
)

// refTargets: what one plain Prometheus obtains from the coordinator's configuration file: per target id the final
// labels and the path and query it requests.
func refTargets(text string) (map[int][2]string, error) {
	cfg, err := config.Load(text, false, log.NewNopLogger())
	if err != nil {
		return nil, err
	}
	out := map[int][2]string{}
	for _, j := range cfg.ScrapeConfigs {
		for _, sd := range j.ServiceDiscoveryConfigs {
			st, ok := sd.(pdisc.StaticConfig)
			if !ok {
				continue
			}
			for _, g := range st {
				ts, _ := pscrape.TargetsFromGroup(g, j)
				for _, t := range ts {
					if t.Labels().Len() == 0 {
						continue
					}
					id, err := strconv.Atoi(t.URL().Query().Get("id"))
					if err != nil {
						continue
					}
					out[id] = [2]string{t.Labels().String(), WireForm(t.URL())}
				}
			}
		}
	}
	return out, nil
}

// Cases per tier: even indexes are fault-free (reported under the property they are registered for),
// the workload and the fault are drawn from the case index.
func Cases(tier string) int {
	return baseCases(tier) + specialCases(tier)
}

func baseCases(tier string) int {
	if tier == "thorough" {
		return 32
	}
	return 4
}

// special cases (after the base ones): C03 a target that is down while discovery re-sends it, C06 a reload
// followed by a sidecar that comes back on an empty volume, C04 targets whose bodies span several parser blocks
func specialCases(tier string) int {
	if tier == "thorough" {
		return 8
	}
	return 2
}

// convergedNow: every configured target is listed by exactly one sidecar, in normal state, and that
// sidecar's Prometheus has been given it (it is in the generated file) and scrapes it.
func convergedNow(l *Loop, snap []map[int]Entry) (bool, string) {
	for _, id := range l.Targets() {
		if l.IsDown(id) || l.TrueTotal(id) >= l.Spec.MaxProc {
			continue // not eligible (yet): nothing is demanded about it here
		}
		n, why := 0, ""
		for i, m := range snap {
			if e, ok := m[id]; ok {
				n++
				if e.State != "" {
					why = fmt.Sprintf("target %d is marked %s on shard %d", id, e.State, i)
				}
			}
		}
		switch {
		case n == 0:
			return false, fmt.Sprintf("target %d is listed by no shard (or only by a shard whose Prometheus was not given it)", id)
		case n > 1:
			return false, fmt.Sprintf("target %d is listed by %d shards", id, n)
		case why != "":
			return false, why
		}
	}
	conf := map[int]bool{}
	for _, id := range l.Targets() {
		conf[id] = true
	}
	for i, m := range snap {
		for id := range m {
			if !conf[id] {
				if id < 0 {
					return false, fmt.Sprintf("shard %d lists a target that is not in the file given to its Prometheus", i)
				}
				return false, fmt.Sprintf("shard %d still lists target %d, which is no longer configured", i, id)
			}
		}
	}
	return true, ""
}

func snapKey(snap []map[int]Entry) string {
	var sb strings.Builder
	for i, m := range snap {
		var ids []int
		for id := range m {
			ids = append(ids, id)
		}
		sort.Ints(ids)
		fmt.Fprintf(&sb, "%d%v ", i, ids)
	}
	return sb.String()
}

// Run executes one real-process case. prop is the property id the case reports under ("C03": no
// faults, "C06": a fault in the middle).
func Run(w *core.WorkerCtx, k int, prop string) *core.CaseResult {
	r := core.NewRng(w.Seed, 0xE7, core.HashString(prop), uint64(k))
	res := &core.CaseResult{Nontrivial: true}
	bin := filepath.Join(os.Getenv("VERIF_ROOT"), "bin", "kvass")
	if _, err := os.Stat(bin); err != nil {
		res.Inconcl = "kvass binary not built: " + err.Error()
		return res
	}
	spec := Spec{MaxHead: 100, MaxProc: 150, NShards: 3, Interval: 150 * time.Millisecond, Sizes: map[int][2]int{}}
	nT := 3 + r.Intn(3)
	sizes := []int{10, 30, 49, 60, 20}
	for i := 0; i < nT; i++ {
		spec.Sizes[i] = [2]int{sizes[r.Intn(len(sizes))], r.PickI(0, 0, 5, 40)}
	}
	// the total must fit three shards with room to spare (the static shard list cannot grow)
	for {
		sum := 0
		for _, sz := range spec.Sizes {
			sum += sz[0]
		}
		if sum <= 150 {
			break
		}
		for id, sz := range spec.Sizes {
			if sz[0] > 10 {
				spec.Sizes[id] = [2]int{sz[0] / 2, sz[1]}
				break
			}
		}
	}
	if prop == "C02" {
		spec.Rich = true
	}
	fault := "none"
	if prop == "C06" {
		fault = []string{"restart-sidecar", "restart-coordinator", "shard-unreachable", "restart-sidecar+reload"}[k%4]
	}
	workload := []string{"steady", "add-target", "remove-target", "add-and-remove"}[(k/2+k)%4]
	special := k >= baseCases(w.Tier)
	downID := -1
	if special && prop == "C03" {
		// one target answers 503 from the start; while it is down the coordinator's configuration is reloaded
		// (discovery re-sends every target); then it serves again: it has to be probed again and assigned
		workload, downID = "down-then-up", r.Intn(nT)
		spec.Down = []int{downID}
	}
	if special && prop == "C03" && (k-baseCases(w.Tier))%2 == 1 {
		// a target appears in the configuration when the coordinator has been up for longer than its start-up
		// window (--sd.init-timeout): it has to be probed and assigned like any other
		workload, downID = "late-add", -1
		spec.Down, spec.InitTimeout = nil, "8s"
	}
	if special && prop == "C06" {
		workload, fault = "steady", "reload-then-wipe-sidecar"
		if (k-baseCases(w.Tier))%2 == 1 {
			// sidecars in file mode (the binary's default): a configuration roll-out reaches a shard whose Prometheus
			// refuses the reload at that moment
			fault, spec.FileMode = "rollout-while-prometheus-refuses-reload", true
		}
	}
	if prop == "C20" {
		// one target answers 503 for good (its probe must be retried every retry interval, also when the coordinator
		// has been up for a long time), another one appears after the start-up window
		workload, fault = "late-add", "none"
		downID = r.Intn(nT)
		spec.Down, spec.InitTimeout = []int{downID}, []string{"8s", "6s"}[k%2]
	}
	if prop == "C01" {
		workload, fault = "steady", "restart-coordinator+watch"
		if k%2 == 1 {
			// the operator edits a setting of the job that has nothing to do with its targets and reloads
			fault = "reload-edited-job+watch"
		}
	}
	if prop == "C04" {
		// bodies of 80-130 KB (the parsers read them in 64 KiB blocks), a process-series limit that two of them
		// fit under and three do not, and one target that alone exceeds the limit although its kept series are few
		workload, fault = "steady", "none"
		if k%2 == 1 {
			workload = "add-target"
		}
		spec = Spec{MaxHead: 1000000, MaxProc: 8000, NShards: 3, Interval: 150 * time.Millisecond, Sizes: map[int][2]int{}}
		nT = 4 + r.Intn(2)
		if k%2 == 1 {
			nT = 6              // two per shard by their true sizes, three per shard by an estimate that misses a collector
			workload = "steady" // the three shards are full
		}
		if k%2 == 1 {
			// the job's collect[] param has two values and each adds 700 samples to every answer: a probe that does
			// not carry both measures something smaller than what is scraped
			spec.Collect = 700
		}
		for i := 0; i < nT; i++ {
			kept := 300 + r.Intn(1100)
			total := 2500 + r.Intn(1000)
			if spec.Collect > 0 {
				total = 1500 + r.Intn(400) // + 2 x 700
			}
			spec.Sizes[i] = [2]int{kept, total - kept}
		}
		if spec.Collect > 0 && k%4 == 1 {
			// two ordinary targets only, and one whose answer exceeds the limit just because of the two collectors
			// (6700-6900 + 2 x 700): with one collector it would fit an empty shard, so it must not be assigned
			for i := 2; i < nT; i++ {
				delete(spec.Sizes, i)
			}
			nT = 2
			spec.Sizes[nT] = [2]int{200, 6500 + r.Intn(200)}
			nT++
		}
		if k%4 == 2 {
			// the collect[] param arrives with a RELOAD, together with a new target that exceeds the limit only with
			// both collectors: its probe has to be made under the configuration now in force
			for i := 2; i < nT; i++ {
				delete(spec.Sizes, i)
			}
			nT = 2
			workload = "params-by-reload"
			for i := 0; i < nT; i++ {
				// small enough that both still fit one shard when the collectors add 2 x 700 to each
				kept := 300 + r.Intn(900)
				spec.Sizes[i] = [2]int{kept, 1500 + r.Intn(400) - kept}
			}
		}
		spec.Sizes[nT] = [2]int{100, 8000 + r.Intn(2000)}
		nT++
		// the first answer of one big target, and of the oversized one, breaks off after 40 lines with a TCP reset (the exporter was killed):
		// that is a failed probe, its 40 lines are no estimate
		spec.ResetFirst = []int{r.Intn(nT - 1), nT - 1} // one of the big ones, and the oversized one
	}
	res.Sig = fmt.Sprintf("real-loop/%s/%s/%v", workload, fault, spec.Sizes)
	dir := filepath.Join(w.Scratch, fmt.Sprintf("e7-%s-%d", prop, k))
	defer os.RemoveAll(dir)
	l, err := Start(spec, dir, bin)
	if err != nil {
		res.Inconcl = "start: " + err.Error()
		return res
	}
	defer l.Close()
	var trace []string
	t00 := time.Now()
	note := func(f string, a ...interface{}) {
		trace = append(trace, fmt.Sprintf("[%.1fs] ", time.Since(t00).Seconds())+fmt.Sprintf(f, a...))
	}
	watchdog := time.Now().Add(240 * time.Second)
	// waitConverged: bounded in COORDINATION CYCLES (counted at shard 0's API); the wall-clock watchdog only
	// makes the case inconclusive.
	waitConverged := func(phase string, bound int64) bool {
		start := l.Cycles()
		stableFrom, lastKey, why := int64(-1), "", ""
		for {
			if ok, msg := l.CoordinatorAlive(); !ok {
				res.Violate(prop+"/real-loop/coordinator-died", "%s: the coordinator process exited: %s", phase, msg)
				return false
			}
			l.ScrapeAll()
			snap, err := l.Snapshot()
			if err != nil {
				res.Inconcl = "snapshot: " + err.Error()
				return false
			}
			c := l.Cycles()
			if prop == "C04" {
				res.AddStat("real_loop_placement_snapshots", 1)
				for i, m := range snap {
					var sum int64
					var ids []int
					for id := range m {
						if id < 0 {
							continue
						}
						ids = append(ids, id)
						sum += l.TrueTotal(id)
						if l.TrueTotal(id) >= spec.MaxProc {
							res.Violate("C04/real-loop/oversized-assigned", "%s: target %d serves %d samples, the process-series limit is %d, and shard %d lists it", phase, id, l.TrueTotal(id), spec.MaxProc, i)
						}
					}
					sort.Ints(ids)
					if sum >= spec.MaxProc {
						res.Violate("C04/real-loop/over-process-limit", "%s: shard %d lists targets %v which really serve %d samples together, the process-series limit is %d (nothing here ever shrinks or grows)", phase, i, ids, sum, spec.MaxProc)
					}
					if len(ids) >= 2 {
						res.AddStat("real_loop_shards_seen_with_several_big_targets", 1)
					}
				}
				if len(res.Viol) > 0 {
					return false
				}
			}
			okNow, w2 := convergedNow(l, snap)
			key := snapKey(snap)
			if okNow && key == lastKey {
				if stableFrom < 0 {
					stableFrom = c
				}
				if c-stableFrom >= 6 {
					// and really scraped: every configured target got requests after convergence
					note("%s: converged after %d cycles: %s", phase, stableFrom-start, key)
					res.AddStat("real_loop_phases_converged", 1)
					res.AddSet("real_loop_cycles_to_converge", fmt.Sprint(stableFrom-start))
					return true
				}
			} else {
				stableFrom, lastKey, why = -1, key, w2
			}
			if c-start > bound {
				res.Violate(prop+"/real-loop/not-converged/"+fault, "%s (workload %s, fault %s): no converged, stable state within %d coordination cycles of the real coordinator: %s", phase, workload, fault, bound, why)
				return false
			}
			if time.Now().After(watchdog) {
				res.Inconcl = fmt.Sprintf("%s: watchdog (240 s) after %d cycles: %s", phase, c-start, why)
				return false
			}
			time.Sleep(40 * time.Millisecond)
		}
	}
	finish := func() *core.CaseResult {
		if len(res.Viol) > 0 {
			res.Witness = map[string]interface{}{"spec": spec, "workload": workload, "fault": fault, "trace": trace, "logs": l.Diagnostics()}
		}
		if res.Inconcl != "" && os.Getenv("VERIF_E7_DEBUG") != "" {
			fmt.Fprintf(os.Stderr, "E7 inconclusive: %s\ntrace: %q\n", res.Inconcl, trace)
			for n, s := range l.Diagnostics() {
				fmt.Fprintf(os.Stderr, "---- %s\n%s\n", n, s)
			}
		}
		if k == 0 {
			res.Sample =map[string]interface{}{"workload": workload, "fault": fault, "trace": trace}
		}
		return res
	}
	res.Execs = 1
	if !waitConverged("initial", 80) {
		return finish()
	}
	// workload
	next := nT
	switch workload {
	case "down-then-up":
		var add map[int][2]int
		if r.Intn(2) == 0 {
			add = map[int][2]int{next: {10, 0}}
		}
		if err := l.Reconfigure(add, nil); err != nil {
			res.Inconcl = err.Error()
			return finish()
		}
		note("target %d has answered 503 since the start; configuration reloaded (added: %v), discovery re-sent every target", downID, add)
		c0 := l.Cycles()
		for l.Cycles() < c0+3 && time.Now().Before(watchdog) {
			l.ScrapeAll()
			time.Sleep(40 * time.Millisecond)
		}
		l.SetDown(downID, false)
		note("target %d serves again", downID)
	case "params-by-reload":
		l.SetCollect(700)
		if err := l.Reconfigure(map[int][2]int{next: {200, 6500 + r.Intn(200)}}, nil); err != nil {
			res.Inconcl = err.Error()
			return finish()
		}
		note("reload: the job gets collect[] = [cpu, mem] (700 samples each, for every target) and target %d (6700-6900 samples without the collectors) is added", next)
		res.AddStat("real_loop_reloads_that_change_the_job_params", 1)
		// the new target reaches the coordinator with the discovery manager's next tick (5 s); wait until it has been
		// probed, and a dozen cycles more, before the converged state is looked for
		c0 := l.Cycles()
		for l.Hits(next) == 0 && l.Cycles() < c0+100 && time.Now().Before(watchdog) {
			l.ScrapeAll()
			time.Sleep(50 * time.Millisecond)
		}
		c1 := l.Cycles()
		for l.Cycles() < c1+12 && time.Now().Before(watchdog) {
			l.ScrapeAll()
			time.Sleep(50 * time.Millisecond)
		}
	case "late-add":
		for l.CoordinatorUptime() < l.InitTimeout()+3*time.Second && time.Now().Before(watchdog) {
			l.ScrapeAll()
			time.Sleep(100 * time.Millisecond)
		}
		hits0 := 0
		if downID >= 0 {
			hits0 = l.Hits(downID)
		}
		if err := l.Reconfigure(map[int][2]int{next: {15, 3}}, nil); err != nil {
			res.Inconcl = err.Error()
			return finish()
		}
		note("target %d added %v after the coordinator started (its start-up window is %v)", next, l.CoordinatorUptime().Round(time.Second), l.InitTimeout())
		res.AddStat("real_loop_targets_added_after_the_start_up_window", 1)
		if prop == "C20" && downID >= 0 {
			// the failing target is probed again within the retry interval (5 s) - bounded here by 150 cycles
			c0 := l.Cycles()
			for l.Hits(downID) == hits0 {
				if l.Cycles()-c0 > 150 {
					res.Violate("C20/real-loop/failed-probe-not-retried", "target %d has answered 503 since the start; after the coordinator had been up for %v (start-up window %v) it received no further probe during 150 coordination cycles (retry interval 5 s)", downID, l.CoordinatorUptime().Round(time.Second), l.InitTimeout())
					return finish()
				}
				if time.Now().After(watchdog) {
					res.Inconcl = "watchdog while waiting for a retry of the failing target"
					return finish()
				}
				l.ScrapeAll()
				time.Sleep(60 * time.Millisecond)
			}
			res.AddStat("real_loop_retries_seen_after_the_start_up_window", 1)
		}
	case "add-target":
		_ = next
		addSz := [2]int{20, 0}
		if prop == "C04" {
			addSz = [2]int{400, 2600}
		}
		if err := l.Reconfigure(map[int][2]int{next: addSz}, nil); err != nil {
			res.Inconcl = err.Error()
			return finish()
		}
		note("target %d added through a configuration reload of the coordinator", next)
	case "remove-target":
		if err := l.Reconfigure(nil, []int{0}); err != nil {
			res.Inconcl = err.Error()
			return finish()
		}
		note("target 0 removed through a configuration reload")
	case "add-and-remove":
		if err := l.Reconfigure(map[int][2]int{next: {10, 5}}, []int{1}); err != nil {
			res.Inconcl = err.Error()
			return finish()
		}
		note("target %d added and target 1 removed in one reload", next)
	}
	// fault
	switch fault {
	case "restart-sidecar", "restart-sidecar+reload":
		i := r.Intn(spec.NShards)
		if err := l.RestartSidecar(i); err != nil {
			res.Inconcl = "restart sidecar: " + err.Error()
			return finish()
		}
		note("sidecar of shard %d killed and restarted on its volume", i)
		if fault == "restart-sidecar+reload" {
			if err := l.Reconfigure(map[int][2]int{next + 1: {10, 0}}, nil); err != nil {
				res.Inconcl = err.Error()
				return finish()
			}
		}
	case "reload-then-wipe-sidecar":
		var add map[int][2]int
		if r.Intn(2) == 0 {
			add = map[int][2]int{next: {10, 0}}
		}
		if err := l.Reconfigure(add, nil); err != nil {
			res.Inconcl = err.Error()
			return finish()
		}
		c0 := l.Cycles()
		for l.Cycles() < c0+4 && time.Now().Before(watchdog) {
			l.ScrapeAll()
			time.Sleep(40 * time.Millisecond)
		}
		// the shard that holds most
		snap, err := l.Snapshot()
		if err != nil {
			res.Inconcl = "snapshot: " + err.Error()
			return finish()
		}
		i := 0
		for j, m := range snap {
			if len(m) > len(snap[i]) {
				i = j
			}
		}
		if err := l.WipeSidecar(i); err != nil {
			res.Inconcl = "wipe sidecar: " + err.Error()
			return finish()
		}
		note("configuration reloaded (added: %v); four cycles later the sidecar of shard %d (holding %d targets) came back on an empty volume", add, i, len(snap[i]))
	case "rollout-while-prometheus-refuses-reload":
		snap, err := l.Snapshot()
		if err != nil {
			res.Inconcl = "snapshot: " + err.Error()
			return finish()
		}
		// the shard that holds the lowest target id; that target is removed by the roll-out, another one is added
		victim, gone := -1, -1
		for id := 0; id < nT && victim < 0; id++ {
			for i, m := range snap {
				if _, ok := m[id]; ok {
					victim, gone = i, id
					break
				}
			}
		}
		if victim < 0 {
			res.Inconcl = "no shard holds a target after the initial convergence"
			return finish()
		}
		l.FailPrometheusReload(victim, true)
		err = l.Reconfigure(map[int][2]int{next: {10, 2}}, []int{gone})
		l.FailPrometheusReload(victim, false)
		if err != nil {
			res.Inconcl = err.Error()
			return finish()
		}
		note("file mode: configuration rolled out (target %d removed, target %d added) while the Prometheus of shard %d answered 500 to /-/reload; it is fine again afterwards", gone, next, victim)
	case "reload-edited-job+watch":
		snap0, err := l.Snapshot()
		if err != nil {
			res.Inconcl = "snapshot: " + err.Error()
			return finish()
		}
		held := map[int]bool{}
		for _, m := range snap0 {
			for id := range m {
				if id >= 0 {
					held[id] = true
				}
			}
		}
		l.EditGlobalInterval("30s")
		if err := l.Reconfigure(nil, nil); err != nil {
			res.Inconcl = err.Error()
			return finish()
		}
		note("global scrape_interval 15s -> 30s and a reload of the coordinator; %d targets are listed by the shards", len(held))
		c0 := l.Cycles()
		for l.Cycles() < c0+50 { // more than the discovery manager's 5 s tick at 150 ms per cycle
			if time.Now().After(watchdog) {
				res.Inconcl = fmt.Sprintf("watchdog: %d cycles after the reload seen", l.Cycles()-c0)
				return finish()
			}
			snap, err := l.Snapshot()
			if err != nil {
				res.Inconcl = "snapshot: " + err.Error()
				return finish()
			}
			res.AddStat("real_loop_snapshots_after_a_reload_of_an_edited_job", 1)
			for id := range held {
				on := false
				for _, m := range snap {
					if _, ok := m[id]; ok {
						on = true
					}
				}
				if !on {
					res.Violate("C01/real-loop/orphaned-after-reload", "target %d was listed by a shard when the coordinator reloaded a configuration in which only the global scrape_interval changed; %d cycle(s) later no shard lists it (snapshot: %s)", id, l.Cycles()-c0, snapKey(snap))
					return finish()
				}
			}
			l.ScrapeAll()
			time.Sleep(20 * time.Millisecond)
		}
	case "restart-coordinator+watch":
		// C01 on the real binaries: the coordinator process restarts while the sidecars keep their targets and the
		// configuration is unchanged; from then on every snapshot must show every target on some shard
		snap0, err := l.Snapshot()
		if err != nil {
			res.Inconcl = "snapshot: " + err.Error()
			return finish()
		}
		held := map[int]bool{}
		for _, m := range snap0 {
			for id := range m {
				if id >= 0 {
					held[id] = true
				}
			}
		}
		if err := l.RestartCoordinator(); err != nil {
			res.Inconcl = "restart coordinator: " + err.Error()
			return finish()
		}
		note("coordinator killed and restarted; %d targets are listed by the shards", len(held))
		c0 := l.Cycles()
		for l.Cycles() < c0+25 {
			if time.Now().After(watchdog) {
				res.Inconcl = fmt.Sprintf("watchdog: %d cycles of the restarted coordinator seen", l.Cycles()-c0)
				return finish()
			}
			if ok, msg := l.CoordinatorAlive(); !ok {
				res.Violate("C01/real-loop/coordinator-died", "the restarted coordinator exited: %s", msg)
				return finish()
			}
			snap, err := l.Snapshot()
			if err != nil {
				res.Inconcl = "snapshot: " + err.Error()
				return finish()
			}
			res.AddStat("real_loop_snapshots_after_a_coordinator_restart", 1)
			for id := range held {
				on := false
				for _, m := range snap {
					if _, ok := m[id]; ok {
						on = true
					}
				}
				if !on {
					res.Violate("C01/real-loop/orphaned-after-coordinator-restart", "target %d was listed by a shard when the coordinator process restarted, is still configured, and %d cycle(s) of the new coordinator later no shard lists it (snapshot: %s)", id, l.Cycles()-c0, snapKey(snap))
					return finish()
				}
			}
			l.ScrapeAll()
			time.Sleep(20 * time.Millisecond)
		}
	case "restart-coordinator":
		if err := l.RestartCoordinator(); err != nil {
			res.Inconcl = "restart coordinator: " + err.Error()
			return finish()
		}
		note("coordinator killed and restarted")
	case "shard-unreachable":
		i := r.Intn(spec.NShards)
		l.FailShardAPI(i, true)
		c0 := l.Cycles()
		for l.Cycles() < c0+5 && time.Now().Before(watchdog) {
			l.ScrapeAll()
			time.Sleep(40 * time.Millisecond)
		}
		l.FailShardAPI(i, false)
		note("shard %d unreachable for the coordinator for 5 cycles", i)
	}
	res.AddSet("real_loop_faults", fault)
	res.AddSet("real_loop_workloads", workload)
	if workload != "steady" || fault != "none" {
		bound := int64(80)
		if workload == "down-then-up" {
			bound = 120 // the explorer retries a failed probe every 5 s of wall-clock time
		}
		if !waitConverged("after "+workload+"/"+fault, bound) {
			return finish()
		}
	}
	// every configured target is really requested at the farm from now on
	before := map[int]int{}
	for _, id := range l.Targets() {
		before[id] = l.Hits(id)
	}
	for i := 0; i < 3; i++ {
		l.ScrapeAll()
	}
	for _, id := range l.Targets() {
		if l.TrueTotal(id) >= spec.MaxProc || l.IsDown(id) {
			continue // never assigned: too big for any shard, or it has never answered a probe
		}
		if l.Hits(id) == before[id] {
			res.Violate(prop+"/real-loop/converged-but-not-scraped", "target %d is listed by a shard in normal state but three scrape rounds of every shard's Prometheus sent no request to it", id)
		}
	}
	if prop == "C02" {
		// label and URL equivalence through the real binaries: coordinator (discovery, relabeling, hand-over as JSON)
		// -> sidecar (generated file) -> Prometheus loader -> sidecar proxy -> the request that arrives at the target
		ref, err := refTargets(l.ConfigText())
		if err != nil {
			res.Inconcl = "reference: " + err.Error()
			return finish()
		}
		for _, id := range l.Targets() {
			want, ok := ref[id]
			if !ok {
				continue
			}
			gotL, gotW := l.Observed(id)
			res.AddStat("real_loop_targets_compared_with_plain_prometheus", 1)
			res.AddSet("real_loop_wire_forms", strings.SplitN(gotW, " ? ", 2)[0])
			if gotL != want[0] {
				res.Violate("C02/real-loop/labels-differ", "target %d: the shard's Prometheus has labels %s, one plain Prometheus would have %s", id, gotL, want[0])
			}
			if gotW != want[1] {
				res.Violate("C02/real-loop/url-differs", "target %d: the request that arrives at the target is %s, one plain Prometheus would send %s", id, gotW, want[1])
			}
		}
	}
	res.AddStat("real_loop_runs", 1)
	res.AddStat("real_loop_coordination_cycles", l.Cycles())
	return finish()
}
