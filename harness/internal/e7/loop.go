// Package e7 is the real-process loop: the real `kvass coordinator` binary (static shard file, its own
// Prometheus discovery manager, explorer, WaitInit, API service - everything cmd/kvass/coordinator.go
// wires) coordinates real `kvass sidecar` binaries. The harness owns only the edges: the targets (one
// HTTP farm), one simulated Prometheus per shard (re-reads the generated file on /-/reload, scrapes
// through the sidecar's proxy, reports its head series), and a reverse proxy in front of every sidecar
// API that counts coordination cycles and injects faults.
package e7

import (
	"bytes"
	"fmt"
	"io"
	"math/rand"
	"net"
	"net/http"
	"net/http/httptest"
	"net/http/httputil"
	"net/url"
	"os"
	"os/exec"
	"path/filepath"
	"sort"
	"strconv"
	"strings"
	"sync"
	"sync/atomic"
	"syscall"
	"time"

	"github.com/go-kit/log"
	"github.com/prometheus/prometheus/config"
	pdisc "github.com/prometheus/prometheus/discovery"
	pscrape "github.com/prometheus/prometheus/scrape"

	"kvassverif/internal/e3"
	"tkestack.io/kvass/pkg/api"
	"tkestack.io/kvass/pkg/target"
)

// ---------------------------------------------------------------------------
// targets

type farm struct {
	srv  *httptest.Server
	mu   sync.Mutex
	size map[int]int // kept samples per target id
	drop map[int]int // samples the job's metric_relabel_configs drop
	hits map[int]int
	down map[int]bool
	last map[int]string // last request of a target as it arrived: path ? sorted query
	// resetFirst: the first request to the target is answered with 200, a few lines, and a TCP reset
	resetFirst map[int]bool
	// collectPer > 0: every value of the request's collect[] param adds this many (dropped) samples to the answer
	collectPer int
}

func newFarm() *farm {
	f := &farm{size: map[int]int{}, drop: map[int]int{}, hits: map[int]int{}, down: map[int]bool{}, last: map[int]string{}, resetFirst: map[int]bool{}}
	f.srv = httptest.NewServer(http.HandlerFunc(func(w http.ResponseWriter, r *http.Request) {
		id, _ := strconv.Atoi(r.URL.Query().Get("id"))
		f.mu.Lock()
		f.hits[id]++
		f.last[id] = WireForm(r.URL)
		n, d, down := f.size[id], f.drop[id], f.down[id]
		reset := f.resetFirst[id]
		delete(f.resetFirst, id)
		per := f.collectPer
		f.mu.Unlock()
		if reset {
			if hj, ok := w.(http.Hijacker); ok {
				if c, _, err := hj.Hijack(); err == nil {
					var sb strings.Builder
					for i := 0; i < 40; i++ {
						fmt.Fprintf(&sb, "kept_series{t=\"%d\",i=\"%d\"} 1\n", id, i)
					}
					fmt.Fprintf(c, "HTTP/1.1 200 OK\r\nContent-Type: text/plain; version=0.0.4\r\nContent-Length: %d\r\n\r\n%s", 40*(n+d)+100000, sb.String())
					time.Sleep(30 * time.Millisecond)
					if tc, ok := c.(*net.TCPConn); ok {
						_ = tc.SetLinger(0)
					}
					c.Close()
					return
				}
			}
		}
		if down {
			w.WriteHeader(503)
			return
		}
		w.Header().Set("Content-Type", "text/plain; version=0.0.4")
		var sb strings.Builder
		for i := 0; i < n; i++ {
			fmt.Fprintf(&sb, "kept_series{t=\"%d\",i=\"%d\"} 1\n", id, i)
		}
		for i := 0; i < d; i++ {
			fmt.Fprintf(&sb, "dropme_series{t=\"%d\",i=\"%d\"} 1\n", id, i)
		}
		for _, c := range r.URL.Query()["collect[]"] {
			for i := 0; i < per; i++ {
				fmt.Fprintf(&sb, "dropme_collector_%s{t=\"%d\",i=\"%d\"} 1\n", c, id, i)
			}
		}
		io.WriteString(w, sb.String())
	}))
	return f
}

// WireForm renders the parts of a URL that C02 compares behind the host: path and sorted query parameters.
func WireForm(u *url.URL) string {
	q := u.Query()
	var ks []string
	for k := range q {
		ks = append(ks, k)
	}
	sort.Strings(ks)
	var sb strings.Builder
	for _, k := range ks {
		fmt.Fprintf(&sb, "%s=%q;", k, q[k])
	}
	return u.Path + " ? " + sb.String()
}

func (f *farm) addr() string { return f.srv.Listener.Addr().(*net.TCPAddr).String() }

// ---------------------------------------------------------------------------
// one shard: real sidecar process + simulated Prometheus + counting reverse proxy in front of its API

type rshard struct {
	id    string
	dir   string
	bin   string
	sc    *e3.RealSidecar
	prom  *httptest.Server
	front *httptest.Server

	mu       sync.Mutex
	targets  []*pscrape.Target
	last     map[uint64]int64
	tsdb     int64
	reloads  int64
	rtGets   int64  // runtimeinfo requests seen = coordination cycles that reached this shard
	failAPI  int32  // > 0: the front answers 502 (shard unreachable for the coordinator)
	failProm int32  // > 0: this pod's Prometheus answers 500 to POST /-/reload
	cfgFile  string // file mode: the sidecar's --config.file
	lastErr  string
	apiURL   atomic.Value // string: where the front forwards to
	stopped  bool
	startErr error
}

func (s *rshard) head() int64 {
	s.mu.Lock()
	defer s.mu.Unlock()
	var t int64
	for _, v := range s.last {
		t += v
	}
	return t
}

// reload is what POST /-/reload makes Prometheus do.
func (s *rshard) reload() error {
	b, err := os.ReadFile(filepath.Join(s.dir, "out.yaml"))
	if err != nil {
		return nil
	}
	cfg, err := config.Load(string(b), false, log.NewNopLogger())
	if err != nil {
		s.mu.Lock()
		s.lastErr = "generated file rejected: " + err.Error()
		s.mu.Unlock()
		return err
	}
	var ts []*pscrape.Target
	for _, j := range cfg.ScrapeConfigs {
		for _, sd := range j.ServiceDiscoveryConfigs {
			if st, ok := sd.(pdisc.StaticConfig); ok {
				for _, g := range st {
					t, _ := pscrape.TargetsFromGroup(g, j)
					for _, x := range t {
						if x.Labels().Len() > 0 {
							ts = append(ts, x)
						}
					}
				}
			}
		}
	}
	keep := map[uint64]bool{}
	for _, t := range ts {
		var h uint64
		fmt.Sscan(t.URL().Query().Get("_hash"), &h)
		keep[h] = true
	}
	s.mu.Lock()
	s.targets = ts
	for h := range s.last {
		if !keep[h] {
			delete(s.last, h) // no residue: compaction is instantaneous in this loop
		}
	}
	s.mu.Unlock()
	return nil
}

func (s *rshard) scrapeRound() {
	if s.sc == nil {
		return
	}
	pu, _ := url.Parse(s.sc.ProxyURL())
	cli := &http.Client{Transport: &http.Transport{Proxy: http.ProxyURL(pu), DisableKeepAlives: true}, Timeout: 60 * time.Second}
	s.mu.Lock()
	ts := append([]*pscrape.Target{}, s.targets...)
	s.mu.Unlock()
	for _, t := range ts {
		u := t.URL()
		resp, err := cli.Get(u.String())
		if err != nil {
			continue
		}
		b, _ := io.ReadAll(resp.Body)
		resp.Body.Close()
		var h uint64
		fmt.Sscan(u.Query().Get("_hash"), &h)
		if resp.StatusCode == 200 {
			c := int64(0)
			for _, l := range strings.Split(string(b), "\n") {
				if l != "" && !strings.HasPrefix(l, "dropme") {
					c++
				}
			}
			s.mu.Lock()
			s.last[h] = c
			s.mu.Unlock()
		}
	}
}

func (s *rshard) startSidecar() error {
	var extra []string
	if s.cfgFile != "" {
		extra = append(extra, "--config.file="+s.cfgFile)
	}
	sc, err := e3.StartRealSidecar(s.bin, s.dir, s.prom.URL, func() int64 { return atomic.LoadInt64(&s.tsdb) }, extra...)
	if err != nil {
		return err
	}
	s.sc = sc
	s.apiURL.Store(sc.API())
	return nil
}

func newShard(id, dir, bin, cfgFile string) (*rshard, error) {
	s := &rshard{id: id, dir: dir, bin: bin, cfgFile: cfgFile, last: map[uint64]int64{}}
	_ = os.MkdirAll(dir, 0755)
	s.prom = httptest.NewServer(http.HandlerFunc(func(w http.ResponseWriter, r *http.Request) {
		w.Header().Set("Content-Type", "application/json")
		switch {
		case strings.HasSuffix(r.URL.Path, "/status/tsdb"):
			atomic.AddInt64(&s.tsdb, 1)
			fmt.Fprintf(w, `{"status":"success","data":{"headStats":{"numSeries":%d}}}`, s.head())
		case strings.HasSuffix(r.URL.Path, "/-/reload"):
			atomic.AddInt64(&s.reloads, 1)
			if atomic.LoadInt32(&s.failProm) > 0 {
				w.WriteHeader(500)
				return
			}
			if err := s.reload(); err != nil {
				w.WriteHeader(500)
				return
			}
			io.WriteString(w, `{"status":"success"}`)
		default:
			io.WriteString(w, `{"status":"success"}`)
		}
	}))
	if err := s.startSidecar(); err != nil {
		s.prom.Close()
		return nil, err
	}
	s.front = httptest.NewServer(http.HandlerFunc(func(w http.ResponseWriter, r *http.Request) {
		if strings.HasSuffix(r.URL.Path, "/shard/runtimeinfo/") {
			atomic.AddInt64(&s.rtGets, 1)
		}
		if atomic.LoadInt32(&s.failAPI) > 0 {
			w.WriteHeader(502)
			return
		}
		u, _ := url.Parse(s.apiURL.Load().(string))
		rp := httputil.NewSingleHostReverseProxy(u)
		rp.ErrorLog = nil
		rp.ErrorHandler = func(w http.ResponseWriter, _ *http.Request, _ error) { w.WriteHeader(502) }
		rp.ServeHTTP(w, r)
	}))
	return s, nil
}

func (s *rshard) close() {
	if s.sc != nil {
		s.sc.Kill()
	}
	if s.front != nil {
		s.front.Close()
	}
	s.prom.Close()
}

// status reads the sidecar's own status API (not through the front).
func (s *rshard) status() (map[uint64]*target.ScrapeStatus, error) {
	res := map[uint64]*target.ScrapeStatus{}
	err := api.Get(s.sc.API()+"/api/v1/shard/targets/status/", &res)
	return res, err
}

// ---------------------------------------------------------------------------
// the loop

// Spec of one run.
type Spec struct {
	MaxHead     int64
	MaxProc     int64
	Idle        string // coordinator flag value, "" = 0
	NShards     int
	Sizes       map[int][2]int // target id -> kept, dropped
	Interval    time.Duration
	Down        []int  // targets that answer 503 from the start
	FileMode    bool   // the sidecars read the configuration from their own file (--config.file, the default of the binary) instead of being pushed it
	Collect     int    // > 0: the job has a collect[] param with two values, each adding this many samples to every target's answer
	InitTimeout string // --sd.init-timeout of the coordinator (default 20s)
	ResetFirst  []int  // targets whose first response breaks off with a TCP reset
	Rich        bool   // a job with params (multi-valued), a non-canonical path and relabeling that rewrites path and labels
}

// Loop is a running system.
type Loop struct {
	Spec           Spec
	dir            string
	bin            string
	farm           *farm
	shards         []*rshard
	coord          *exec.Cmd
	coordOut       *lockedBuf
	coordAPI       string
	coordDone      chan error
	coordStarted   time.Time
	globalInterval string       // global scrape_interval written to the coordinator's file (default 15s)
	targets        map[int]bool // currently configured target ids
}

const richJobHead = `global:
  scrape_interval: 15s
  scrape_timeout: 10s
scrape_configs:
- job_name: job
  metrics_path: /m//x
  params:
    module: [http_2xx, icmp]
    debug: ['1']
  relabel_configs:
  - source_labels: [tid]
    regex: t(.*)
    target_label: team
    replacement: team-$1
  - source_labels: [__param_id]
    regex: (.*[02468])
    target_label: __metrics_path__
    replacement: /even/./$1
  - source_labels: [__param_id]
    regex: (.*[37])
    target_label: __param_module
    replacement: tcp_$1
  metric_relabel_configs:
  - source_labels: [__name__]
    regex: dropme.*
    action: drop
  static_configs:
`

// SetCollect gives the job a collect[] param with two values from the next configuration on; every value adds per
// samples to every target's answer.
func (l *Loop) SetCollect(per int) {
	l.Spec.Collect = per
	l.farm.mu.Lock()
	l.farm.collectPer = per
	l.farm.mu.Unlock()
}

// EditGlobalInterval changes the global scrape_interval of the next configuration written (an edit that changes
// every job's effective settings and nothing about its targets).
func (l *Loop) EditGlobalInterval(v string) { l.globalInterval = v }

// ConfigText returns the coordinator's configuration file as last written.
func (l *Loop) ConfigText() string {
	b, _ := os.ReadFile(filepath.Join(l.dir, "prometheus.yml"))
	return string(b)
}

// Observed returns, for a configured target, the final labels the shard's Prometheus got for it from the generated
// file (of the first shard that lists it) and the request that last arrived at the target.
func (l *Loop) Observed(id int) (labels string, wire string) {
	for _, s := range l.shards {
		s.mu.Lock()
		for _, t := range s.targets {
			if t.URL().Query().Get("id") == strconv.Itoa(id) && labels == "" {
				labels = t.Labels().String()
			}
		}
		s.mu.Unlock()
	}
	l.farm.mu.Lock()
	wire = l.farm.last[id]
	l.farm.mu.Unlock()
	return
}

func (l *Loop) writeConfig() error {
	var sb strings.Builder
	if l.Spec.Rich {
		sb.WriteString(richJobHead)
		var ids []int
		for id := range l.targets {
			ids = append(ids, id)
		}
		sort.Ints(ids)
		for _, id := range ids {
			fmt.Fprintf(&sb, "  - targets: ['%s']\n    labels:\n      __param_id: '%d'\n      tid: 't%d'\n", l.farm.addr(), id, id)
		}
		if len(ids) == 0 {
			sb.WriteString("  - targets: []\n")
		}
		return os.WriteFile(filepath.Join(l.dir, "prometheus.yml"), []byte(sb.String()), 0644)
	}
	params := ""
	if l.Spec.Collect > 0 {
		params = "  params:\n    'collect[]': [cpu, mem]\n"
	}
	gi := l.globalInterval
	if gi == "" {
		gi = "15s"
	}
	sb.WriteString("global:\n  scrape_interval: " + gi + "\n  scrape_timeout: 10s\nscrape_configs:\n- job_name: job\n" + params + "  metric_relabel_configs:\n  - source_labels: [__name__]\n    regex: dropme.*\n    action: drop\n  static_configs:\n")
	var ids []int
	for id := range l.targets {
		ids = append(ids, id)
	}
	sort.Ints(ids)
	for _, id := range ids {
		fmt.Fprintf(&sb, "  - targets: ['%s']\n    labels:\n      __param_id: '%d'\n      tid: 't%d'\n", l.farm.addr(), id, id)
	}
	if len(ids) == 0 {
		sb.WriteString("  - targets: []\n")
	}
	return os.WriteFile(filepath.Join(l.dir, "prometheus.yml"), []byte(sb.String()), 0644)
}

func (l *Loop) writeStatic() error {
	var sb strings.Builder
	sb.WriteString("replicas:\n- shards:\n")
	for _, s := range l.shards {
		fmt.Fprintf(&sb, "  - id: %s\n    url: %s\n", s.id, s.front.URL)
	}
	return os.WriteFile(filepath.Join(l.dir, "shards.yaml"), []byte(sb.String()), 0644)
}

func freePort() int {
	// random port in 20000-29999 (below the ephemeral range, above the sidecars' 10000-19999), test-bound first
	for try := 0; try < 40; try++ {
		p := 20000 + portRand.Intn(10000)
		ln, err := net.Listen("tcp", fmt.Sprintf("127.0.0.1:%d", p))
		if err == nil {
			ln.Close()
			return p
		}
	}
	return 0
}

var portRand = rand.New(rand.NewSource(time.Now().UnixNano() ^ int64(os.Getpid())<<20))

func (l *Loop) initTimeout() time.Duration {
	if d, err := time.ParseDuration(l.Spec.InitTimeout); err == nil && d > 0 {
		return d
	}
	return 20 * time.Second
}

// CoordinatorUptime is the time since the coordinator process was (last) started.
func (l *Loop) CoordinatorUptime() time.Duration { return time.Since(l.coordStarted) }

// InitTimeout is the coordinator's --sd.init-timeout.
func (l *Loop) InitTimeout() time.Duration { return l.initTimeout() }

func (l *Loop) startCoordinator() error {
	port := freePort()
	if port == 0 {
		return fmt.Errorf("no free port for the coordinator (harness)")
	}
	l.coordAPI = fmt.Sprintf("http://127.0.0.1:%d", port)
	args := []string{"coordinator", "--shard.type=static", "--shard.static-file=" + filepath.Join(l.dir, "shards.yaml"),
		"--config.file=" + filepath.Join(l.dir, "prometheus.yml"), fmt.Sprintf("--web.address=127.0.0.1:%d", port),
		"--coordinator.interval=" + l.Spec.Interval.String(), "--sd.init-timeout=" + l.initTimeout().String(),
		fmt.Sprintf("--shard.max-process-series=%d", l.Spec.MaxProc), fmt.Sprintf("--shard.max-head-series=%d", l.Spec.MaxHead)}
	if l.Spec.Idle != "" {
		args = append(args, "--shard.max-idle-time="+l.Spec.Idle)
	}
	l.coord = exec.Command(l.bin, args...)
	l.coordOut = &lockedBuf{}
	l.coord.Stdout, l.coord.Stderr = l.coordOut, l.coordOut
	if err := l.coord.Start(); err != nil {
		return err
	}
	l.coordStarted = time.Now()
	l.coordDone = make(chan error, 1)
	go func(c *exec.Cmd, ch chan error) { ch <- c.Wait() }(l.coord, l.coordDone)
	return nil
}

func (l *Loop) stopCoordinator() {
	if l.coord != nil && l.coord.Process != nil {
		_ = l.coord.Process.Signal(syscall.SIGKILL)
		select {
		case <-l.coordDone:
		case <-time.After(5 * time.Second):
		}
	}
}

// CoordinatorAlive tells whether the coordinator process is still running.
func (l *Loop) CoordinatorAlive() (bool, string) {
	select {
	case err := <-l.coordDone:
		l.coordDone <- err
		return false, fmt.Sprintf("%v: %s", err, tailS(l.coordOut.String(), 1500))
	default:
		return true, ""
	}
}

// Start builds the system.
func Start(spec Spec, dir, bin string) (*Loop, error) {
	l := &Loop{Spec: spec, dir: dir, bin: bin, farm: newFarm(), targets: map[int]bool{}}
	_ = os.MkdirAll(dir, 0755)
	for id, sz := range spec.Sizes {
		l.farm.size[id], l.farm.drop[id] = sz[0], sz[1]
		l.targets[id] = true
	}
	for _, id := range spec.Down {
		l.farm.down[id] = true
	}
	for _, id := range spec.ResetFirst {
		l.farm.resetFirst[id] = true
	}
	l.farm.collectPer = spec.Collect
	if spec.FileMode {
		if err := l.writeConfig(); err != nil {
			return nil, err
		}
	}
	for i := 0; i < spec.NShards; i++ {
		cfgFile := ""
		if spec.FileMode {
			cfgFile = filepath.Join(dir, fmt.Sprintf("shard-%d.yml", i))
			if err := copyFile(filepath.Join(dir, "prometheus.yml"), cfgFile); err != nil {
				return nil, err
			}
		}
		s, err := newShard(fmt.Sprintf("shard-%d", i), filepath.Join(dir, fmt.Sprintf("pvc-%d", i)), bin, cfgFile)
		if err != nil {
			l.Close()
			return nil, err
		}
		l.shards = append(l.shards, s)
	}
	if err := l.writeConfig(); err != nil {
		l.Close()
		return nil, err
	}
	if err := l.writeStatic(); err != nil {
		l.Close()
		return nil, err
	}
	if err := l.startCoordinator(); err != nil {
		l.Close()
		return nil, err
	}
	return l, nil
}

// Close stops everything.
func (l *Loop) Close() {
	l.stopCoordinator()
	for _, s := range l.shards {
		s.close()
	}
	l.farm.srv.Close()
}

// Cycles returns the number of coordination cycles seen so far: the largest count of runtimeinfo requests at
// any shard. (Not shard 0 alone: the coordinator asks a shard for its target status first and skips the
// runtimeinfo request when that fails, so a shard whose API is made unreachable stops counting.)
func (l *Loop) Cycles() int64 {
	var m int64
	for _, s := range l.shards {
		if c := atomic.LoadInt64(&s.rtGets); c > m {
			m = c
		}
	}
	return m
}

// ScrapeAll lets every shard's Prometheus scrape once.
func (l *Loop) ScrapeAll() {
	var wg sync.WaitGroup
	for _, s := range l.shards {
		wg.Add(1)
		go func(s *rshard) { defer wg.Done(); s.scrapeRound() }(s)
	}
	wg.Wait()
}

// Entry is what one sidecar reports about one target.
type Entry struct {
	State string
	Times uint64
	Up    bool
}

// Snapshot reads every sidecar's status: per shard, target id -> entry. Target ids are recovered from the
// generated files' static entries (hash -> id query parameter).
func (l *Loop) Snapshot() ([]map[int]Entry, error) {
	var out []map[int]Entry
	for _, s := range l.shards {
		st, err := s.status()
		if err != nil {
			return nil, fmt.Errorf("%s: %v", s.id, err)
		}
		idOf := map[uint64]int{}
		s.mu.Lock()
		for _, t := range s.targets {
			var h uint64
			fmt.Sscan(t.URL().Query().Get("_hash"), &h)
			id, _ := strconv.Atoi(t.URL().Query().Get("id"))
			idOf[h] = id
		}
		s.mu.Unlock()
		m := map[int]Entry{}
		for h, e := range st {
			id, ok := idOf[h]
			if !ok {
				id = -int(h%1000000) - 1 // listed by the sidecar but not in the file given to Prometheus
			}
			m[id] = Entry{State: e.TargetState, Times: e.ScrapeTimes, Up: string(e.Health) == "up"}
		}
		out = append(out, m)
	}
	return out, nil
}

// Reconfigure rewrites the coordinator's configuration file and asks it to reload.
func (l *Loop) Reconfigure(add map[int][2]int, remove []int) error {
	l.farm.mu.Lock()
	for id, sz := range add {
		l.farm.size[id], l.farm.drop[id] = sz[0], sz[1]
		l.targets[id] = true
	}
	l.farm.mu.Unlock()
	for _, id := range remove {
		delete(l.targets, id)
	}
	if err := l.writeConfig(); err != nil {
		return err
	}
	// the API of the coordinator binary starts after its start-up wait; a refused connection is retried for a while
	// (cycles counted at the shards say nothing about the API), and if the API never comes up (somebody else got the
	// port between the harness' test and the binary's bind) the coordinator is started again on another port
	var resp *http.Response
	var err error
	for attempt := 0; attempt < 2 && resp == nil; attempt++ {
		for try := 0; try < 150; try++ {
			resp, err = http.Post(l.coordAPI+"/-/reload", "application/json", nil)
			if err == nil || !strings.Contains(err.Error(), "connection refused") {
				break
			}
			time.Sleep(200 * time.Millisecond)
		}
		if err != nil && strings.Contains(err.Error(), "connection refused") && attempt == 0 {
			l.stopCoordinator()
			if err2 := l.startCoordinator(); err2 != nil {
				return err2
			}
		}
	}
	if err != nil {
		return err
	}
	defer resp.Body.Close()
	b, _ := io.ReadAll(resp.Body)
	if resp.StatusCode != 200 {
		return fmt.Errorf("coordinator reload: code %d %s", resp.StatusCode, tailS(string(b), 200))
	}
	if l.Spec.FileMode {
		// the roll-out reaches every shard: its file changes and its sidecar is told to reload (what the config
		// reloader next to it does); a sidecar whose Prometheus refuses the reload answers with an error
		for _, s := range l.shards {
			if err := copyFile(filepath.Join(l.dir, "prometheus.yml"), s.cfgFile); err != nil {
				return err
			}
			if r2, err := http.Post(s.sc.API()+"/-/reload/", "application/json", nil); err == nil {
				io.Copy(io.Discard, r2.Body)
				r2.Body.Close()
			}
		}
	}
	return nil
}

func copyFile(from, to string) error {
	b, err := os.ReadFile(from)
	if err != nil {
		return err
	}
	return os.WriteFile(to, b, 0644)
}

// FailPrometheusReload makes the Prometheus of shard i answer 500 to POST /-/reload until cleared.
func (l *Loop) FailPrometheusReload(i int, on bool) {
	v := int32(0)
	if on {
		v = 1
	}
	atomic.StoreInt32(&l.shards[i].failProm, v)
}

// RestartSidecar kills shard i's sidecar (SIGKILL) and starts it again on the same volume.
func (l *Loop) RestartSidecar(i int) error {
	s := l.shards[i]
	s.sc.Kill()
	s.mu.Lock()
	s.targets, s.last = nil, map[uint64]int64{} // Prometheus of the pod restarts too
	s.mu.Unlock()
	return s.startSidecar()
}

// WipeSidecar kills shard i's sidecar and starts it again on an EMPTY volume (the pod was re-created with a
// new volume): everything it was assigned is scraped by nobody until the coordinator assigns it again.
func (l *Loop) WipeSidecar(i int) error {
	s := l.shards[i]
	s.sc.Kill()
	_ = os.RemoveAll(s.dir)
	_ = os.MkdirAll(s.dir, 0755)
	s.mu.Lock()
	s.targets, s.last = nil, map[uint64]int64{}
	s.mu.Unlock()
	return s.startSidecar()
}

// SetDown makes a target answer 503 (or serve again).
func (l *Loop) SetDown(id int, down bool) {
	l.farm.mu.Lock()
	l.farm.down[id] = down
	l.farm.mu.Unlock()
}

// IsDown tells whether the target currently answers 503.
func (l *Loop) IsDown(id int) bool {
	l.farm.mu.Lock()
	defer l.farm.mu.Unlock()
	return l.farm.down[id]
}

// TrueTotal is the number of samples the target really serves (kept + dropped by the job's rules).
func (l *Loop) TrueTotal(id int) int64 {
	l.farm.mu.Lock()
	defer l.farm.mu.Unlock()
	return int64(l.farm.size[id] + l.farm.drop[id] + 2*l.farm.collectPer)
}

// RestartCoordinator kills the coordinator and starts it again.
func (l *Loop) RestartCoordinator() error {
	l.stopCoordinator()
	return l.startCoordinator()
}

// FailShardAPI makes shard i unreachable for the coordinator (502 from the front) until cleared.
func (l *Loop) FailShardAPI(i int, on bool) {
	v := int32(0)
	if on {
		v = 1
	}
	atomic.StoreInt32(&l.shards[i].failAPI, v)
}

// Targets returns the configured target ids.
func (l *Loop) Targets() []int {
	var ids []int
	for id := range l.targets {
		ids = append(ids, id)
	}
	sort.Ints(ids)
	return ids
}

// Hits returns the number of requests target id has received.
func (l *Loop) Hits(id int) int {
	l.farm.mu.Lock()
	defer l.farm.mu.Unlock()
	return l.farm.hits[id]
}

// Diagnostics returns the tails of the coordinator's and sidecars' logs.
func (l *Loop) Diagnostics() map[string]string {
	d := map[string]string{"coordinator": tailS(l.coordOut.String(), 3000)}
	for _, s := range l.shards {
		if s.sc != nil {
			d[s.id] = tailS(s.sc.Stderr(), 1200)
		}
		s.mu.Lock()
		if s.lastErr != "" {
			d[s.id+"-prometheus"] = s.lastErr
		}
		s.mu.Unlock()
	}
	return d
}

type lockedBuf struct {
	mu sync.Mutex
	b  bytes.Buffer
}

func (l *lockedBuf) Write(p []byte) (int, error) {
	l.mu.Lock()
	defer l.mu.Unlock()
	return l.b.Write(p)
}

func (l *lockedBuf) String() string {
	l.mu.Lock()
	defer l.mu.Unlock()
	return l.b.String()
}

func tailS(s string, n int) string {
	if len(s) > n {
		return s[len(s)-n:]
	}
	return s
}
