// Package sc builds a real kvass sidecar in-process, wired exactly as cmd/kvass/sidecar.go
// wires it (config manager -> scrape manager, injector, "Prometheus reload"; targets manager
// -> injector, "Prometheus reload"; service; proxy), on a private store directory.
package sc

import (
	"bytes"
	"encoding/json"
	"fmt"
	"io"
	"net/http"
	"net/http/httptest"
	"os"
	"path/filepath"
	"sync"

	"github.com/prometheus/client_golang/prometheus"
	"github.com/sirupsen/logrus"

	"tkestack.io/kvass/pkg/api"
	"tkestack.io/kvass/pkg/prom"
	"tkestack.io/kvass/pkg/scrape"
	"tkestack.io/kvass/pkg/shard"
	"tkestack.io/kvass/pkg/sidecar"
	"tkestack.io/kvass/pkg/target"
)

var Quiet = func() *logrus.Logger { l := logrus.New(); l.SetOutput(io.Discard); return l }()

// Options of an instance.
type Options struct {
	StoreDir     string
	OutFile      string // generated Prometheus config
	ProxyURL     string // injected proxy URL (default http://127.0.0.1:8008)
	PromURL      string
	SelfMonitor  bool
	ConfigFile   string // "" = config pushed by the coordinator
	HeadSeries   func() (int64, error)
	OnPromReload func() error // the "POST /-/reload" of the real wiring
}

// Instance is one sidecar.
type Instance struct {
	Opt     Options
	Cfg     *prom.ConfigManager
	SM      *scrape.Manager
	TM      *sidecar.TargetsManager
	Inj     *sidecar.Injector
	Proxy   *sidecar.Proxy
	Svc     *sidecar.Service
	mu      sync.Mutex
	Reloads int
}

// New wires an instance and loads its store (the start-up path of the binary).
// The error is what cmd/kvass/sidecar.go would panic on.
func New(o Options) (*Instance, error) {
	if o.ProxyURL == "" {
		o.ProxyURL = "http://127.0.0.1:8008"
	}
	if o.PromURL == "" {
		o.PromURL = "http://127.0.0.1:9090"
	}
	if o.OutFile == "" {
		o.OutFile = filepath.Join(o.StoreDir, "prometheus_injected.yaml")
	}
	if o.HeadSeries == nil {
		o.HeadSeries = func() (int64, error) { return 0, nil }
	}
	in := &Instance{Opt: o}
	reg := prometheus.NewRegistry()
	in.SM = scrape.New(false, Quiet)
	in.Cfg = prom.NewConfigManager()
	in.TM = sidecar.NewTargetsManager(o.StoreDir, reg, Quiet)
	in.Proxy = sidecar.NewProxy(in.SM.GetJob, func() map[uint64]*target.ScrapeStatus {
		return in.TM.TargetsInfo().Status
	}, in.Cfg.ConfigInfo, reg, Quiet)
	in.Inj = sidecar.NewInjector(o.OutFile, sidecar.InjectConfigOptions{ProxyURL: o.ProxyURL, PrometheusURL: o.PromURL, ShardMonitorEnable: o.SelfMonitor}, reg, Quiet)
	reload := func() error {
		in.mu.Lock()
		in.Reloads++
		in.mu.Unlock()
		if o.OnPromReload != nil {
			return o.OnPromReload()
		}
		return nil
	}
	in.Cfg.AddReloadCallbacks(in.SM.ApplyConfig, in.Inj.ApplyConfig, func(*prom.ConfigInfo) error { return reload() })
	in.TM.AddUpdateCallbacks(in.Inj.UpdateTargets, func(map[string][]*target.Target) error { return reload() })
	in.Svc = sidecar.NewService(o.ConfigFile, o.PromURL, o.HeadSeries, in.Cfg, in.TM, reg, Quiet)
	if o.ConfigFile != "" {
		if err := in.Cfg.ReloadFromFile(o.ConfigFile); err != nil {
			return in, fmt.Errorf("load config: %w", err)
		}
	}
	if err := in.TM.Load(); err != nil {
		return in, fmt.Errorf("load targets: %w", err)
	}
	return in, nil
}

// Call performs one API request against the service handler (no TCP) and decodes the envelope.
func (in *Instance) Call(method, uri string, body interface{}, ret interface{}) (int, *api.Result, error) {
	var rd io.Reader
	if body != nil {
		switch b := body.(type) {
		case []byte:
			rd = bytes.NewReader(b)
		case string:
			rd = bytes.NewReader([]byte(b))
		default:
			j, err := json.Marshal(body)
			if err != nil {
				return 0, nil, err
			}
			rd = bytes.NewReader(j)
		}
	}
	req := httptest.NewRequest(method, uri, rd)
	req.Header.Set("Content-Type", "application/json")
	w := httptest.NewRecorder()
	in.Svc.ServeHTTP(w, req)
	res := &api.Result{Data: ret}
	raw := w.Body.Bytes()
	if len(raw) != 0 {
		if err := json.Unmarshal(raw, res); err != nil {
			return w.Code, res, fmt.Errorf("decode %q: %w", string(raw), err)
		}
	}
	return w.Code, res, nil
}

// PushConfig sends the raw configuration as the coordinator does.
func (in *Instance) PushConfig(raw string) error {
	code, res, err := in.Call("POST", "/api/v1/status/config", &shard.UpdateConfigRequest{RawContent: raw}, nil)
	if err != nil {
		return err
	}
	if code == http.StatusTemporaryRedirect || code == http.StatusMovedPermanently {
		code, res, err = in.Call("POST", "/api/v1/status/config/", &shard.UpdateConfigRequest{RawContent: raw}, nil)
		if err != nil {
			return err
		}
	}
	if code != 200 || res.Status != api.StatusSuccess {
		return fmt.Errorf("push config: code %d %s", code, res.Err)
	}
	return nil
}

// UpdateTargets posts an assignment as the coordinator does.
func (in *Instance) UpdateTargets(ts map[string][]*target.Target) error {
	code, res, err := in.Call("POST", "/api/v1/shard/targets/", &shard.UpdateTargetsRequest{Targets: ts}, nil)
	if err != nil {
		return err
	}
	if code != 200 || res.Status != api.StatusSuccess {
		return fmt.Errorf("update targets: code %d %s", code, res.Err)
	}
	return nil
}

// Status reads /targets/status/.
func (in *Instance) Status() (map[uint64]*target.ScrapeStatus, error) {
	ret := map[uint64]*target.ScrapeStatus{}
	code, res, err := in.Call("GET", "/api/v1/shard/targets/status/", nil, &ret)
	if err != nil {
		return nil, err
	}
	if code != 200 || res.Status != api.StatusSuccess {
		return nil, fmt.Errorf("status: code %d %s", code, res.Err)
	}
	return ret, nil
}

// Runtime reads /runtimeinfo/.
func (in *Instance) Runtime() (*shard.RuntimeInfo, error) {
	ret := &shard.RuntimeInfo{}
	code, res, err := in.Call("GET", "/api/v1/shard/runtimeinfo/", nil, ret)
	if err != nil {
		return nil, err
	}
	if code != 200 || res.Status != api.StatusSuccess {
		return nil, fmt.Errorf("runtimeinfo: code %d %s", code, res.Err)
	}
	return ret, nil
}

// Samples reads /samples/.
func (in *Instance) Samples(job string, detail bool) (map[string]*scrape.StatisticsSeriesResult, error) {
	ret := map[string]*scrape.StatisticsSeriesResult{}
	u := "/api/v1/shard/samples/?"
	if job != "" {
		u += "job=" + job + "&"
	}
	if detail {
		u += "with_metrics_detail=true"
	}
	code, res, err := in.Call("GET", u, nil, &ret)
	if err != nil {
		return nil, err
	}
	if code != 200 || res.Status != api.StatusSuccess {
		return nil, fmt.Errorf("samples: code %d %s", code, res.Err)
	}
	return ret, nil
}

// GeneratedConfig returns the bytes of the generated Prometheus configuration.
func (in *Instance) GeneratedConfig() ([]byte, error) { return os.ReadFile(in.Opt.OutFile) }
