#!/bin/bash
# Builds the harness (and warms the Go build cache) from files on disk only.
set -e
HERE=$(cd "$(dirname "$0")" && pwd)
export GOFLAGS=-mod=mod GOPROXY=off GOSUMDB=off GOTOOLCHAIN=local
mkdir -p "$HERE/bin" "$HERE/evidence"
cd "$HERE/harness"
go build -tags verif -ldflags=-checklinkname=0 -o "$HERE/bin/vcheck" ./cmd/vcheck
go build -tags verif -ldflags=-checklinkname=0 -race -o "$HERE/bin/vcheck-race" ./cmd/vcheck
(cd /repo && go build -ldflags=-checklinkname=0 -o "$HERE/bin/kvass" ./cmd/kvass)
echo setup ok
