#!/bin/bash
# Runs the repository's baseline test command (guard OFF: no -tags) and compares the set of
# passing tests with /root/.vp/BASELINE.json stable_pass. Exit 0 iff every stable test passes.
export GOFLAGS=-mod=mod GOPROXY=off GOSUMDB=off GOTOOLCHAIN=local
REPO=${1:-/repo}
OUT=$(mktemp)
(cd "$REPO" && go test -mod=mod -json -vet=off -count=1 -timeout 25m ./... > "$OUT" 2>/dev/null)
python3 - "$OUT" <<'PY'
import json,sys
base=json.load(open('/root/.vp/BASELINE.json'))
stable=set(base['stable_pass'])
passed=set()
for l in open(sys.argv[1]):
    try: e=json.loads(l)
    except Exception: continue
    if e.get('Action')=='pass' and e.get('Test'):
        passed.add(e['Package']+'::'+e['Test'])
missing=sorted(stable-passed)
extra=sorted(passed-stable)
print(f"baseline: stable={len(stable)} passed_now={len(passed)} missing={len(missing)} newly_passing={len(extra)}")
for m in missing: print("  MISSING",m)
for m in extra: print("  NEW",m)
sys.exit(1 if missing else 0)
PY
rc=$?
rm -f "$OUT"
exit $rc
