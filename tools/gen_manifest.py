#!/usr/bin/env python3
"""Writes /verif/MANIFEST.json from the table below (single source of truth for the interface)."""
import json, os, subprocess

ROOT = os.path.dirname(os.path.dirname(os.path.abspath(__file__)))

E1_NOTE = ("Trusted: the harness' stub sidecar answers (restricted to what pkg/sidecar can emit) and the oracle's reading of the "
           "script; the real Coordinator.Run, shard.Shard caching/needUpdate logic and the api.Result JSON path run unmodified. "
           "Held = held on the executions observed; map order / random choice reached by repetition, not enumeration.")

CHECKS = {
 "C01": dict(engine="E1 stub-cycle", level="exploration", ref="DESIGN.md §5 C01",
   technique="runtime monitoring: recorded request log of real coordinator cycles judged by a set-algebra oracle (orphan / unjustified removal / crash)",
   text="Real coordinator + real shard objects run single cycles against scripted sidecar reports (directed copy/state/load families, a family of tail shards whose targets fit the front shards for some first-fit orders only (40 repetitions each), a family of unassigned targets that fit only into shards with far less than 1 % free space + seeded random cases, each repeated for map order); every APIGet/APIPost/ChangeScale is recorded and the oracle checks that no discovered target reported by an in-sync shard is orphaned, every removal is justified by a vanished target or another in-sync reporter, and the cycle completes (panic, fatal error or 60 s hang of the child is a violation). Exploration is the right level: the input space (reports x options x orders) is unbounded, the oracle is exact per execution.",
   note=E1_NOTE),
 "C04": dict(engine="E1 stub-cycle", level="exploration", ref="DESIGN.md §5 C04",
   technique="runtime monitoring: posted target lists vs. reported loads, arithmetic capacity oracle; boundary-biased workloads",
   text="Same engine with loads at limit-1/limit/limit+1 and directed families for every placement path (first-fit, weighted, head relief at each threshold, process relief, scale-down, several placements on one shard, oversized targets). Oracle: reported load + sizes of everything placed in the cycle < each configured limit; oversized targets are never assigned and never the only reason for a scale request above the current count (judged for unassigned oversized targets and for oversized targets sitting on overloaded shards).",
   note=E1_NOTE + " Size attributed to a moved target = smallest report among in-sync holders (weakest sound reading)."),
 "C05": dict(engine="E1 stub-cycle", level="exploration", ref="DESIGN.md §5 C05",
   technique="runtime monitoring: hand-over predicate (README's 3 scrapes) over recorded posts and scripted scrape counts",
   text="Directed sweep of (source count, destination count) in {0,1,2,3,4,10}^2 x destination health x load ordering for a pending move, moves begun by every relief threshold / process relief / scale-down, plus random cases rich in in-transfer copies, plus closed-loop runs on real sidecars in which every completed move is judged with the harness' own count of real scrapes per (shard, target) at the target farm (a third of them with a sidecar restart / lost update, a third with one pod that cannot build the job's HTTP client). Oracle: a move marks the source in_transfer and sends a normal copy to an in-sync destination in the same cycle; an in-transfer copy disappears from its source only when source and a normal destination copy both report >= 3 scrapes (constant taken from README, not from the code). One closed-loop case in eight is directed: relief towards a rarely scraping destination whose sidecar restarts on its surviving volume 1-3 cycles after the moves began.",
   note=E1_NOTE + " The closed-loop cases use the E2 engine (real sidecars, simulated Prometheus)."),
 "C07": dict(engine="E1 stub-cycle", level="exploration", ref="DESIGN.md §5 C07",
   technique="runtime monitoring: every ChangeScale argument of a cycle judged against bounds / last-needed-shard / no-shrink rules; exhaustive enumeration of shard-kind tuples",
   text="All 1554 tuples of shard kinds {loaded, idle-fresh, idle-expired, unready, out-of-sync, unreachable} over 1-4 positions x 4 new-target situations x 5 (min,max) x 2 idle-time settings are executed (exhaustive over that grid), then random 1-5 shard cases. Every scale request (early min-shard request included) must lie in [min,max], not below the last shard that is out of sync / holds or was given a target / is not idle long enough, and not below the current count when idle time is 0 or a placeable target is still unassigned. Closed-loop cases on real sidecars add a removal monitor on the harness clock (a removed shard was seen holding targets, or created, at a known instant; it must have been removed more than max-idle-time later; worlds with idle time 0 or 1000 h must never shrink) and a directed sequence in which the update that ends an idle period fails half-way. Requests are also judged against a sufficient condition for 'relief needs space'; directed families cover two overloaded shards (one relievable) next to an expired tail without room, and expired tails behind a shard whose targets do not all fit the tightly packed front.",
   note=E1_NOTE + " Idle expiry is scripted as 1 h old vs. a 30 min limit (or 1 s old), so no verdict depends on wall-clock precision."),
 "C08": dict(engine="E1 stub-cycle", level="exploration", ref="DESIGN.md §5 C08",
   technique="runtime monitoring: per-shard request log judged against 'left alone until in sync' rules; exhaustive enumeration of health-kind tuples",
   text="All 4680 tuples of shard health kinds {ok, unready, status fails, runtime fails, push->match, push->differs, push rejected, push->recheck fails} over 1-4 positions x pending work {new targets, relief, scale-down} x idle mode, then random cases. Oracle: a shard that is not in sync receives no target / extra-config POST and is never a destination; a hash mismatch is answered by the raw-config push before anything else and re-checked; targets held only by a reachable out-of-sync shard are not assigned again. The coordinator's ConfigInfo comes from a real ConfigManager that has been through two reloads differing only in external labels: a shard with another hash must be sent the content of the LAST reload.",
   note=E1_NOTE),
}


E3_NOTE = ("Trusted: the harness' in-memory / raw-TCP targets and its reading of the sidecar's HTTP API; the sidecar is the real "
           "TargetsManager + Injector + Proxy + Service + ConfigManager + scrape.Manager wired as cmd/kvass/sidecar.go wires them. "
           "Held = held on the executions observed.")

CHECKS.update({
 "C09": dict(engine="E3 sidecar", level="fault_enumeration", ref="DESIGN.md §5 C09",
   technique="fault injection + state monitor: store write cut after every byte offset via RLIMIT_FSIZE in a child process, process killed inside the write via strace signal injection, SIGKILL of the real binary, repeated fresh Load() compared with previous/new assignment",
   text="The fault space (pair of consecutive assignments x byte offset at which the store write stops) is finite and swept: thorough enumerates every offset for every ordered pair of 8 assignment shapes, quick every offset for four pairs and strided for the rest, plus the old-file-name fall-back path, plus a sweep in which the updating process is KILLED inside the store write (strace-injected SIGKILL, no clean-up code runs) followed by three restarts and an acknowledged follow-up update, a retry of the same update after a failed write (must then persist), a sweep in which the process is killed at the k-th open / fsync / rename / unlink / close call on the store or its temporary file, a check that the restarted sidecar REPORTS one status entry per resumed target in the target's state, 'wired' cases (every ordered pair of shapes acknowledged by a fully wired sidecar whose configuration knows only some of the assigned jobs, then restarts), every restart repeated with update callbacks that fail ('Prometheus not up yet': what is resumed must not depend on it), plus SIGKILLs of the real `kvass sidecar` binary mid-update followed by a restart of the binary. Oracle: the next start succeeds and resumes exactly the previous or the new assignment (deep JSON equality incl. idle-since), the new one if the update was acknowledged.",
   note=E3_NOTE + " A write cut by RLIMIT_FSIZE is taken to leave the disk as a kill / full disk at that byte would; fsync / power-loss semantics of the file system are out of scope."),
 "C10": dict(engine="E3 sidecar", level="exploration", ref="DESIGN.md §5 C10",
   technique="runtime monitoring against an executable reference model of (status map, idle-since) after every operation",
   text="Random operation sequences (updates with adds/removals/state flips/repeats/empty sets/job moves, scrapes through the real proxy, restarts on the same store, updates arriving while a scrape of a kept target is held inside the harness transport, updates whose Prometheus-reload callback fails) on one real sidecar; after every operation the sidecar's /targets/status/ and /runtimeinfo/ answers are compared with a small reference model: key set, state, retained statistics and health, fresh entries, counter restart exactly on normal->in_transfer, idle-since set once, stable, cleared on assignment.",
   note=E3_NOTE),
 "C12": dict(engine="E3 sidecar", level="exploration", ref="DESIGN.md §5 C12",
   technique="runtime monitoring: byte-equality oracle at the Prometheus side of the real proxy over payload shapes x chunkings x encodings x short writes; race detector on the forwarding path",
   text="Every payload shape (empty ... 8 MiB, parser-rejected and binary lines, a 256 KiB-1 line, a newline on the 64 KiB block boundary) x gzip/identity x every 2-way split of the wire bytes (small bodies) or random read sizes (large) x Prometheus side as instrumented writer with short writes or as a real HTTP hop x assigned/unassigned, plus concurrent scrapes of 8 targets over a real HTTP hop and rendezvous pairs of gzip scrapes held between request and streaming, and scrapes during which the administrative stop is set or lifted (a complete 200 must still carry the target's bytes), and every shape served as 2 and 3 concatenated gzip members; the bytes Prometheus receives must equal the target's decompressed body, with its Content-Type and status 200. Runs from the -race binary.",
   note=E3_NOTE),
 "C13": dict(engine="E3 sidecar", level="fault_enumeration", ref="DESIGN.md §5 C13",
   technique="fault injection at every stage and every body offset behind the real proxy; outcome monitor on the Prometheus side (status / aborted response) and on /targets/status/",
   text="One fault per case, enumerated: connect error, five non-200 codes, stalls beyond the timeout before headers and mid body, administrative stop, administrative stop set or lifted while the real request is in flight (the attempt may count either way but consistently: complete 200 with the full body and health up, or a failed response and health down), a transfer beginning (normal -> in_transfer) while a scrape that ends differently from the previous one is in flight (status must show that scrape's outcome, counter 1), a stalled target where the Prometheus-side client gives up before the proxy's own timeout fires (the attempt still failed), a reload that lowers the scrape timeout followed by a target slower than the new timeout, body breaking off at EVERY wire offset (identity and gzip, three error kinds incl. 'connection reset by peer'), multi-block bodies at block boundaries, and real TCP faults (short Content-Length, cut chunked body, RST), each seen through an instrumented writer and through a real net/http hop. Oracle: the Prometheus side sees non-200 or an aborted response, never a complete 200; health down with an error; counter +1; then recovery to up.",
   note=E3_NOTE + " A break after the whole content was delivered is also required to fail on the Prometheus side (Prometheus itself would fail such a scrape)."),
 "C14": dict(engine="E3 sidecar", level="exploration", ref="DESIGN.md §5 C14",
   technique="runtime monitoring against an arithmetic reference: payloads with per-sample relabel outcome known by construction; race detector on the statistics lock",
   text="Random scrape / assignment / rule-reload sequences over two jobs with generated payloads (duplicates, label values needing escapes, 0-6000 samples) under eight metric-relabel programs (two of them pipelines: a rewrite rule followed by a keep/drop rule on the rewritten label) whose keep/drop outcome per sample is evaluated by plain string predicates in the harness; after every operation per-scrape totals, per-metric counts and their sums, the sliding integer mean of the last <=3 successful scrapes, total-series, /runtimeinfo/ sums and the head-series floor, and /samples/ aggregation are compared with the reference; one scrape in five of an assigned target is held inside the harness transport while the identical assignment is re-posted (the scrape must count as any other). All cases run from the normal binary; the first 600 (thorough 6000) run once more, sequentially scheduled, from the -race binary.",
   note=E3_NOTE),
})


E4_NOTE = ("Trusted: the configuration / target-group generators (documented limits in the rule text) and the vendored Prometheus "
           "library (config.Load, scrape.TargetsFromGroup) used as reference implementation. Held = held on the generated cases.")

CHECKS.update({
 "C02": dict(engine="E4 config", level="exploration", ref="DESIGN.md §5 C02",
   technique="differential runtime monitoring: the real discovery -> sidecar API -> generated file -> Prometheus loader -> real proxy pipeline vs. the vendored Prometheus on the original config; observation point = request leaving JobInfo.Cli",
   text="For generated configurations and target groups the set of (final target labels, scheme://host/path?sorted-query really requested by the proxy) obtained through the whole sharded pipeline - real TargetsDiscovery, JSON assignment to 1-3 real sidecars, generated file re-loaded with config.Load, scrape.TargetsFromGroup on its static entries, request through the real Proxy.ServeHTTP - must equal what scrape.TargetsFromGroup yields on the original configuration; the coordinator side is wired as cmd/kvass/coordinator.go does (scrape manager, explorer and discovery share one ConfigInfo): after the first comparison the explorer probes every active target (stub exporter) and the same groups are re-sent without a reload, then the configuration is reloaded with edited relabel programs / path / scheme on the same objects, explored and re-sent again (the reload also changes a configured param value, and on one sidecar the write of the generated file fails once during it) - the comparison is repeated after each of the four phases. Like the Prometheus discovery manager, the harness hands over the SAME group objects as long as a source is unchanged, and in a quarter of the cases lets two jobs with equal discovery sections share them. Two further phases reload ONLY a job's metrics path (to the path some targets pin themselves, then away from it) while the harness, like shard.needUpdate, keeps targets on their shards and re-posts a list only if its hashes or states changed. A differential oracle with the production Prometheus code as reference is the strongest oracle available for 'equivalent to one plain Prometheus'.",
   note=E4_NOTE),
 "C11": dict(engine="E4 config", level="exploration", ref="DESIGN.md §5 C11",
   technique="differential runtime monitoring: generated file re-loaded with the Prometheus loader and compared field-wise with the loaded original, reflective walk over all Secret values, byte scan for job secrets",
   text="Generated configurations with every auth kind, SD kind, alerting and remote read/write sections with unique secrets are pushed through a real sidecar's API together with assignments (incl. empty jobs and targets of unknown jobs), then a reload changing only external labels, a second configuration and a changed assignment, the file being re-checked after each; the generated file must load, have the same jobs in order (+ the self-monitoring job iff enabled), static entries one-to-one with assigned hashes, http scheme, the sidecar's proxy URL, no basic-auth/TLS, no job secret in its bytes, unchanged ingestion settings, and unchanged global/rule/alerting/remote sections including every secret value. Overlap cases: a slow call (big configuration or big assignment) and a fast call of the other kind reach one sidecar 0-15 ms apart; when both have returned the file must show the configuration pushed and the assignment posted. In a third of the cases the write of the generated file fails once during the second configuration push, after which the coordinator's usual actions must bring the file to that configuration; 4/24 cases restart the REAL `kvass sidecar` on its volume and read the file it generates. Read requests to the sidecar API (filtered and unfiltered samples, status, runtimeinfo) are sent between renderings: reads must not change the next file.",
   note=E4_NOTE),
 "C15": dict(engine="E4 config", level="exploration", ref="DESIGN.md §5 C15",
   technique="runtime monitoring: bijection oracle between hashes and (labels, URL) over repeated rounds, permutations, label placement, fresh processes and single-component edits",
   text="The real TargetsDiscovery is run on generated configurations and groups; across repeated rounds, three permutation modes, 1-3 fresh processes and up to 40 single-component edits per case the relation hash <-> (shipped labels, URL) must stay a bijection (reserved non-URL labels count as labels; generated pairs of targets whose label values imitate a name/value boundary for eight separators must stay apart; identities use the URL built from the job section the harness loads itself; a third of the cases add two federation jobs whose targets differ only in the second value of a multi-valued param, another third two identically configured jobs over the same endpoints whose job label comes from discovery - one target each, whatever the scrape job is called), the by-hash table must have one key per distinct target, a job's list may repeat a hash at most once per group, and equal inputs must give equal sets.",
   note=E4_NOTE),
 "C16": dict(engine="E4 config", level="exploration", ref="DESIGN.md §5 C16",
   technique="runtime monitoring: catalogue of single-setting edits (must change the hash) and re-renderings / external-label changes (must not), cross-process and through a sidecar's /runtimeinfo/",
   text="For each generated configuration every applicable entry of a ~150-entry catalogue of single-setting edits must change the hash computed by the real ConfigManager, seven textual re-renderings and three external-label changes must not, the same bytes must hash identically whether loaded from a file in a nested directory (coordinator) or pushed as raw content (sidecar), in three fresh processes and inside a sidecar (as reported by /runtimeinfo/); a manager with an in-place rewriting reload callback (as cmd/kvass registers for its --inject options) must keep the content's hash through reload / stop reason set / repeated / cleared / reload, and so must the real `kvass sidecar --inject.kubernetes-sa-path=...` process (hash read from its /runtimeinfo/ after the same steps over HTTP); and with two overlapping pushes (the old content held inside the first reload callback while the new one is pushed) the reported hash must be that of the configuration the downstream callback was last given; eight managers reloading the same text concurrently must all compute the content's hash; configurations differing only in a password inside a URL (remote read/write url, proxy_url) must hash differently. Half of the cases carry a scalar with blanks beyond column 80; the real-sidecar sequence compares with the hash computed by a fresh process and pushes a second configuration version to a sidecar that has already rendered files. Every eighth case checks the last clause at the wire: after pushes that change only a job's secret, a sidecar that reports the new hash must scrape with the new credentials.",
   note=E4_NOTE + " Pure list re-ordering is not asserted either way."),
})


CHECKS.update({
 "C17": dict(engine="E5 discovery/explorer", level="exploration", ref="DESIGN.md §5 C17",
   technique="runtime monitoring: (1) reference-model monitor after every step, (2) recorded concurrent histories checked for linearizability with porcupine, (3) Go race detector with attribution to reader/writer pairs of the tables",
   text="The real TargetsDiscovery and Explore, wired and fed as in cmd/kvass/coordinator.go, are driven with sequences of full updates, partial first rounds and reloads that add/remove/keep jobs. Monitor 1 compares all four read APIs with a reference model after every step - a third of the update runs are sent back to back (2-4 updates, nobody waits for the explorer in between) and judged after the last; one reload in three leaves a kept job without a buildable HTTP client (CA file unreadable); the coordinator's API service, constructed as cmd/kvass does, is sent eight read requests (health / job / state / statistics filters) before every comparison - and re-checks earlier snapshots; monitor 2 records reads of 4-8 concurrent goroutines against a single writer (unique version per update) and checks each short history with porcupine against a sequential job->version map (a kept job may never be missing); monitor 3 repeats such histories under -race; monitor 4 runs WaitInit against scripted first-round arrivals (it must not return before every configured job had its first round).",
   note="Trusted: the harness' feeding of the discovery channel (what the Prometheus discovery manager would send) and porcupine v1.3.0. Updates and reloads are issued by one writer: update-reload races are outside the property. Held = held on the observed histories; porcupine timeout = inconclusive."),
 "C18": dict(engine="E6 kubernetes fake", level="exploration", ref="DESIGN.md §5 C18",
   technique="runtime monitoring on a client-go fake clientset: returned shards and the recorded API actions / objects judged; exhaustive sweep of the bounded parameter grid",
   text="Every combination of current and requested replica count 0..12 (two-digit ordinals included), 0..2 claim templates, deletion flag, six pod-list orders and readiness masks (thorough: every subset) is executed against the real ReplicasManager / shard manager on a fake clientset loaded with claims for all ordinals of two StatefulSets and decoys with similar names. Shards must come in ordinal order with the right URL and readiness; a scale change must be exactly one update to the requested value (none if unchanged); deleted claims must be exactly those of removed ordinals when deletion is on and none otherwise; a StatefulSet in a rolling update is skipped; when the API server rejects the StatefulSet update (Conflict or server error) the count stays and no claim may be deleted; scripted lives of a StatefulSet over 4-11 cycles with time passing through the verif hook: while a rolling update is in progress (three shapes) it is never handed to the coordinator, also in cycles whose StatefulSet listing fails.",
   note="Trusted: the client-go fake clientset as stand-in for the API server. Exhaustive within the stated bounds only; foreign pods, missing pods and nil replica counts are outside the property's quantifier."),
 "C20": dict(engine="E5 discovery/explorer", level="exploration", ref="DESIGN.md §5 C20",
   technique="runtime monitoring: per-target probe-lifecycle automaton over request events recorded at loopback targets, polling monitor on Explore.Get, POST monitor on a stub shard behind the real coordinator; race-detector pass",
   text="The real Explore + scrape.Manager + TargetsDiscovery (and, in every second case, the real coordinator with a stub shard) run against 30-300 loopback HTTP targets with scripted latency and failing probes, with the real 5 s retry interval, while discovery updates remove and re-add targets inside the retry sleep and a reload keeps or drops a job. Every request at a target is recorded (arrival, departure, outcome, in-flight count) and judged per presence period: probed once asked for, single flight, retry not before the interval and within bounded time, silence after success, at most one probe after removal; Get reports healthy only after a success and with the payload's counts; nothing is assigned before a successful probe and the first assignment carries the kept count. Further cases: a job whose HTTP client cannot be built when its targets are first asked for and can after a later reload - every target must be probed and healthy within interval + 10 s of the repair; and a reload that changes a job's metric relabel rules and params before a new target is probed for the first time (estimate under the new rules, request with the new params); and jobs with a configured param that some targets override through a relabel rule (every probe carries its own target's params and gets its own exposition's counts). A third of the failing probes answer 204 instead of 500 / hanging up.",
   note="Trusted: server-side timestamps at the loopback targets; harness-side bracketing of when an update reached the explorer. Upper time bounds are bounded-progress restatements with workloads sized for >2x slack; lower bounds need no tolerance."),
})


E2_NOTE = ("Trusted: the simulated Prometheus (re-reads the generated file with config.Load and scrapes through the proxy), the simulated "
           "StatefulSet, the target farm, and the stub explorer; coordinator, shard client, api.Get/api.Post, sidecar service/proxy/"
           "targets manager/injector/config manager are the real code over loopback HTTP. 'Eventually' is decided as bounded progress "
           "with the bound stated in the rule; a run that misses the bound is reported as a violation of that restatement.")

CHECKS.update({
 "C03": dict(engine="E2 closed loop", level="exploration", ref="DESIGN.md §5 C03",
   technique="runtime monitoring of a closed loop: convergence/stability predicate over sidecar API snapshots after every cycle, per-cycle scale-up obligation monitor",
   text="Generated worlds (limits, min/max, three idle-time modes, residue of head series, late pods, initial placements incl. overloaded shards, duplicates, pending transfers and leftovers of interrupted transfer chains written into the stores) run a perturbed phase (growth, targets added/removed, uneven scrape rounds) and then a quiet phase in which the bounded restatement of the property must hold: converged and unchanged for 5 cycles within B = 10+4T+3*8 cycles (a fitting target may stay unscraped only when max-shard is reached and no shard has room for it next to what it holds: the property presupposes enough allowed shards). One workload in six drains every target early and refills late (shards idle, possibly scaled to zero). Every cycle is additionally checked for the scale-up obligation. 4/32 further runs use the REAL processes (engine E7): the `kvass coordinator` binary with a static shard file - its own discovery manager, explorer, WaitInit and API - three `kvass sidecar` binaries, a simulated Prometheus per shard and a target farm; targets are added and removed through the coordinator's configuration file and /-/reload; convergence is bounded in coordination cycles counted at a reverse proxy in front of the sidecar APIs (a wall-clock watchdog only makes a run inconclusive).",
   note=E2_NOTE),
 "C06": dict(engine="E2 closed loop", level="fault_enumeration", ref="DESIGN.md §5 C06",
   technique="fault injection at harness-owned boundaries of a closed loop, enumerated single-fault placements + sampled/enumerated pairs, bounded-recovery monitor",
   text="On six fixed small base schedules every placement of one fault (11 variants x 8 cycles x 3 shards; quick: complete on four schedules, strided on the others) plus pairs (quick: 200 sampled; thorough: every pair on the three relief schedules and 3000 sampled triples) is executed; after the perturbed phase the loop must return to the C03 converged state within the bound and stay there. The restart fault is additionally applied to the REAL `kvass sidecar` process (assigned, killed, started twice more on the same volume, configuration pushed again as the coordinator would, no targets posted): the file given to Prometheus must list the resumed targets; 4/32 runs of the real-process loop (E7) have a sidecar killed and restarted, the coordinator killed and restarted, or a shard unreachable for five cycles in the middle. A further fault, inside the real sidecar: its Prometheus answers nothing for 1-2 cycles (reload and head-series query fail); and the converged state requires that the shard listing a target has handed it to its Prometheus. A seventh base schedule has two of four targets answering 500 from the first cycle on (the clean-up rules count attempts; a dead target must not stop them). The fault space of small configurations is finite, which makes enumeration the right level.",
   note=E2_NOTE),
 "C19": dict(engine="E1 stub-cycle", level="exploration", ref="DESIGN.md §5 C19",
   technique="differential runtime monitoring: request traces of a replica run alone vs. next to a hostile replica (both orders), multi-cycle, real coordinator",
   text="For scripted multi-cycle scenarios the canonical trace of everything a replica's shards and manager receive is recorded when the replica is coordinated alone and when a hostile replica (listing or scaling failures, unready, out of sync, another placement of the same targets) is coordinated before or after it in the same cycles; the traces must be identical cycle by cycle. Cases whose own outcome depends on map order are detected by 30 (+100 on a mismatch) repetitions of the victim alone and discarded when those repetitions are mixed; if the victim alone behaves differently from before in 100 of 100 repetitions after the other replica has been coordinated in the same process, that is reported as state leaking between replicas (also probed after every case). The Kubernetes ReplicasManager is checked the same way on a fake clientset: one StatefulSet's scripted life (ready / not ready / rolling update, time passing through a verif-tagged hook that shifts the manager's not-ready timers) alone and next to a second StatefulSet - whether it is handed to the coordinator in a cycle must be identical; in a third of these cases the other StatefulSet has a missing pod, and a panic while listing shards counts as a violation; a quarter of the cases install the same chart in two namespaces under a manager for all namespaces and compare the shard listings.",
   note=E1_NOTE + " A mismatch is reported only if 130 executions of the victim alone all produce the reference trace."),
})

# strengthening of round 8 (appended to the level text of the check)
ROUND8 = {
 "C01": "Plus closed loops on engine E2 (48/1600): half of them with 11-13 simulated pods that the REAL Kubernetes replicas/shard managers list (client-go fake, pods created in shuffled order) and scale, the targets sitting on high ordinals and scale-down enabled; per cycle in which every shard was in sync: a target listed before the cycle and still discovered is listed by a remaining shard after it.",
 "C02": "Job paths and discovery-provided __metrics_path__ values include empty, dot and dot-dot segments and a trailing slash (sent verbatim by Prometheus).",
 "C03": "Real-process special cases (2/8): a target answers 503 from the start, the coordinator's configuration is reloaded while it is down (discovery re-sends every target), then it serves again and must be probed again and assigned within 120 coordination cycles.",
 "C04": "Plus real-process cases (2/8, engine E7): the estimates come from the real explorer probing targets whose bodies span several 64 KiB parser blocks; at every snapshot the true sample counts (known to the target farm) of the targets a shard lists stay below the process-series limit, and a target that alone exceeds it is listed nowhere.",
 "C06": "Real-process special fault (2/8): a configuration reload, four cycles later the fullest shard's sidecar comes back on an empty volume.",
 "C07": "The closed-loop family includes runs with 11-13 pods listed and scaled by the real Kubernetes managers under the removal monitor.",
 "C09": "Mode refused: for every pair of assignment shapes and each of two reload callbacks failing, the refused (unacknowledged) update is followed by a restart, which must resume the assignment acknowledged before it; the repeated update must then persist.",
 "C10": "One case in four leaves an old version's targets.json next to the current store before a restart.",
 "C11": "Every second case changes the stop-scrape reason through the API (set, then cleared) and re-checks the file after each change and after the next targets update.",
 "C12": "Plus 3/12 cases on the REAL sidecar process (proxy started by Proxy.Run): a 200-300 KB body whose header, tail or parts arrive over 11-31 s.",
 "C14": "Plus 3/24 cases on the REAL sidecar process with a stub Prometheus whose head count changes between back-to-back runtimeinfo polls (head grows, or is truncated below the sum of target series).",
 "C17": "Reloads carry per-job rule strictness (a second label value dropped or not), one reload in three keeps the job names and changes only job content, and every update is expected to be translated under the latest reload.",
 "C18": "Plus listings with one or two pods missing and/or a foreign pod that carries the selector's labels (2-12 pods, six order classes): no position is ready unless the pod of that ordinal is listed with an IP, no ready shard appears twice.",
 "C19": "Plus a soak family (2/8): the healthy replica in a closed loop (real api.Get/api.Post) next to a replica whose shard answers 503 with an error body for 150-400 cycles, in a child process whose RLIMIT_NOFILE is what was open after a warm-up plus 30-60, with a control run; a violation needs a cycle that does not complete AND the descriptor table being full.",
 "C20": "One probe body in ten has 2500-5500 samples (several parser blocks).",
}

ROUND9 = {
 "C02": "Plus 2/8 cases on the REAL coordinator and sidecar binaries (engine E7): a job with multi-valued params, a non-canonical path and relabel rules that rewrite path, a param and a label; the labels from the generated file and the request arriving at each target are compared with the vendored Prometheus run on the coordinator's file.",
 "C03": "One closed-loop case in six runs in K8s mode next to two more StatefulSets of the same selector.",
 "C05": "The closed loop also follows moves whose in-transfer mark was lost (destination given the target while the in-sync source goes on listing it), with a directed case that drops the marking POST in the cycle the move begins.",
 "C08": "Plus 1/4 closed loops over real api.Get/api.Post with one shard of 9000-16500 targets (status answer above 1.25 MiB) that is reachable but out of sync for two cycles.",
 "C11": "A third of the assigned targets carry labels under the reserved prefix, their own interval/timeout, extra params and temporary labels; every assigned label must be in the generated static entry.",
 "C12": "Per shape, targets that pick the content coding from the request's Accept-Encoding (deflate, else gzip, else identity).",
 "C14": "The real-process cases also push a configuration with a drop rule while the stub Prometheus answers 500 to /-/reload; the counts of the following scrapes must be those under the rules of the configuration the sidecar reports.",
 "C15": "Same-URL twins with a 0.9-1.5 KB label value that differ in a label sorting first (or last).",
 "C16": "On the real sidecar process a push of another version fails in Prometheus' reload and the coordinator pushes its own version if the reported hash differs; a shard that reports the coordinator's hash must have the generated file of that version.",
 "C17": "Monitor 5 (2/16 cases): on a table of 200-350 jobs x 80-140 targets a reload that keeps every job is overlapped six times by an update sent 0-40 ms after the explorer's reload callback begins; judged after both returned.",
 "C18": "Plus second listings through the SAME replicas manager after every pod got another IP, pods without an IP got one and pod 0 lost its IP.",
 "C19": "Hostile replicas include shards that answer their status but not their runtime info.",
 "C20": "Plus 1/4 flood cases: more than 10000 + workers targets asked for in one period while every probe is held at the target.",
}

ROUND10 = {
 "C01": "Plus 2/6 cases on the real binaries (engine E7): the coordinator process is killed and restarted next to sidecars that keep their targets; every snapshot of the first 25 cycles of the new process must show every target on some shard.",
 "C03": "Plus 1/3 flood cases (real explorer + real coordinator, one stub shard with unlimited room, 10200-10800 targets at once) and a real-process special case in which a target is added after the coordinator's start-up window (--sd.init-timeout) has passed.",
 "C04": "In the real-process cases one big target answers its first request with 40 lines and a TCP reset (a failed probe).",
 "C06": "Real-process special fault with the sidecars in FILE mode: a configuration roll-out (one target removed, one added) reaches a shard while its Prometheus answers 500 to /-/reload.",
 "C08": "Plus 96 two-cycle cases on one coordinator object in which the same shard reports another hash in both cycles.",
 "C11": "Every other case pushes a version with one more job while the reload of Prometheus fails, reverts, lets the coordinator push if the hash differs, and compares the file with the coordinator's version when the shard reports its hash.",
 "C13": "Plus success / connection error / 503 for a target whose assigning update was answered with an error because the reload of Prometheus failed (the sidecar lists it all the same).",
 "C16": "A global section that holds nothing but external labels, no global section, an empty one and other external labels only must hash alike.",
 "C18": "Plus two installations of one chart in two namespaces under a manager for all namespaces, judged directly.",
 "C19": "The hostile replica is absent from the listing in some cycles (the victim changes its position in the list).",
 "C20": "Failing probes also break off with a TCP reset; plus 2/6 cases on the REAL coordinator binary (--sd.init-timeout 6-8 s): a target that answers 503 for good must be probed again after the start-up window, a target added after it must be assigned.",
}

ROUND11 = {
 "C04": "Every second real-process case has a collect[] param with two values that each add 700 samples to every answer (six targets that fit two per shard by their true sizes).",
 "C13": "Plus 503 / connection error / administrative stop directly after an HTTP 500: the status must show the latest failure's error.",
 "C19": "Hostile replicas include in-sync shards that refuse the target or extra-config update (a cycle that does not complete next to them is a violation).",
 "C20": "The param cases have a configured param with three values that each select further series: every probe must carry all of them and the estimate must be that of the full exposition.",
}

ROUND12 = {
 "C09": "In every second SIGKILL case the sidecar runs in file mode (--config.file) and the restarted process finds a Prometheus that takes 1.5 s to reload: the first answer of its API must already show the resumed assignment.",
 "C10": "One check in four also polls /runtimeinfo/ while the head-series query (Prometheus' TSDB API) fails: an answer, if any, must be true about idleness.",
 "C12": "Plus 4 cases with a scrape_timeout of 1.9 s / 2.5 s and a target that answers completely after 1.3 s / 2.2 s: a delivery that breaks off before the configured timeout has passed is a violation.",
 "C17": "Job names include two that differ in case only (ja, JA).",
}

ROUND13 = {
 "C01": "A second real-binary case: only the global scrape_interval changes, the coordinator reloads, and every snapshot of the next 50 cycles must show every target on some shard.",
 "C04": "Plus a real-process case in which the collect[] param arrives with a reload together with a target that exceeds the limit only with both collectors.",
 "C10": "One case in forty (thorough: one in four hundred) restarts the sidecar while the reload callback fails (Prometheus not up yet) and checks the update that follows once more 1.3 s later.",
 "C12": "Plus 2 cases in which a reload raises the job's scrape_timeout from 1 s to 120 s and a target then answers completely after 1.6 s.",
}

NOT_YET = {
}

ALL = ["C%02d" % i for i in range(1, 21)]


def main():
    # hook commits in /repo (add-only files behind //go:build verif)
    commits = []
    try:
        out = subprocess.run(["git", "-C", "/repo", "log", "--format=%H %s"], capture_output=True, text=True).stdout
        for l in out.splitlines():
            if "verif hook" in l or l.split(" ", 1)[1].startswith("verif:"):
                commits.append(l.split()[0])
    except Exception:
        pass
    checks = []
    for pid in ALL:
        if pid not in CHECKS:
            continue
        c = CHECKS[pid]
        checks.append({
            "property_id": pid,
            "quick_cmd": "./check.sh %s quick" % pid,
            "thorough_cmd": "./check.sh %s thorough" % pid,
            "evidence_file": "/verif/evidence/%s.json" % pid,
            "replay_cmd_template": "./bin/vcheck replay {path}",
            "engine": c["engine"],
            "level_claimed": {"category": c["level"], "text": (c["text"] + " " + ROUND8.get(pid, "") + " " + ROUND9.get(pid, "") + " " + ROUND10.get(pid, "") + " " + ROUND11.get(pid, "") + " " + ROUND12.get(pid, "") + " " + ROUND13.get(pid, "")).strip(), "design_ref": c["ref"]},
            "level_note": c["note"],
            "technique": c["technique"],
        })
    na = []
    for pid in ALL:
        if pid not in CHECKS:
            na.append({"property_id": pid, "reason": NOT_YET.get(pid, "check not built yet in this round (planned in DESIGN.md §10); not claimed until its monitor exists and is silent on the unchanged tree")})
    m = {
        "version": 1,
        "setup_cmd": "./setup.sh",
        "hooks": {
            "guard": "verif",
            "enable": "go build -tags verif (check.sh builds the harness with -tags verif; harness go.mod has replace tkestack.io/kvass => /repo, so every check rebuilds from /repo's working tree)",
            "baseline_off_cmd": "./tools/baseline.sh",
            "source_commits": commits,
            "add_only": True,
        },
        "engines": [
            {"name": "E1 stub-cycle", "path": "harness/internal/e1", "serves_properties": ["C01", "C04", "C05", "C07", "C08", "C19"],
             "kind_free_text": "real coordinator + real shard objects, scripted sidecar answers, recorded request log, offline oracles"},
            {"name": "E4 config", "path": "harness/internal/e4", "serves_properties": ["C02", "C11", "C15", "C16"],
             "kind_free_text": "structured configuration and target-group generators; differential against the vendored Prometheus library; child processes for cross-process hashes; real sidecar binary for wiring-dependent behaviour"},
            {"name": "E5 discovery/explorer", "path": "harness/internal/e5", "serves_properties": ["C03", "C17", "C20"],
             "kind_free_text": "coordinator-side pipeline wired as cmd/kvass/coordinator.go; loopback HTTP targets; porcupine; race-detector pass"},
            {"name": "E6 kubernetes fake", "path": "harness/internal/e6", "serves_properties": ["C18", "C19"],
             "kind_free_text": "real kubernetes replicas/shard manager on client-go fake clientset; action log as event log; scripted StatefulSet lives with time passing through the verif hook"},
            {"name": "E7 real processes", "path": "harness/internal/e7", "serves_properties": ["C01", "C02", "C03", "C04", "C06", "C20"],
             "kind_free_text": "real kvass coordinator binary (static shard file, own discovery manager, explorer, API) + real kvass sidecar binaries + simulated Prometheus per shard + target farm; cycles counted and faults injected at a reverse proxy in front of the sidecar APIs"},
            {"name": "E2 closed loop", "path": "harness/internal/e2", "serves_properties": ["C01", "C03", "C05", "C06", "C07", "C08", "C19"],
             "kind_free_text": "real coordinator + real sidecars over loopback HTTP, simulated Prometheus/StatefulSet/target farm, stepped cycles, fault wrappers; K8s mode: the simulated pods are listed and scaled by the real Kubernetes managers on a client-go fake; soak mode in a child process with a lowered descriptor limit"},
            {"name": "E3 sidecar", "path": "harness/internal/e3", "serves_properties": ["C09", "C10", "C12", "C13", "C14"],
             "kind_free_text": "one real sidecar driven through its HTTP API and proxy; in-memory and raw-TCP targets; RLIMIT_FSIZE crash child; real binary under SIGKILL; real binary behind a scripted slow target and a stub Prometheus with a settable head count"},
        ],
        "checks": checks,
        "not_applicable": na,
        "notes": "Technique family: runtime monitoring. Exit 0 held / 1 VIOLATION / 2 INCONCLUSIVE (never on the unchanged tree). known_findings.json lists repaired (fixed) and recorded (open) genuine defects.",
    }
    with open(os.path.join(ROOT, "MANIFEST.json"), "w") as f:
        json.dump(m, f, indent=1)
    print("wrote MANIFEST.json with", len(checks), "checks,", len(na), "not_applicable")


if __name__ == "__main__":
    main()
