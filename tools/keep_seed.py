#!/usr/bin/env python3
"""usage: keep_seed.py <seed name e.g. C07-a> <property> <outdir> <demo file> <demo pkg> <needs> <detected-by (comma list or 'none')> <detail>"""
import sys, os, shutil, json
name, prop, out, demo, pkg, needs, caught, detail = sys.argv[1:9]
d = os.path.join('/verif/seeded', name)
os.makedirs(d, exist_ok=True)
shutil.copy(os.path.join(out, 'patch.diff'), os.path.join(d, 'patch.diff'))
shutil.copy(os.path.join(out, demo), os.path.join(d, demo))
if os.path.exists(os.path.join(out, 'notes.md')):
    shutil.copy(os.path.join(out, 'notes.md'), os.path.join(d, 'notes.md'))
meta = {
    "seed": name, "breaks_property": prop,
    "needs_to_manifest": needs,
    "demonstration": {"file": demo, "package_dir": pkg,
                      "confirmed": "tools/vet_seed.sh: demo passes on /repo HEAD, fails with patch.diff applied, repository baseline (92 stable tests) unchanged with the patch"},
    "ran": "tools/try_patch.sh seeded/%s/patch.diff %s (quick tier, VERIF_SEED=1)" % (name, caught.replace(',', ' ') if caught != 'none' else prop),
    "detected_by": [] if caught == 'none' else caught.split(','),
    "detection_detail": detail,
    "origin": "independent sub-agent given only the property text and a scratch worktree",
}
json.dump(meta, open(os.path.join(d, 'meta.json'), 'w'), indent=1)
print("kept", d)
