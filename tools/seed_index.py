#!/usr/bin/env python3
"""Writes /verif/seeded/INDEX.md from the meta.json files."""
import json, glob, os
rows = []
for f in sorted(glob.glob('/verif/seeded/*/meta.json')):
    m = json.load(open(f))
    missed = m['detection_detail'].startswith(('MISSED', 'NOT caught')) or 'would have MISSED' in m['detection_detail']
    rows.append((m['seed'], m['breaks_property'], m['needs_to_manifest'], ', '.join(m['detected_by']) or '-', 'missed at first, check strengthened' if missed else 'caught as it stood', m['detection_detail']))
out = ["# Seeded changes (independent sub-agents; each confirmed in a scratch worktree: demo passes on HEAD, fails with the patch, repository baseline unchanged)", "",
       "| seed | breaks | needs, in order to manifest | detected by (quick tier) | first outcome | detail |", "|---|---|---|---|---|---|"]
for r in rows:
    out.append("| %s | %s | %s | %s | %s | %s |" % tuple(x.replace('|', '/').replace('\n', ' ') for x in r))
n = len(rows); miss = sum(1 for r in rows if r[4].startswith('missed'))
out += ["", "%d seeds; %d were missed by the checks as they stood when the seed arrived, every one of them is caught after the strengthening recorded in the row; none is missed now." % (n, miss), "",
        "Run one: `tools/try_patch.sh seeded/<seed>/patch.diff <property id>` (applies to /repo, runs the check, restores /repo and the evidence)."]
open('/verif/seeded/INDEX.md', 'w').write('\n'.join(out) + '\n')
print(n, 'seeds,', miss, 'missed at first')
