#!/bin/bash
# Re-runs every kept seed against the checks recorded as detecting it; prints seeds that are NOT caught any more.
cd /verif
fail=0
for d in seeded/*/; do
  name=$(basename $d)
  ids=$(python3 -c "import json;print(' '.join(json.load(open('$d/meta.json'))['detected_by'][:1]))")
  [ -z "$ids" ] && continue
  out=$(./tools/try_patch_iso.sh $d/patch.diff $ids 2>&1)
  if echo "$out" | grep -q "^== .* exit=1"; then echo "ok   $name ($ids)"; else echo "LOST $name ($ids)"; echo "$out" | tail -3; fail=1; fi
done
exit $fail
