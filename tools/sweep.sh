#!/bin/bash
# usage: sweep.sh [tier] [seed...]   runs every claimed check, prints one line each
TIER=${1:-quick}; shift
SEEDS=${@:-1}
cd /verif
for s in $SEEDS; do
 for id in $(python3 -c "import json;print(' '.join(c['property_id'] for c in json.load(open('MANIFEST.json'))['checks']))"); do
  out=$(VERIF_SEED=$s ./check.sh $id $TIER 2>&1); rc=$?
  line=$(echo "$out" | grep -E "^C[0-9]+ tier" | cut -c1-150)
  echo "seed=$s rc=$rc $line"
  if [ $rc -ne 0 ]; then echo "$out" | grep -E "^(VIOLATION|INCONCL|BUILD|  sig)" | cut -c1-300 | head -6; fi
 done
done
