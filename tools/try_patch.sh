#!/bin/bash
# usage: try_patch.sh <patch.diff> <property id>...   [TIER=quick]
# Applies a seeded change to /repo, runs the named checks, and ALWAYS restores /repo.
# Evidence files are restored afterwards too (evidence must come from the unchanged tree).
set -u
PATCH=$(readlink -f "$1"); shift
TIER=${TIER:-quick}
cd /verif || exit 2
if ! git -C /repo diff --quiet; then echo "/repo has uncommitted changes; refusing"; exit 2; fi
if ! git -C /repo apply --check "$PATCH" 2>/dev/null; then echo "patch does not apply to /repo HEAD"; git -C /repo apply --check "$PATCH"; exit 2; fi
SAVE=$(mktemp -d)
cp -r /verif/evidence "$SAVE/evidence"
git -C /repo apply "$PATCH"
trap 'git -C /repo checkout -- . ; rm -rf /verif/evidence; cp -r "$SAVE/evidence" /verif/evidence; rm -rf "$SAVE"' EXIT
for id in "$@"; do
  out=$(./check.sh "$id" "$TIER" 2>&1)
  rc=$?
  echo "== $id exit=$rc"
  echo "$out" | grep -E "^(VIOLATION|KNOWN|INCONCL|BUILD|  sig=|C[0-9]+ tier)" | cut -c1-330
done
