#!/bin/bash
# usage: try_patch_iso.sh <patch.diff> <property id>...   [TIER=quick]
# Like try_patch.sh but leaves /repo and /verif/evidence alone: the patch is applied to a scratch
# worktree of /repo HEAD under /tmp, the harness is built against THAT tree (-modfile with another
# replace path) into a scratch VERIF_ROOT, and everything is removed afterwards. For trials of
# seeded changes while a long run is building from /repo; registered checks never use this.
set -u
PATCH=$(readlink -f "$1"); shift
TIER=${TIER:-quick}
export GOFLAGS=-mod=mod GOPROXY=off GOSUMDB=off GOTOOLCHAIN=local
SRC=${VERIF_SRC:-/verif}
TP=/tmp/tp-$$
trap 'git -C /repo worktree remove --force "$TP/repo" >/dev/null 2>&1; rm -rf "$TP"; git -C /repo worktree prune' EXIT
mkdir -p "$TP/root/bin" "$TP/root/evidence"
git -C /repo worktree add -q --detach "$TP/repo" HEAD || exit 2
if ! git -C "$TP/repo" apply "$PATCH"; then echo "patch does not apply to /repo HEAD"; exit 2; fi
cp "$SRC/known_findings.json" "$TP/root/"
sed "s#=> /repo#=> $TP/repo#" "$SRC"/harness/go.mod > "$TP/h.mod"
cp "$SRC/harness/go.sum" "$TP/h.sum"
cd "$SRC/harness" || exit 2
go build -modfile="$TP/h.mod" -tags verif -ldflags=-checklinkname=0 -o "$TP/root/bin/vcheck" ./cmd/vcheck > "$TP/build.log" 2>&1 || { echo "BUILD FAILED"; tail -20 "$TP/build.log"; exit 2; }
for id in "$@"; do
  case "$id" in C12|C14|C17|C20) go build -modfile="$TP/h.mod" -race -tags verif -ldflags=-checklinkname=0 -o "$TP/root/bin/vcheck-race" ./cmd/vcheck > "$TP/build.log" 2>&1 || { echo "BUILD FAILED (race)"; exit 2; } ;; esac
  case "$id" in C01|C02|C03|C04|C06|C09|C11|C12|C14|C16|C20) (cd "$TP/repo" && go build -ldflags=-checklinkname=0 -o "$TP/root/bin/kvass" ./cmd/kvass) > "$TP/build.log" 2>&1 || { echo "BUILD FAILED (kvass)"; exit 2; } ;; esac
  out=$(cd "$TP/root" && VERIF_ROOT="$TP/root" "$TP/root/bin/vcheck" run "$id" --tier "$TIER" --seed "${VERIF_SEED:-1}" 2>&1)
  rc=$?
  echo "== $id exit=$rc"
  echo "$out" | grep -E "^(VIOLATION|KNOWN|INCONCL|BUILD|  sig=|C[0-9]+ tier)" | cut -c1-330
done
