#!/bin/bash
# usage: vet_seed.sh <outdir> <demo file> <package dir relative to repo> [test run regex]
# Confirms in a fresh scratch worktree: demo passes without the patch, fails with it, baseline unchanged with it.
set -u
export GOFLAGS=-mod=mod GOPROXY=off GOSUMDB=off GOTOOLCHAIN=local
OUT=$1; DEMO=$2; PKG=$3; RUN=${4:-.}
WT=/tmp/vet-$$
git -C /repo worktree add -q --detach $WT HEAD || exit 2
trap 'git -C /repo worktree remove --force $WT' EXIT
mkdir -p "$WT/$PKG"; cp "$OUT/$DEMO" "$WT/$PKG/"
echo "--- demo WITHOUT patch"
(cd $WT && go test -vet=off -count=1 -run "$RUN" ./$PKG/ 2>&1 | tail -4)
git -C $WT apply "$OUT/patch.diff" || { echo "patch does not apply"; exit 2; }
echo "--- demo WITH patch"
(cd $WT && go test -vet=off -count=1 -run "$RUN" ./$PKG/ 2>&1 | grep -E "^(---|FAIL|ok|panic)" | head -8)
rm -f "$WT/$PKG/$DEMO"
echo "--- baseline WITH patch"
/verif/tools/baseline.sh $WT
